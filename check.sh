#!/bin/bash
# ./check.sh <Cxx> quick|thorough            run a check (rebuilds from the current tree of $VERIF_REPO, default /repo)
# ./check.sh <Cxx> --replay <file>           re-run one recorded case without the explorer
# exit 0 = held on everything explored, 1 = VIOLATION printed, 2 = harness error
set -u
VERIF=$(cd "$(dirname "$0")" && pwd)
REPO=${VERIF_REPO:-/repo}
export GOFLAGS=-mod=mod GOPROXY=off
unset GOTOOLCHAIN GOSUMDB
export VERIF_DIR=$VERIF
id=${1:?usage: check.sh Cxx quick|thorough}
mode=${2:-quick}

run=$VERIF/build/run-$$
mkdir -p "$run"
trap 'rm -rf "$run"' EXIT

if [ ! -x "$VERIF/bin/overlaygen" ] || [ -n "$(find "$VERIF/tools/overlaygen" -name "*.go" -newer "$VERIF/bin/overlaygen" 2>/dev/null)" ]; then
  mkdir -p "$VERIF/bin"
  (cd "$VERIF/tools" && GOTOOLCHAIN=local go build -o "$VERIF/bin/overlaygen" ./overlaygen) || { echo "HARNESS-ERROR cannot build overlaygen"; exit 2; }
fi
goroot=$(cd "$REPO" && go env GOROOT) || { echo "HARNESS-ERROR go env failed"; exit 2; }
# C01-C10, C16 and C18 explore concurrent requests with scheduling points at statement level in every package
# of the repository ("wide" instrumentation). If a tree does not build that way (the syntactic pass
# met something it cannot handle) the check falls back to the narrow instrumentation and says so.
wide=""
case "$id" in C01|C02|C03|C04|C05|C06|C07|C08|C09|C10|C16|C18) wide="-wide";; esac
built=""
if [ -n "$wide" ] && [ -z "${VERIF_NO_WIDE:-}" ]; then
  mkdir -p "$run/w"
  if ov=$("$VERIF/bin/overlaygen" -wide -repo "$REPO" -verif "$VERIF" -out "$run/w" -goroot "$goroot") &&
     (cd "$REPO" && go test -c -vet=off -tags verif -overlay "$ov" -o "$run/verif.test" . ) > "$run/build.log" 2>&1; then
    built=1; export VERIF_WIDE=1
  else
    echo "note: wide instrumentation does not build on this tree; falling back to the narrow one"; tail -5 "$run/build.log"
  fi
fi
if [ -z "$built" ] && [ -z "${VERIF_FORCE_PLAIN:-}" ]; then
  if ov=$("$VERIF/bin/overlaygen" -repo "$REPO" -verif "$VERIF" -out "$run" -goroot "$goroot") &&
     (cd "$REPO" && go test -c -vet=off -tags verif -overlay "$ov" -o "$run/verif.test" . ) > "$run/build.log" 2>&1; then
    built=1
  else
    echo "note: the access instrumentation does not build on this tree; falling back to import swaps only"; tail -5 "$run/build.log"
  fi
fi
if [ -z "$built" ]; then
  # last resort: no access instrumentation (C20 and C07 lose their statement-level scheduling points and say so)
  mkdir -p "$run/p"
  ov=$("$VERIF/bin/overlaygen" -plain -repo "$REPO" -verif "$VERIF" -out "$run/p" -goroot "$goroot") || { echo "HARNESS-ERROR overlay generation failed"; exit 2; }
  if ! (cd "$REPO" && go test -c -vet=off -tags verif -overlay "$ov" -o "$run/verif.test" . ) > "$run/build.log" 2>&1; then
    echo "HARNESS-ERROR build failed"; tail -40 "$run/build.log"; exit 2
  fi
  export VERIF_PLAIN=1
fi
if [ "$REPO" != "/repo" ] && [ -z "${VERIF_OUT_DIR:-}" ]; then
  export VERIF_OUT_DIR=$VERIF/build/scratch-repo-out   # runs against a scratch copy never touch evidence/
  mkdir -p "$VERIF_OUT_DIR"
fi
if [ "$mode" = "thorough" ] && { [ "$id" = "C12" ] || [ "$id" = "C20" ] || [ "$id" = "C07" ] || [ "$id" = "C10" ] || [ "$id" = "C05" ]; }; then
  # labelled supplement (never the deciding step): the same bodies free-running under the race detector
  if (cd "$REPO" && go test -race -c -vet=off -tags verif -overlay "$ov" -o "$run/verif.race.test" . ) > "$run/build-race.log" 2>&1; then
    export VERIF_RACE_BIN=$run/verif.race.test
  else
    echo "note: race-detector supplement not built"; tail -5 "$run/build-race.log"
  fi
fi
export VERIF_CHECK=$id
if [ "$mode" = "--replay" ]; then
  export VERIF_REPLAY=${3:?missing replay file}
  export VERIF_TIER=quick
else
  export VERIF_TIER=$mode
fi
cd "$run" && timeout ${VERIF_TIMEOUT:-3600} ./verif.test
