//go:build verif

package main

import (
	"fmt"
	"net"
	"net/http"
	"sort"
	"strconv"
	"strings"
	"time"

	"github.com/oauth2-proxy/oauth2-proxy/v7/verifx/world"
)

// C11 — two dimensions of the ENVIRONMENT of a sign-out that the history search is multiplied with.
//
// (a) The deployment behind a fronting reverse proxy. "The sign-out response deletes every session
//     cookie the browser presented ... using the same name, path and domain under which they were
//     set": which of the configured cookie domains a cookie gets is decided per request from the
//     host the BROWSER used. With --reverse-proxy that host arrives in X-Forwarded-Host while the
//     Host header names an internal address. Every code path that sets or expires a cookie must
//     come to the same domain; the jar (exact-key deletion) is the judge, for both stores.
//
// (b) Store faults at the granularity of single Redis COMMANDS. "a sign-out that could not remove
//     the stored session is answered with an error, not with the success redirect": one store
//     operation of the repository's Client interface may be several commands on the wire (a DEL per
//     key, the lock's SET NX / script calls, a reload under the lock). For every command the server
//     receives during the sign-out request — found by executing the request, not by reading code —
//     the request is executed again with exactly that command (thorough: every pair of commands,
//     the second one taken from the command sequence the first fault leads to) answered with an
//     error reply instead of being executed. Oracle: the answer is the sign-out's success redirect
//     => the store holds no session entry and no cookie set the browser ever held is served again.

// ---------------------------------------------------------------------------------------------
// (a) fronting reverse proxy

// c11Fronts: front name -> the Host header under which the fronting proxy addresses oauth2-proxy.
// The public host (what the browser and its jar see) stays c11Host and travels in X-Forwarded-Host.
//
//	rp-foreign  the internal host matches none of the cookie domains
//	rp-sibling  the internal host lies under the widest cookie domain (example.com) but is not the public host
var c11Fronts = map[string]string{
	"rp-foreign": "oauth2-proxy.internal:4180",
	"rp-sibling": "internal.example.com:4180",
}

// cookie-domain sets of nested lengths (0-3 domains), in both orders of the nested pair, and one
// whose last (fall-back) entry matches neither the public nor an internal host
var c11FrontDomains = [][]string{
	nil,
	{"example.com"},
	{"app.example.com", "example.com"},
	{"example.com", "app.example.com"},
	{"app.example.com", "example.com", "example.org"},
}

func c11FrontConfigs(quick bool) []c11Cfg {
	names := []string{"_oauth2_proxy"}
	if !quick {
		names = append(names, c11LongName(256))
	}
	fronts := make([]string, 0, len(c11Fronts))
	for f := range c11Fronts {
		fronts = append(fronts, f)
	}
	sort.Strings(fronts)
	var out []c11Cfg
	for _, name := range names {
		for _, front := range fronts {
			for _, d := range c11FrontDomains {
				for _, path := range []string{"/", "/app"} {
					for _, redis := range []bool{false, true} {
						out = append(out, c11Cfg{Redis: redis, Domains: d, Path: path, Name: name, Front: front})
					}
				}
			}
		}
	}
	return out
}

// c11UnitPlan: the depth of the history search and whether command faults are enumerated for a
// configuration. Quick: behind the reverse proxy histories of up to 1 operation after the login (the
// cookie layouts single / split / grown / shrunk are all reached with one), and command faults in the
// configurations with the default cookie name (the store traffic does not depend on the cookie's
// name); thorough: full depth everywhere, command faults in the same configurations.
func c11UnitPlan(k c11Cfg, quick bool, maxDepth int) (depth int, cmdFaults bool) {
	depth = maxDepth
	if !quick {
		return depth, k.Redis && k.Name == "_oauth2_proxy"
	}
	if k.Front != "" {
		depth = 1
	}
	return depth, k.Redis && k.Name == "_oauth2_proxy"
}

// c11FrontProxy is the fronting reverse proxy: what the browser sent to the public host is passed
// on under the internal Host, with the public host, scheme and client address in X-Forwarded-*.
func c11FrontProxy(front string, h http.Handler) http.Handler {
	internal := c11Fronts[front]
	if internal == "" {
		panic("unknown front " + front)
	}
	return http.HandlerFunc(func(rw http.ResponseWriter, req *http.Request) {
		r2 := req.Clone(req.Context())
		r2.Header.Set("X-Forwarded-Host", req.Host)
		r2.Header.Set("X-Forwarded-Proto", "http")
		r2.Header.Set("X-Forwarded-For", "203.0.113.7")
		r2.Host = internal
		h.ServeHTTP(rw, r2)
	})
}

// ---------------------------------------------------------------------------------------------
// (b) command-level faults

const c11CmdFaultKey = "C11/command-fault/success-redirect-although-stored-session-not-removed"

const c11CmdErrReply = "ERR injected failure of a single command"

// vacuity guards of this file's parts (checked in the check's post function)
var c11EnvNeed = []string{
	"signout_behind_reverse_proxy_cookie", "signout_behind_reverse_proxy_redis",
	"signout_behind_reverse_proxy_0_cookie_domains", "signout_behind_reverse_proxy_1_cookie_domains",
	"signout_behind_reverse_proxy_2_cookie_domains", "signout_behind_reverse_proxy_3_cookie_domains",
	"cookies_deleted_behind_reverse_proxy",
	"cmd_fault_evaluations", "cmd_fault_delivered", "cmd_fault_answer_error", "cmd_fault_answer_redirect",
	"cmd_fault_on_DEL_session-key", "cmd_fault_on_GET_session-key", "cmd_fault_on_SET_session-key", "cmd_fault_on_SET_lock-key",
	"cmd_fault_inside_refreshing_sign_out",
}

// c11CmdFaultVariant: the fault-free sign-out variants whose commands are failed one by one.
// The store traffic of a sign-out does not depend on method and rd: quick takes the two diagonal
// combinations, at once and 2 minutes later (refresh inside the sign-out request: lock, reload,
// save, release, delete); thorough takes every fault-free variant.
func c11CmdFaultVariant(o c11Out, quick bool) bool {
	if o.Fault != "" {
		return false
	}
	if !quick {
		return true
	}
	return (o.Stale == "" || o.Stale == "stale") && (o.Method == "GET") != o.Rd
}

func c11CmdFaultVariants(quick bool) string {
	var v []string
	for _, o := range c11Outs(c11Cfg{Redis: true}, quick) {
		if c11CmdFaultVariant(o, quick) {
			v = append(v, o.String())
		}
	}
	return strings.Join(v, " ")
}

// c11CmdFaultDepth: how many commands of one sign-out request fail together. Quick: one. Thorough:
// pairs for the diagonal variants (as in quick) after histories of at most one operation, one
// elsewhere.
func c11CmdFaultDepth(o c11Out, quick bool, historyLen int) int {
	if !quick && historyLen <= 1 && c11CmdFaultVariant(o, true) {
		return 2
	}
	return 1
}

// c11CmdFaultPositions parses "cmd:<i>[,<j>...]".
func c11CmdFaultPositions(fault string) ([]int, bool) {
	if !strings.HasPrefix(fault, "cmd:") {
		return nil, false
	}
	var idx []int
	for _, p := range strings.Split(strings.TrimPrefix(fault, "cmd:"), ",") {
		n, err := strconv.Atoi(p)
		if err != nil || n < 0 {
			panic("bad command fault " + fault)
		}
		idx = append(idx, n)
	}
	return idx, true
}

// connection set-up of the client library: not part of the request's store traffic, not numbered
var c11Handshake = map[string]bool{"HELLO": true, "CLIENT": true, "AUTH": true, "SELECT": true, "READONLY": true, "QUIT": true}

// c11CmdLabel names a command by what it addresses, e.g. "DEL session-key", "SET lock-key".
func c11CmdLabel(sc *world.ServerCmd, sessionKeys map[string]bool) string {
	kind := ""
	for _, a := range sc.Args {
		if strings.HasSuffix(a, ".lock") {
			kind = "lock-key"
			break
		}
		if sessionKeys[a] {
			kind = "session-key"
			break
		}
	}
	if kind == "" {
		if len(sc.Args) > 0 && len(sc.Args[0]) > 20 {
			kind = "other-key"
		} else {
			kind = "no-key"
		}
	}
	return sc.Name + " " + kind
}

// c11WatchCommands records the commands of the sign-out request into r.Cmds and makes the server
// answer the commands at the given positions (numbered in order of arrival, handshake excluded)
// with an error reply instead of executing them.
func c11WatchCommands(rd *world.Redis, fail []int, r *c11Result) {
	keys := map[string]bool{}
	for _, k := range rd.SessionKeys() {
		keys[k] = true
	}
	n := 0
	rd.WatchCommands(func(sc *world.ServerCmd) string {
		if c11Handshake[sc.Name] {
			return ""
		}
		label := c11CmdLabel(sc, keys)
		if sc.Name == "SET" && len(sc.Args) > 0 && !strings.HasSuffix(sc.Args[0], ".lock") {
			keys[sc.Args[0]] = true // a session saved under a key of its own
			label = c11CmdLabel(sc, keys)
		}
		i := n
		n++
		r.Cmds = append(r.Cmds, label)
		for _, f := range fail {
			if f == i {
				r.CmdFailed = append(r.CmdFailed, fmt.Sprintf("#%d %s", i, label))
				return c11CmdErrReply
			}
		}
		return ""
	})
}

// c11FlushScripts empties the server's script cache (SCRIPT FLUSH over a connection of its own).
func c11FlushScripts(rd *world.Redis) {
	u := rd.URL()
	network, addr := "tcp", strings.TrimPrefix(u, "redis://")
	if strings.HasPrefix(u, "unix://") {
		network, addr = "unix", strings.TrimPrefix(u, "unix://")
	}
	conn, err := net.DialTimeout(network, addr, 5*time.Second)
	if err != nil {
		panic("c11: cannot reach the store to flush its script cache: " + err.Error())
	}
	defer conn.Close()
	_ = conn.SetDeadline(time.Now().Add(5 * time.Second))
	if _, err := conn.Write([]byte("*2\r\n$6\r\nSCRIPT\r\n$5\r\nFLUSH\r\n")); err != nil {
		panic("c11: SCRIPT FLUSH: " + err.Error())
	}
	buf := make([]byte, 64)
	n, err := conn.Read(buf)
	if err != nil || !strings.HasPrefix(string(buf[:n]), "+OK") {
		panic(fmt.Sprintf("c11: SCRIPT FLUSH answered %q %v", buf[:n], err))
	}
}

// c11CmdFaults enumerates the fault positions: after the faults `prefix` (already executed, with the
// command sequence `cmds` as result) every later position is failed in addition; pairs in thorough.
func c11CmdFaults(c *Ctx, o c11Out, cmds []string, prefix []int, maxFaults int, judge func(o c11Out) *c11Result) {
	start := 0
	if len(prefix) > 0 {
		start = prefix[len(prefix)-1] + 1
	}
	c.SetMax("cmd_fault_max_commands_in_a_sign_out", int64(len(cmds)))
	for i := start; i < len(cmds); i++ {
		if c.Expired() {
			return
		}
		idx := append(append([]int{}, prefix...), i)
		var parts []string
		for _, n := range idx {
			parts = append(parts, strconv.Itoa(n))
		}
		o2 := o
		o2.Fault = "cmd:" + strings.Join(parts, ",")
		r := judge(o2)
		if r == nil {
			continue
		}
		if len(idx) > 1 {
			c.Inc("cmd_fault_pairs")
		}
		if len(idx) < maxFaults && r.FaultDelivered {
			c11CmdFaults(c, o, r.Cmds, idx, maxFaults, judge)
		}
	}
}

func c11CountCmdFault(c *Ctx, cs *c11Case, r *c11Result) {
	c.Inc("cmd_fault_evaluations")
	if !r.FaultDelivered {
		c.Inc("cmd_fault_not_reached")
		return
	}
	c.Inc("cmd_fault_delivered")
	for _, f := range r.CmdFailed {
		if i := strings.Index(f, " "); i >= 0 {
			c.Inc("cmd_fault_on_" + strings.ReplaceAll(f[i+1:], " ", "_"))
		}
	}
	class := r.Class
	if class == "redirect-elsewhere" {
		class = "redirect_elsewhere"
	}
	c.Inc("cmd_fault_answer_" + class)
	success := r.Class == "redirect"
	switch {
	case success && r.KeysAfter == 0 && r.ReplayAuthed == 0:
		c.Inc("cmd_fault_session_removed_and_success")
	case !success && r.KeysAfter > 0:
		c.Inc("cmd_fault_session_left_and_error")
		if r.ReplayAuthed > 0 {
			c.Inc("cmd_fault_replay_served_after_failed_sign_out")
		}
	case !success:
		// the session is gone all the same (e.g. the loader removed it): more than the statement asks
		c.Inc("cmd_fault_session_removed_and_error")
	}
	if r.CmdElsewhere && (r.KeysAfter > 0 || r.ReplayAuthed > 0) {
		c.Inc("ambiguous")
		c.Inc("ambiguous_cmd_fault_redirect_elsewhere_with_session_left")
	}
	if cs.Out.Stale != "" && len(r.Cmds) > 2 {
		c.Inc("cmd_fault_inside_refreshing_sign_out")
	}
}
