//go:build verif

package main

import (
	"fmt"
	"net/http"
	"os"
	"strings"

	"github.com/oauth2-proxy/oauth2-proxy/v7/verifx/explore"
	"github.com/oauth2-proxy/oauth2-proxy/v7/verifx/sched"
	"github.com/oauth2-proxy/oauth2-proxy/v7/verifx/vatomic"
	"github.com/oauth2-proxy/oauth2-proxy/v7/verifx/vrt"
	"github.com/oauth2-proxy/oauth2-proxy/v7/verifx/world"
)

// Generic "two requests in flight" exploration under the wide instrumentation (check.sh): every
// statement of a repository package that touches a field of one of the package's structs through a
// pointer, a map, a package-level variable or a closure-captured variable, every sync / sync.Pool /
// atomic operation and every provider or store call is a scheduling point. All interleavings of two
// real requests with at most `bound` preemptions are executed. Oracle: what each request's client
// (and upstream) sees — rendered by the scenario's view function to the part the property speaks
// about — equals what it sees when the request is served alone on an equally prepared world
// (differential; nothing is expected by hand).

type concScenario struct {
	Name string `json:"name"`
	// prepare builds the world of one execution and returns the handler and the two requests;
	// view renders what the property observes of request i's response (after the execution).
	prepare func() (h http.Handler, reqs [2]*world.Req, view func(i int, r *world.Resp) string, err string)
}

type concReplay struct {
	Stmt     bool   `json:"statement_level_scheduling"`
	Kind     string `json:"kind"`
	Scenario string `json:"scenario"`
	Choices  []int  `json:"choices"`
	Order    string `json:"thread_order"`
	What     string `json:"what"`
}

const concKind = "concurrent-requests-differential"

func concSolo(sc *concScenario) (solo [2]string, err string) {
	for i := 0; i < 2; i++ {
		h, reqs, view, perr := sc.prepare()
		if perr != "" {
			return solo, perr
		}
		r := world.Serve(h, reqs[i])
		if r.Panic != nil {
			return solo, fmt.Sprintf("request %d alone panics: %v", i, r.Panic)
		}
		solo[i] = view(i, r)
	}
	return solo, ""
}

func concBody(sc *concScenario, x *explore.Exec) (*sched.Outcome, [2]string, string) {
	h, reqs, view, perr := sc.prepare()
	if perr != "" {
		return &sched.Outcome{}, [2]string{}, "HARNESS " + perr
	}
	s := sched.New(x, sched.Options{Horizon: 400, MaxSteps: 50000})
	var resps [2]*world.Resp
	for i := 0; i < 2; i++ {
		i := i
		s.Go(fmt.Sprintf("req%d", i), func() { resps[i] = world.Serve(h, reqs[i]) })
	}
	out := s.Run()
	if out.Aborted != "" {
		return out, [2]string{}, concAbortText(out)
	}
	var v [2]string
	for i := 0; i < 2; i++ {
		if resps[i] == nil {
			return out, v, fmt.Sprintf("no-response for request %d", i)
		}
		if resps[i].Panic != nil {
			return out, v, fmt.Sprintf("panic in request %d: %v at %s", i, resps[i].Panic, resps[i].PanicSite())
		}
		v[i] = view(i, resps[i])
	}
	return out, v, ""
}

func concDiffMsg(sc *concScenario, v, solo [2]string) string {
	for i := 0; i < 2; i++ {
		if v[i] != solo[i] {
			return fmt.Sprintf("%s: request %d served while request %d was in flight: %s\n  served alone: %s", sc.Name, i, 1-i, clipMid(v[i], 700), clipMid(solo[i], 700))
		}
	}
	return ""
}

// concStatementLevelOK runs the default execution several times with statement-level scheduling and
// compares the label traces: code whose control flow depends on map iteration order (a loop over a
// map that returns at the first match) takes different statement paths for identical inputs, which
// a replay-based explorer cannot follow. Such a scenario is explored with the access-based
// scheduling points only (they did not move). run(x) executes the scenario's body once.
func concStatementLevelOK(run func(x *explore.Exec)) bool {
	var first string
	for i := 0; i < 40; i++ {
		var b strings.Builder
		sched.TraceLabels = func(th, l string) { b.WriteString(th); b.WriteByte(':'); b.WriteString(l); b.WriteByte(' ') }
		run(explore.Replay(nil, nil))
		sched.TraceLabels = nil
		if i == 0 {
			first = b.String()
		} else if b.String() != first {
			return false
		}
	}
	return true
}

// concPasses: the thorough tier explores statement-level scheduling up to preemption bound 1 and
// access-based scheduling points up to the full bound (statement level at bound 2 costs hours); the
// quick tier (bound 1) has a single pass.
type concPass struct {
	bound int
	stmt  bool
}

func concPasses(bound int, statementLevel bool) []concPass {
	if !statementLevel {
		return []concPass{{bound, false}}
	}
	if bound <= 1 {
		return []concPass{{bound, true}}
	}
	return []concPass{{1, true}, {bound, false}}
}

// concAbortText renders an aborted execution; one given up by the scheduler's watchdog (a thread blocked
// outside the scheduler on a primitive of a dependency) is marked INCONCLUSIVE: it says nothing about
// the code under test and is never a violation.
func concAbortText(out *sched.Outcome) string {
	if out.Aborted == sched.StuckAborted {
		return "INCONCLUSIVE " + out.Aborted + fmt.Sprintf(" (blocked: %v)", out.Blocked)
	}
	return out.Aborted + fmt.Sprintf(" (blocked: %v)", out.Blocked)
}

// schedStuck: once a thread has blocked outside the scheduler, scheduler explorations in this process end.
func schedStuck() bool { return sched.Stuck.Load() > 0 }

// concInconclusive handles such an execution: counted, noted, the run is not exhaustive.
func concInconclusive(c *Ctx, berr string) bool {
	if !strings.HasPrefix(berr, "INCONCLUSIVE") {
		return false
	}
	c.Inc("executions_given_up_thread_blocked_outside_the_scheduler")
	c.Unstable("%s", berr)
	return true
}

// concExplore runs the scenarios; violations are keyed <id>/concurrent/<key>.
func concExplore(c *Ctx, id string, scs []*concScenario, boundQuick, boundThorough int, everyStatementOf ...string) {
	if os.Getenv("VERIF_WIDE") != "1" {
		c.Info["concurrent_part"] = "skipped: the wide instrumentation did not build on this tree (see check.sh)"
		c.Note("concurrent part skipped: no wide instrumentation")
		c.Exhaustive = false
		return
	}
	hooks := vatomic.Hooks
	vatomic.Hooks = false
	vrt.Enabled = true
	// packages closest to the property are scheduled at every statement (a shared object reached through
	// a local variable has no recorded access to park on), the rest of the handler where shared data is touched
	vrt.AllStatements = map[string]bool{}
	for _, p := range everyStatementOf {
		vrt.AllStatements[p] = true
	}
	defer func() { vrt.Enabled = false; vatomic.Hooks = hooks; vrt.AllStatements = nil }()
	bound := boundQuick
	if !c.Quick() {
		bound = boundThorough
	}
	c.Info["concurrent_part"] = map[string]any{"scenarios": len(scs), "preemption_bound": bound, "instrumentation": "wide", "every_statement_of": everyStatementOf}
	for si, sc := range scs {
		if c.Expired() {
			return
		}
		sc := sc
		solo, serr := concSolo(sc)
		if serr != "" {
			c.Error("%s concurrent %s: %s", id, sc.Name, serr)
			continue
		}
		c.Inc("conc_scenarios_with_reference")
		every := vrt.AllStatements
		if len(every) > 0 && !concStatementLevelOK(func(x *explore.Exec) { concBody(sc, x) }) {
			vrt.AllStatements = nil
			c.Inc("conc_scenarios_without_statement_level_scheduling")
			if c.Shard == 0 {
				c.Note("concurrent scenario %s: statement paths differ between identical executions (map iteration order?): explored with access-based scheduling points only", sc.Name)
			}
		}
		if solo[0] == solo[1] {
			// the two requests look alike when served alone: an interference between them could not be seen
			c.Inc("conc_scenarios_whose_requests_look_alike_alone")
			if c.Shard == 0 {
				c.Note("concurrent scenario %s: both requests have the same view when served alone: %s", sc.Name, clipMid(solo[0], 200))
			}
		}
		for _, pass := range concPasses(bound, len(vrt.AllStatements) > 0) {
			if !pass.stmt {
				vrt.AllStatements = nil
			}
			stats := explore.Run(explore.Config{Stop: schedStuck, MaxCost: pass.bound, Deadline: c.Deadline, Shard: c.Shard, Shards: c.Shards, ShardDepth: 2, TolerateDivergence: true, MaxDivergences: 16}, func(x *explore.Exec, own bool) {
				out, v, berr := concBody(sc, x)
				if !own {
					return
				}
				if concInconclusive(c, berr) {
					return
				}
				if strings.HasPrefix(berr, "HARNESS") {
					c.Error("%s concurrent %s: %s", id, sc.Name, berr)
					return
				}
				c.Inc("evaluations")
				c.Inc("conc_executions")
				c.Inc("traces_validated_against_impl")
				c.Add("transitions", int64(out.Steps))
				c.SetMax("conc_max_steps_per_execution", int64(out.Steps))
				order := sched.DescribeOrder(out.Order)
				c.Distinct("distinct_nontrivial", fmt.Sprintf("conc|%d|%s", si, order))
				for _, r := range out.Races {
					if c.Distinct("conc_distinct_unsynchronised_conflicts", r.Key()) {
						c.Note("unsynchronised conflicting accesses (counted, not the deciding oracle): %s", r.Key())
					}
				}
				rp := concReplay{Kind: concKind, Stmt: len(vrt.AllStatements) > 0, Scenario: sc.Name, Choices: x.Choices(), Order: order}
				key, what := "", ""
				if berr != "" {
					key, what = id+"/concurrent/"+strings.Fields(berr)[0], sc.Name+": "+berr
				} else if d := concDiffMsg(sc, v, solo); d != "" {
					key, what = id+"/concurrent/answer-differs-from-serving-alone", d
				}
				if key == "" {
					return
				}
				rp.What = what
				c.confirm(key, fmt.Sprintf("%s [thread order %s]", what, order), len(rp.Choices), rp, func() (string, bool) {
					_, v2, e2 := concBody(sc, explore.Replay(rp.Choices, nil))
					if e2 != "" {
						return id + "/concurrent/" + strings.Fields(e2)[0], true
					}
					return id + "/concurrent/answer-differs-from-serving-alone", concDiffMsg(sc, v2, solo) != ""
				})
			})
			c.Add("states", int64(stats.Executions))
			vrt.AllStatements = every
			if stats.Divergences > 0 {
				c.Unstable("concurrent scenario %s: %d executions did not reproduce their replayed prefix", sc.Name, stats.Divergences)
			}
			if !stats.Exhaustive {
				c.Exhaustive = false
				c.Note("concurrent part %s: not exhaustive (level completed %d, divergences %d)", sc.Name, stats.LevelCompleted, stats.Divergences)
			}
		}
	}
}

// concReplayOne re-executes a recorded schedule of one of the scenarios.
func concReplayOne(c *Ctx, id string, scs []*concScenario, rp concReplay, everyStatementOf ...string) string {
	if os.Getenv("VERIF_WIDE") != "1" {
		return "the wide instrumentation did not build: the schedule cannot be replayed"
	}
	vatomic.Hooks = false
	vrt.Enabled = true
	vrt.AllStatements = map[string]bool{}
	for _, p := range everyStatementOf {
		vrt.AllStatements[p] = true
	}
	if !rp.Stmt {
		vrt.AllStatements = nil
	}
	defer func() { vrt.Enabled = false; vrt.AllStatements = nil }()
	for _, sc := range scs {
		if sc.Name != rp.Scenario {
			continue
		}
		solo, serr := concSolo(sc)
		if serr != "" {
			return serr
		}
		if os.Getenv("VERIF_CONC_TRACE") != "" {
			for round := 0; round < 3; round++ {
				if round == 2 {
					for i := 0; i < 40; i++ {
						concBody(sc, explore.Replay(nil, nil))
					}
				}
				var tr []string
				sched.TraceLabels = func(th, l string) { tr = append(tr, th+":"+l) }
				concBody(sc, explore.Replay(rp.Choices, nil))
				sched.TraceLabels = nil
				fmt.Fprintf(os.Stderr, "TRACE round %d (%d steps): %s\n", round, len(tr), strings.Join(tr, " "))
			}
		}
		out, v, berr := concBody(sc, explore.Replay(rp.Choices, nil))
		if berr != "" {
			c.Violate(id+"/concurrent/"+strings.Fields(berr)[0], berr, 1, rp)
		} else if d := concDiffMsg(sc, v, solo); d != "" {
			c.Violate(id+"/concurrent/answer-differs-from-serving-alone", d, 1, rp)
		}
		return fmt.Sprintf("order %s answers %q; alone %q", sched.DescribeOrder(out.Order), v, solo)
	}
	return "unknown scenario " + rp.Scenario
}
