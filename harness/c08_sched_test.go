//go:build verif

package main

import (
	"fmt"
	"net/http"
	"net/http/httptest"

	sessionsapi "github.com/oauth2-proxy/oauth2-proxy/v7/pkg/apis/sessions"
	"github.com/oauth2-proxy/oauth2-proxy/v7/verifx/world"
)

// C08 with two requests in flight: the rules are applied to THIS request's session and THIS
// request's query constraints, also while a request of somebody who passes them is being answered
// (a scratch value shared between requests in the constraint check, a memo of the last verdict).
// Pairs of an insider and an outsider on the auth-only endpoint with allowed_email_domains /
// allowed_groups / allowed_emails, and on a protected path under a global e-mail-domain rule.
// Exploration and oracle: conc_util_test.go (differential against serving alone).

func c08ConcScenarios(up *world.Upstream) []*concScenario {
	type world08 struct {
		open, domain *Proxy
		cookie       map[string]string
	}
	var w *world08
	get := func() (*world08, string) {
		if w != nil {
			return w, ""
		}
		world.NewIdP()
		base := append(baseFlags(up.URL()), "--cookie-secure=false", "--cookie-refresh=0", "--set-xauthrequest=true")
		open, err := buildProxy(&ProxyCfg{Flags: append(append([]string{}, base...), "--email-domain=*")})
		if err != nil {
			return nil, err.Error()
		}
		dom, err := buildProxy(&ProxyCfg{Flags: append(append([]string{}, base...), "--email-domain=example.com")})
		if err != nil {
			return nil, err.Error()
		}
		x := &world08{open: open, domain: dom, cookie: map[string]string{}}
		for name, s := range map[string]*sessionsapi.SessionState{
			"alice":   {User: "alice-sub", Email: "alice@example.com", Groups: []string{"staff", "admins"}, AccessToken: "at-alice"},
			"mallory": {User: "mallory-sub", Email: "mallory@elsewhere.example.org", Groups: []string{"guests"}, AccessToken: "at-mallory"},
			"nogrp":   {User: "nogrp-sub", Email: "nogrp@example.com", AccessToken: "at-nogrp"},
		} {
			s.CreatedAtNow()
			rec := httptest.NewRecorder()
			req := httptest.NewRequest("GET", "http://app.example.com/", nil)
			if err := verifSessionStore(open.P).Save(rec, req, s); err != nil {
				return nil, err.Error()
			}
			jar := world.NewJar()
			jar.SetCookies("http", "app.example.com", "/", rec.Header())
			x.cookie[name] = jar.Header("http", "app.example.com", "/")
		}
		w = x
		return w, ""
	}
	var log []*world.UpReq
	view := func(i int, r *world.Resp) string {
		var cleared []string
		for _, ck := range r.Cookies() {
			if ck.MaxAge < 0 {
				cleared = append(cleared, ck.Name)
			}
		}
		log = append(log, up.Take()...)
		seen := "not-forwarded"
		for _, u := range log {
			if u.Header.Get("X-Req") == fmt.Sprint(i) {
				seen = fmt.Sprintf("upstream(email=%s)", u.Header.Get("X-Forwarded-Email"))
			}
		}
		return fmt.Sprintf("status=%d x-auth-request-email=%q cleared=%v %s", r.Status, r.Header.Get("X-Auth-Request-Email"), cleared, seen)
	}
	req := func(i int, who, target string, x *world08) *world.Req {
		return &world.Req{Method: "GET", Target: target, Host: "app.example.com", Headers: [][2]string{{"Cookie", x.cookie[who]}, {"X-Req", fmt.Sprint(i)}}}
	}
	mk := func(name string, px func(x *world08) *Proxy, whoA, targetA, whoB, targetB string) *concScenario {
		return &concScenario{Name: name, prepare: func() (http.Handler, [2]*world.Req, func(int, *world.Resp) string, string) {
			x, err := get()
			if err != "" {
				return nil, [2]*world.Req{}, nil, err
			}
			up.Take()
			log = nil
			return px(x).H, [2]*world.Req{req(0, whoA, targetA, x), req(1, whoB, targetB, x)}, view, ""
		}}
	}
	open := func(x *world08) *Proxy { return x.open }
	dom := func(x *world08) *Proxy { return x.domain }
	scs := []*concScenario{
		mk("auth-only allowed_email_domains: insider | outsider", open, "alice", "/oauth2/auth?allowed_email_domains=example.com", "mallory", "/oauth2/auth?allowed_email_domains=example.com"),
		mk("auth-only allowed_email_domains: wildcard insider | outsider", open, "alice", "/oauth2/auth?allowed_email_domains=*.com,example.com", "mallory", "/oauth2/auth?allowed_email_domains=example.com,other.example"),
		mk("auth-only allowed_groups: member | non-member", open, "alice", "/oauth2/auth?allowed_groups=admins", "mallory", "/oauth2/auth?allowed_groups=admins"),
		mk("auth-only allowed_groups: member | no groups at all", open, "alice", "/oauth2/auth?allowed_groups=staff,ops", "nogrp", "/oauth2/auth?allowed_groups=staff,ops"),
		mk("auth-only allowed_emails: listed | not listed", open, "alice", "/oauth2/auth?allowed_emails=alice@example.com", "nogrp", "/oauth2/auth?allowed_emails=alice@example.com"),
		mk("auth-only different constraints: groups ok | domain not ok", open, "alice", "/oauth2/auth?allowed_groups=admins", "alice", "/oauth2/auth?allowed_email_domains=elsewhere.example.org"),
		mk("auth-only constrained outsider | unconstrained insider", open, "mallory", "/oauth2/auth?allowed_email_domains=example.com&allowed_groups=guests", "alice", "/oauth2/auth"),
		mk("global e-mail domain, auth-only: insider | outsider", dom, "alice", "/oauth2/auth", "mallory", "/oauth2/auth"),
		mk("global e-mail domain, protected path: insider | outsider", dom, "alice", "/app", "mallory", "/app"),
	}
	return scs
}
