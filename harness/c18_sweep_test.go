//go:build verif

package main

import (
	"fmt"
	"net/http/httptest"
	"strings"

	"github.com/oauth2-proxy/oauth2-proxy/v7/pkg/apis/sessions"
	"github.com/oauth2-proxy/oauth2-proxy/v7/verifx/world"
)

// C18 size clause, swept: "every Set-Cookie ... serialises to at most 4096 bytes". The flows of
// the main product use a small and a far-oversized session; the dangerous sizes are the ones
// just below the split decision, where the value alone is still small enough but name and
// attributes push the line over the limit. For every cookie-name length x attribute weight the
// session size is swept byte by byte (step 1 around where the number of emitted cookies changes,
// step 7 elsewhere) through the real cookie store's Save; every emitted line is measured.
func c18SizeSweep(c *Ctx, up *world.Upstream) {
	type cfg struct {
		nameLen int
		flags   []string
		host    string
	}
	cfgs := []cfg{
		{13, nil, "app.example.com"},
		{100, []string{"--cookie-samesite=strict", "--cookie-domain=.example.com"}, "app.example.com"},
		{256, []string{"--cookie-samesite=strict", "--cookie-domain=deep.sub.domain.app.example.com", "--cookie-path=/some/long/path/prefix/for/the/application", "--proxy-prefix=/some/long/path/prefix/for/the/application/oauth2"}, "deep.sub.domain.app.example.com"},
		{254, []string{"--cookie-samesite=none", "--cookie-httponly=true"}, "app.example.com"},
	}
	for ci, k := range cfgs {
		if !c.Mine(ci) {
			continue
		}
		px, err := buildProxy(&ProxyCfg{Flags: append(append(baseFlags(up.URL()), "--email-domain=*", "--cookie-secure=true", "--cookie-name="+c18Name(k.nameLen)), k.flags...)})
		if err != nil {
			c.Error("C18 sweep: configuration %d rejected: %v", ci, err)
			continue
		}
		save := func(n int) (lines []string) {
			sess := &sessions.SessionState{Email: "sweep@example.com", User: "sweep", AccessToken: c02Incompressible(n, int64(ci))}
			rec := httptest.NewRecorder()
			req, _ := (&world.Req{Method: "GET", Target: "/", Host: k.host, HTTPS: true}).Parse()
			if err := verifSessionStore(px.P).Save(rec, req, sess); err != nil {
				c.Error("C18 sweep: save: %v", err)
				return nil
			}
			return rec.Header().Values("Set-Cookie")
		}
		prevCount := 0
		for n := 1500; n <= 6500; {
			lines := save(n)
			c.Inc("evaluations")
			c.Inc("size_sweep_saves")
			c.Distinct("distinct_nontrivial", fmt.Sprintf("sweep|%d|%d", ci, n))
			max := 0
			for _, l := range lines {
				if len("Set-Cookie: ")+len(l) > max {
					max = len(l)
				}
				if len(l) > 4096 {
					name := l
					if i := strings.Index(l, "="); i > 0 {
						name = l[:i]
					}
					c.Violate("C18/set-cookie-over-4096", fmt.Sprintf("cookie name length %d, attributes %v: a session with a %d-byte access token is saved as %d cookie(s), one Set-Cookie line of %d bytes (cookie %s...)", k.nameLen, k.flags, n, len(lines), len(l), c18Short(name)),
						len(l), map[string]any{"kind": "size-sweep", "name_len": k.nameLen, "flags": k.flags, "access_token_len": n, "cookies": len(lines), "line_len": len(l)})
				}
			}
			c.SetMax("size_sweep_largest_set_cookie", int64(max))
			step := 7
			if len(lines) != prevCount && prevCount != 0 {
				// the layout changed somewhere in the last step: go back and walk it byte by byte
				for m := n - 6; m < n; m++ {
					for _, l := range save(m) {
						c.Inc("size_sweep_saves")
						if len(l) > 4096 {
							c.Violate("C18/set-cookie-over-4096", fmt.Sprintf("cookie name length %d: access token %d bytes -> Set-Cookie line of %d bytes", k.nameLen, m, len(l)), len(l),
								map[string]any{"kind": "size-sweep", "name_len": k.nameLen, "flags": k.flags, "access_token_len": m, "line_len": len(l)})
						}
					}
				}
			}
			// near the limit walk byte by byte
			if max > 3800 {
				step = 1
			}
			prevCount = len(lines)
			n += step
		}
	}
}
