//go:build verif

package main

import (
	"bytes"
	"encoding/base64"
	"encoding/json"
	"errors"
	"fmt"
	"io"
	"net"
	"net/http"
	"net/url"
	"os"
	"path/filepath"
	"runtime/debug"
	"sort"
	"strings"
	"sync"
	"syscall"
	"time"

	"github.com/oauth2-proxy/oauth2-proxy/v7/pkg/apis/options"
	"github.com/oauth2-proxy/oauth2-proxy/v7/pkg/logger"
	"github.com/oauth2-proxy/oauth2-proxy/v7/pkg/requests"
	"github.com/oauth2-proxy/oauth2-proxy/v7/verifx/world"
)

// C19, part "peer": requests whose handling calls OUT (identity provider: token, key set, profile,
// validation, backend logout, vendor APIs; session store) and meets a peer that fails. Enumerated:
// configuration (every option that makes request handling call out, every provider family that can
// be pointed at the world) x scenario (session source x endpoint) x position of the call inside the
// request x answer kind (every transport-level failure, every error status, every 200 body shape,
// every JSON path of the well-formed answer with every other JSON type, every claim of the ID token
// with every other JSON type) — single deviations, "from this call on every call" deviations, and
// (thorough) pairs. Oracle: no panic escapes ServeHTTP, a status line was produced.

// ---------------------------------------------------------------------------------------------
// answer kinds

type c19Kind struct {
	Name   string
	Family string
	// NeedsHealthy: the kind is derived from the well-formed answer of this very call
	Respond func(req *http.Request, healthy func() *http.Response) (*http.Response, error)
}

type c19TimeoutErr struct{}

func (c19TimeoutErr) Error() string   { return "dial tcp 192.0.2.10:443: i/o timeout" }
func (c19TimeoutErr) Timeout() bool   { return true }
func (c19TimeoutErr) Temporary() bool { return true }

type c19BreakingBody struct {
	r    io.Reader
	done bool
}

func (b *c19BreakingBody) Read(p []byte) (int, error) {
	n, err := b.r.Read(p)
	if err == io.EOF {
		return n, io.ErrUnexpectedEOF
	}
	return n, err
}
func (b *c19BreakingBody) Close() error { return nil }

func c19ReadBody(h *http.Response) []byte {
	if h == nil || h.Body == nil {
		return nil
	}
	b, _ := io.ReadAll(h.Body)
	h.Body.Close()
	return b
}

var c19GenericOnce sync.Once
var c19Generic []c19Kind

// c19GenericKinds: answers that do not depend on what the call was.
func c19GenericKinds() []c19Kind {
	c19GenericOnce.Do(func() {
		terr := func(name string, err error, served bool) c19Kind {
			return c19Kind{Name: name, Family: "transport", Respond: func(req *http.Request, healthy func() *http.Response) (*http.Response, error) {
				if served {
					c19ReadBody(healthy()) // the peer acted on the request, the answer got lost
				}
				return nil, err
			}}
		}
		raw := func(name, family string, status int, ctype, body string, hdr ...string) c19Kind {
			return c19Kind{Name: name, Family: family, Respond: func(req *http.Request, _ func() *http.Response) (*http.Response, error) {
				r := world.RawResponse(req, status, ctype, []byte(body))
				for i := 0; i+1 < len(hdr); i += 2 {
					r.Header.Set(hdr[i], hdr[i+1])
				}
				return r, nil
			}}
		}
		c19Generic = []c19Kind{
			terr("refused", &net.OpError{Op: "dial", Net: "tcp", Err: syscall.ECONNREFUSED}, false),
			terr("reset", &net.OpError{Op: "read", Net: "tcp", Err: syscall.ECONNRESET}, true),
			terr("timeout", c19TimeoutErr{}, false),
			terr("eof", io.EOF, true),
			terr("no-such-host", &net.DNSError{Err: "no such host", Name: "idp.example", IsNotFound: true}, false),
			raw("500-json", "status", 500, "application/json", `{"error":"server_error"}`),
			raw("502-empty", "status", 502, "text/html", ""),
			raw("503-html", "status", 503, "text/html", "<html><body><h1>503 Service Unavailable</h1></body></html>"),
			raw("400-oauth-error", "status", 400, "application/json", `{"error":"invalid_grant","error_description":"injected"}`),
			raw("401-empty", "status", 401, "text/plain", "", "WWW-Authenticate", `Bearer error="invalid_token"`),
			raw("403-json", "status", 403, "application/json", `{"message":"forbidden"}`),
			raw("404-html", "status", 404, "text/html", "<html>not found</html>"),
			raw("429-empty", "status", 429, "text/plain", "", "Retry-After", "never"),
			raw("204-empty", "status", 204, "", ""),
			raw("302-no-location", "status", 302, "text/plain", ""),
			raw("200-empty", "body", 200, "application/json", ""),
			raw("200-null", "body", 200, "application/json", "null"),
			raw("200-object", "body", 200, "application/json", "{}"),
			raw("200-array", "body", 200, "application/json", "[]"),
			raw("200-array-of-object", "body", 200, "application/json", "[{}]"),
			raw("200-array-of-null", "body", 200, "application/json", "[null]"),
			raw("200-string", "body", 200, "application/json", `"alice@example.com"`),
			raw("200-number", "body", 200, "application/json", "42"),
			raw("200-html", "body", 200, "text/html; charset=utf-8", "<html><body>please sign in</body></html>"),
			raw("200-form", "body", 200, "application/x-www-form-urlencoded", "access_token=&token_type=bearer&%zz"),
			raw("200-no-content-type", "body", 200, "", "{"),
			{Name: "200-truncated", Family: "body", Respond: func(req *http.Request, healthy func() *http.Response) (*http.Response, error) {
				h := healthy()
				b := c19ReadBody(h)
				return world.RawResponse(req, h.StatusCode, h.Header.Get("Content-Type"), b[:len(b)/2]), nil
			}},
			{Name: "200-body-breaks-off", Family: "transport", Respond: func(req *http.Request, healthy func() *http.Response) (*http.Response, error) {
				h := healthy()
				b := c19ReadBody(h)
				r := world.RawResponse(req, h.StatusCode, h.Header.Get("Content-Type"), nil)
				r.Body = &c19BreakingBody{r: bytes.NewReader(b[:len(b)/2])}
				r.ContentLength = int64(len(b))
				return r, nil
			}},
		}
	})
	return c19Generic
}

// c19Mutants: the values another JSON type offers for one place of a document.
var c19Mutants = []struct {
	Name string
	Val  any
	Del  bool
	// Only: offered only where the well-formed value has this JSON type ("" = everywhere)
	Only string
}{
	{Name: "absent", Del: true}, {Name: "null", Val: nil}, {Name: "number", Val: 42}, {Name: "negative", Val: -1, Only: "number"},
	{Name: "string", Val: "x"}, {Name: "empty-string", Val: "", Only: "string"}, {Name: "object", Val: map[string]any{}},
	{Name: "array", Val: []any{}}, {Name: "array-of-null", Val: []any{nil}, Only: "array"}, {Name: "bool", Val: true},
}

func c19JSONType(v any) string {
	switch v.(type) {
	case map[string]any:
		return "object"
	case []any:
		return "array"
	case string:
		return "string"
	case json.Number, float64, int, int64:
		return "number"
	case bool:
		return "bool"
	}
	return "null"
}

// c19MutantsAt: the mutants on offer for a place holding v (never the type it already has, except
// the type-specific edge values).
func c19MutantsAt(v any) []string {
	t := c19JSONType(v)
	var out []string
	for _, m := range c19Mutants {
		if m.Only != "" && m.Only != t {
			continue
		}
		if m.Only == "" && !m.Del && m.Name == t {
			continue
		}
		out = append(out, m.Name)
	}
	return out
}

// c19Places lists (path, value) of a JSON document down to `depth`.
func c19Places(v any, depth int) (paths []string, vals []any) {
	var walk func(v any, prefix string, depth int)
	walk = func(v any, prefix string, depth int) {
		if depth == 0 {
			return
		}
		switch t := v.(type) {
		case map[string]any:
			keys := make([]string, 0, len(t))
			for k := range t {
				keys = append(keys, k)
			}
			sort.Strings(keys)
			for _, k := range keys {
				paths, vals = append(paths, prefix+"/"+k), append(vals, t[k])
				walk(t[k], prefix+"/"+k, depth-1)
			}
		case []any:
			if len(t) > 0 {
				paths, vals = append(paths, prefix+"/0"), append(vals, t[0])
				walk(t[0], prefix+"/0", depth-1)
			}
		}
	}
	walk(v, "", depth)
	return
}

// c19SetPath returns doc with the place `path` replaced (or removed).
func c19SetPath(doc any, path []string, val any, del bool) any {
	if len(path) == 0 {
		return val
	}
	switch t := doc.(type) {
	case map[string]any:
		n := map[string]any{}
		for k, v := range t {
			n[k] = v
		}
		if len(path) == 1 && del {
			delete(n, path[0])
		} else {
			n[path[0]] = c19SetPath(t[path[0]], path[1:], val, del)
		}
		return n
	case []any:
		if len(t) == 0 {
			return t
		}
		n := append([]any{}, t...)
		if len(path) == 1 && del {
			return n[1:]
		}
		n[0] = c19SetPath(t[0], path[1:], val, del)
		return n
	}
	return doc
}

func c19DecodeJSON(b []byte) (any, bool) {
	dec := json.NewDecoder(bytes.NewReader(b))
	dec.UseNumber()
	var v any
	if err := dec.Decode(&v); err != nil {
		return nil, false
	}
	return v, true
}

// c19IDTokenClaims decodes the payload of the id_token member of a token answer.
func c19IDTokenClaims(doc any) (map[string]any, bool) { return c19TokenClaims(doc, "id_token") }

func c19TokenClaims(doc any, member string) (map[string]any, bool) {
	m, ok := doc.(map[string]any)
	if !ok {
		return nil, false
	}
	tok, _ := m[member].(string)
	parts := strings.Split(tok, ".")
	if len(parts) != 3 {
		return nil, false
	}
	raw, err := base64.RawURLEncoding.DecodeString(parts[1])
	if err != nil {
		return nil, false
	}
	v, ok := c19DecodeJSON(raw)
	if !ok {
		return nil, false
	}
	cl, ok := v.(map[string]any)
	return cl, ok
}

var c19BadTokens = []struct{ Name, Tok string }{
	{"one-part", "abc"}, {"two-parts", "e30.e30"}, {"four-parts", "e30.e30.e30.e30"}, {"only-dots", ".."},
	{"payload-not-base64", "eyJhbGciOiJSUzI1NiJ9.@@@.c2ln"}, {"payload-not-json", "eyJhbGciOiJSUzI1NiJ9.bm90IGpzb24.c2ln"},
	{"payload-array", "eyJhbGciOiJSUzI1NiJ9.WzEsMl0.c2ln"}, {"payload-null", "eyJhbGciOiJSUzI1NiJ9.bnVsbA.c2ln"},
	{"header-not-json", "bm90IGpzb24.e30.c2ln"}, {"alg-none", "eyJhbGciOiJub25lIn0.e30."},
}

// c19DerivedKinds: the deviations derived from the well-formed answer `body` of one call.
func c19DerivedKinds(body []byte) []string {
	doc, ok := c19DecodeJSON(body)
	if !ok {
		return nil
	}
	var out []string
	add := func(family string, v any, depth int) {
		paths, vals := c19Places(v, depth)
		for i, p := range paths {
			for _, m := range c19MutantsAt(vals[i]) {
				out = append(out, family+":"+p+"="+m)
			}
		}
	}
	add("json", doc, 3)
	if claims, ok := c19IDTokenClaims(doc); ok {
		add("claim", claims, 2)
		for _, b := range c19BadTokens {
			out = append(out, "idtoken:"+b.Name)
		}
	}
	if claims, ok := c19TokenClaims(doc, "access_token"); ok {
		add("atclaim", claims, 3)
	}
	return out
}

func c19Mutant(name string) (any, bool, bool) {
	for _, m := range c19Mutants {
		if m.Name == name {
			return m.Val, m.Del, true
		}
	}
	return nil, false, false
}

// c19ApplyDerived builds the deviating body for a derived kind name; ok=false if the kind does
// not apply to this body.
func c19ApplyDerived(kind string, body []byte) ([]byte, bool) {
	doc, ok := c19DecodeJSON(body)
	if !ok {
		return nil, false
	}
	enc := func(v any) ([]byte, bool) {
		b, err := json.Marshal(v)
		return b, err == nil
	}
	switch {
	case strings.HasPrefix(kind, "json:"):
		i := strings.LastIndex(kind, "=")
		val, del, ok := c19Mutant(kind[i+1:])
		if !ok {
			return nil, false
		}
		path := strings.Split(strings.TrimPrefix(kind[5:i], "/"), "/")
		return enc(c19SetPath(doc, path, val, del))
	case strings.HasPrefix(kind, "claim:"), strings.HasPrefix(kind, "atclaim:"):
		member, skip := "id_token", 6
		if strings.HasPrefix(kind, "atclaim:") {
			member, skip = "access_token", 8
		}
		claims, ok := c19TokenClaims(doc, member)
		if !ok {
			return nil, false
		}
		i := strings.LastIndex(kind, "=")
		val, del, ok := c19Mutant(kind[i+1:])
		if !ok {
			return nil, false
		}
		path := strings.Split(strings.TrimPrefix(kind[skip:i], "/"), "/")
		nc, _ := c19SetPath(claims, path, val, del).(map[string]any)
		m := doc.(map[string]any)
		return enc(c19SetPath(m, []string{member}, world.SignJWT(nc, "main"), false))
	case strings.HasPrefix(kind, "idtoken:"):
		if _, ok := c19IDTokenClaims(doc); !ok {
			return nil, false
		}
		for _, b := range c19BadTokens {
			if "idtoken:"+b.Name == kind {
				return enc(c19SetPath(doc, []string{"id_token"}, b.Tok, false))
			}
		}
	}
	return nil, false
}

func c19KindFamily(kind string) string {
	for _, k := range c19GenericKinds() {
		if k.Name == kind {
			return k.Family
		}
	}
	if i := strings.Index(kind, ":"); i > 0 {
		return kind[:i]
	}
	for _, k := range c19StoreKinds {
		if k == kind {
			return "store"
		}
	}
	return "other"
}

// store answers (session store as the failing peer)
var c19StoreKinds = []string{"err-before", "err-after", "missing", "value-empty", "value-truncated", "value-garbage", "value-one-byte-off"}

func c19StoreFault(kind, op string) *world.StoreFault {
	f := &world.StoreFault{Kind: kind}
	switch kind {
	case "err-before":
		f.BeforeErr = errors.New("connection refused")
	case "err-after":
		if op == "PEEK" {
			return nil
		}
		f.AfterErr = errors.New("read tcp: connection reset by peer")
	case "missing":
		if op != "GET" {
			return nil
		}
		f.Missing = true
	default:
		if op != "GET" {
			return nil
		}
		f.Mutate = func(v []byte) []byte {
			switch kind {
			case "value-empty":
				return []byte{}
			case "value-truncated":
				return append([]byte{}, v[:len(v)/2]...)
			case "value-garbage":
				return bytes.Repeat([]byte{0xff, 0x00, '{'}, 40)
			}
			n := append([]byte{}, v...)
			if len(n) > 0 {
				n[len(n)/2] ^= 1
			}
			return n
		}
	}
	return f
}

// ---------------------------------------------------------------------------------------------
// the world of vendor APIs: what the documented endpoints answer for alice

var c19VendorAPI = map[string]string{
	"/":                            `{"current_user_url":"https://api.github.com/user","emails_url":"https://api.github.com/user/emails"}`,
	"/user/emails":                 `[{"email":"alice@example.com","primary":true,"verified":true,"visibility":"public"}]`,
	"/user":                        `{"login":"alice","id":1,"email":"alice@example.com","name":"Alice"}`,
	"/user/orgs":                   `[{"login":"acme","id":2}]`,
	"/user/teams":                  `[{"name":"staff","slug":"staff","organization":{"login":"acme"}}]`,
	"/2.0/user/emails":             `{"values":[{"email":"alice@example.com","is_primary":true,"is_confirmed":true}]}`,
	"/v2/account":                  `{"account":{"email":"alice@example.com","uuid":"u-1","email_verified":true,"status":"active"}}`,
	"/v2.5/me":                     `{"id":"1","name":"Alice","email":"alice@example.com"}`,
	"/v2/emailAddress":             `{"elements":[{"handle":"urn:li:emailAddress:1","handle~":{"emailAddress":"alice@example.com"}}]}`,
	"/v2/me":                       `{"id":"abc","localizedFirstName":"Alice"}`,
	"/oauth2/v1/tokeninfo":         `{"email":"alice@example.com","expires_in":3000,"audience":"proxy-client"}`,
	"/v1.0/me":                     `{"id":"1","mail":"alice@example.com","userPrincipalName":"alice@example.com","displayName":"Alice"}`,
	"/v1.0/me/transitiveMemberOf":  `{"value":[{"id":"g-1","displayName":"staff"}]}`,
	"/api/v3/user":                 `{"email":"alice@example.com","preferred_username":"alice","groups":["staff"]}`,
	"/oauth/userinfo":              `{"sub":"alice-sub","email":"alice@example.com","email_verified":true,"groups":["staff"],"nickname":"alice"}`,
	"/ocs/v2.php/cloud/user":       `{"ocs":{"meta":{"status":"ok","statuscode":200},"data":{"id":"alice","email":"alice@example.com","groups":["staff"]}}}`,
	"/api/openid_connect/userinfo": `{"sub":"alice-sub","email":"alice@example.com","email_verified":true}`,
}

// c19AllHosts sends every outgoing call of the proxy (whatever host the provider implementation
// has built in) to the world's provider, which logs it and consults Intercept.
type c19AllHosts struct{ idp *world.IdP }

func (t c19AllHosts) RoundTrip(req *http.Request) (*http.Response, error) {
	h := req.URL.Hostname()
	if h == "127.0.0.1" || h == "localhost" || h == "::1" {
		return http.DefaultTransport.RoundTrip(req)
	}
	return t.idp.RoundTrip(req)
}

// ---------------------------------------------------------------------------------------------
// configurations and scenarios

type c19PeerCfg struct {
	Name    string
	Flags   []string
	Own     bool // Flags are complete (no OIDC base flags)
	Redis   bool
	Refresh bool // cookie-refresh is set: a session older than a minute meets the provider again
	OIDC    bool // the provider verifies ID tokens (bearer scenarios, rotated-key scenarios)
	Claim   string
	// JWTAccess: the provider's access tokens are signed JWTs carrying roles (Keycloak)
	JWTAccess bool
	// StateUnescapedTwice: the provider hands the state back with one more level of escaping removed (AD FS)
	StateUnescapedTwice bool
}

func c19PeerCfgs() []c19PeerCfg {
	logout := "--backend-logout-url=" + world.Issuer + "/logout?id_token_hint={id_token}"
	logoutPlain := "--backend-logout-url=" + world.Issuer + "/logout"
	refresh := []string{"--cookie-refresh=1m", "--cookie-expire=1h"}
	with := func(a []string, more ...string) []string { return append(append([]string{}, a...), more...) }
	own := func(provider string, more ...string) []string {
		return with([]string{"--provider=" + provider, "--client-id=" + world.ClientID, "--client-secret=" + world.ClientSecret,
			"--cookie-secret=" + cookieSecret32, "--http-address=-",
			"--login-url=" + world.Issuer + "/authorize", "--redeem-url=" + world.Issuer + "/token"}, more...)
	}
	out := []c19PeerCfg{
		{Name: "oidc+backend-logout", Flags: []string{logout}, OIDC: true},
		{Name: "oidc+backend-logout/redis", Flags: []string{logoutPlain}, OIDC: true, Redis: true},
		{Name: "oidc+refresh+backend-logout", Flags: with(refresh, logout, "--pass-access-token=true", "--code-challenge-method=S256"), OIDC: true, Refresh: true},
		{Name: "oidc+refresh+backend-logout/redis", Flags: with(refresh, logout), OIDC: true, Refresh: true, Redis: true},
		{Name: "oidc+refresh+timestamp-claims", Flags: with(refresh, logoutPlain), OIDC: true, Refresh: true, Claim: "expires_on"},
		{Name: "oidc+extra-issuer", Flags: []string{"--extra-jwt-issuers=" + world.Issuer2 + "=other-aud", logout}, OIDC: true},
		{Name: "oidc+skip-claims-from-profile", Flags: with(refresh, "--skip-claims-from-profile-url=true", "--oidc-groups-claim=roles", "--insecure-oidc-allow-unverified-email=true"), OIDC: true, Refresh: true},
		{Name: "keycloak(profile+validate)", Own: true, Refresh: true, Flags: own("keycloak", with(refresh, logout,
			"--profile-url="+world.Issuer+"/userinfo", "--validate-url="+world.Issuer+"/validate")...)},
		{Name: "keycloak(profile+validate)/redis", Own: true, Refresh: true, Redis: true, Flags: own("keycloak", with(refresh, logoutPlain,
			"--profile-url="+world.Issuer+"/userinfo", "--validate-url="+world.Issuer+"/validate")...)},
	}
	for _, p := range []string{"keycloak-oidc", "gitlab", "adfs", "azure", "entra-id"} {
		out = append(out, c19PeerCfg{Name: p, Own: true, OIDC: true, Refresh: true, JWTAccess: p == "keycloak-oidc", StateUnescapedTwice: p == "adfs", Flags: with(refresh, "--provider="+p, "--oidc-issuer-url="+world.Issuer,
			"--client-id="+world.ClientID, "--client-secret="+world.ClientSecret, "--cookie-secret="+cookieSecret32, "--http-address=-", logout)})
	}
	out = append(out,
		c19PeerCfg{Name: "github", Own: true, Refresh: true, Flags: own("github", with(refresh, logoutPlain)...)},
		c19PeerCfg{Name: "github(org+team)", Own: true, Refresh: true, Flags: own("github", with(refresh, "--github-org=acme", "--github-team=staff")...)},
		c19PeerCfg{Name: "github(users)", Own: true, Flags: own("github", "--github-user=alice", "--github-org=acme")},
		c19PeerCfg{Name: "bitbucket", Own: true, Refresh: true, Flags: own("bitbucket", refresh...)},
		c19PeerCfg{Name: "digitalocean", Own: true, Refresh: true, Flags: own("digitalocean", refresh...)},
		c19PeerCfg{Name: "facebook", Own: true, Refresh: true, Flags: own("facebook", refresh...)},
		c19PeerCfg{Name: "linkedin", Own: true, Refresh: true, Flags: own("linkedin", refresh...)},
		c19PeerCfg{Name: "google", Own: true, Refresh: true, Flags: own("google", with(refresh, logout)...)},
		c19PeerCfg{Name: "nextcloud", Own: true, Refresh: true, Flags: own("nextcloud", with(refresh,
			"--profile-url="+world.Issuer+"/ocs/v2.php/cloud/user?format=json", "--validate-url="+world.Issuer+"/ocs/v2.php/cloud/user?format=json")...)},
	)
	return out
}

type c19PeerScenario struct {
	Name string
	// Needs: "", "refresh", "oidc", "issuer2"
	Needs string
	// Source of the session the final request resolves to
	Source string
	// Secondary: the calls of this scenario are also made by a primary one (same endpoint, same grant)
	// and only the handler around them differs; the quick tier offers the derived deviations
	// (JSON places, token claims) with three of the ten mutants there and all generic answers
	Secondary bool
}

var c19PeerScenarios = []c19PeerScenario{
	{Name: "callback", Source: "none"},
	{Name: "callback/id-token-without-email", Needs: "oidc", Source: "none"},
	{Name: "callback/while-signed-in", Source: "cookie", Secondary: true},
	{Name: "page", Source: "cookie"},
	{Name: "page/stale", Needs: "refresh", Source: "cookie"},
	{Name: "page/stale/rotated-key", Needs: "refresh+oidc", Source: "cookie"},
	{Name: "auth/stale", Needs: "refresh", Source: "cookie", Secondary: true},
	{Name: "userinfo/stale", Needs: "refresh", Source: "cookie", Secondary: true},
	{Name: "sign-out", Source: "cookie"},
	{Name: "sign-out/stale", Needs: "refresh", Source: "cookie", Secondary: true},
	{Name: "sign-out/bearer", Needs: "oidc", Source: "bearer", Secondary: true},
	{Name: "sign-out/basic", Source: "basic", Secondary: true},
	{Name: "sign-out/form-session", Source: "form", Secondary: true},
	{Name: "sign-out/none", Source: "none"},
	{Name: "page/bearer", Needs: "oidc", Source: "bearer"},
	{Name: "page/bearer/unknown-kid", Needs: "oidc", Source: "bearer", Secondary: true},
	{Name: "page/bearer/extra-issuer", Needs: "issuer2", Source: "bearer"},
	{Name: "form-login", Source: "none", Secondary: true},
	{Name: "form-login/while-signed-in", Source: "cookie", Secondary: true},
}

type c19PeerCall struct {
	Peer     string `json:"peer"` // idp | store
	Endpoint string `json:"endpoint"`
	Path     string `json:"path,omitempty"`
	Kind     string `json:"kind,omitempty"`
	body     []byte
}

type c19Plan struct {
	At         map[int]string // call index -> kind
	StickyFrom int            // -1 = none: from this index on every provider call gets Sticky
	Sticky     string
}

type c19PeerCase struct {
	Config   string        `json:"config"`
	Scenario string        `json:"scenario"`
	Faults   []string      `json:"deviations"`
	Calls    []c19PeerCall `json:"calls_of_the_request"`
	Status   int           `json:"status"`
	Panic    string        `json:"panic,omitempty"`
	Site     string        `json:"site,omitempty"`
}

type c19PeerResult struct {
	calls     []c19PeerCall
	resp      *world.Resp
	delivered int
	err       string // harness-level problem (prefix did not work)
	skip      bool
	budget    bool // the request made more calls than the world answers
}

func (p *c19Plan) describe() []string {
	var out []string
	var idx []int
	for i := range p.At {
		idx = append(idx, i)
	}
	sort.Ints(idx)
	for _, i := range idx {
		out = append(out, fmt.Sprintf("call#%d=%s", i, p.At[i]))
	}
	if p.StickyFrom >= 0 {
		out = append(out, fmt.Sprintf("call#%d..=%s", p.StickyFrom, p.Sticky))
	}
	return out
}

// c19PeerRun builds a fresh world, plays the scenario's prefix against well-behaved peers and the
// final request against the plan.
//
// warm: the proxy of an earlier case of the same configuration may be used again. Only the key set
// of the ID-token verifier survives in a proxy (cookie store); callers pass warm=true for scenarios
// whose request does not fetch keys when everything is well (the prefix login has fetched them, or no
// token is verified at all), so that what the request does is the same with a new and a used proxy.
func c19PeerRun(cfg c19PeerCfg, sc c19PeerScenario, plan *c19Plan, up *world.Upstream, warm bool) *c19PeerResult {
	res := &c19PeerResult{}
	world.ClearAdvanceHooks()
	world.ResetClock()
	world.SeedRandom(1, 0)
	idp := world.NewIdP()
	rt := c19AllHosts{idp}
	requests.DefaultHTTPClient.Transport = rt
	http.DefaultClient.Transport = rt

	var mu sync.Mutex
	armed := false
	n := 0
	dropEmail, rotated := false, false
	idp.IDTokenSpec = func(_ *world.AuthRequest, _ *world.User, refresh bool) *world.TokenSpec {
		spec := &world.TokenSpec{Claims: map[string]any{}}
		if dropEmail {
			spec.Claims["email"] = nil
		}
		if rotated && refresh {
			spec.Signer = "unknown-kid"
		}
		return spec
	}
	vendor := func(req *http.Request, h *http.Response) *http.Response {
		if cfg.JWTAccess && req.URL.Path == "/token" && h.StatusCode == 200 {
			body := c19ReadBody(h)
			if doc, ok := c19DecodeJSON(body); ok {
				if m, ok := doc.(map[string]any); ok && m["access_token"] != nil {
					m["access_token"] = world.SignJWT(map[string]any{"iss": world.Issuer, "aud": world.ClientID, "sub": "alice-sub", "typ": "Bearer",
						"exp": world.Epoch.Add(1000 * time.Hour).Unix(), "iat": world.Now().Unix(),
						"realm_access":    map[string]any{"roles": []any{"staff"}},
						"resource_access": map[string]any{world.ClientID: map[string]any{"roles": []any{"reader"}}}}, "main")
					body, _ = json.Marshal(m)
				}
			}
			return world.RawResponse(req, 200, h.Header.Get("Content-Type"), body)
		}
		if h.StatusCode == 404 {
			if pg := req.URL.Query().Get("page"); pg != "" && pg != "1" {
				// paginated listings end with an empty page
				return world.RawResponse(req, 200, "application/json", []byte("[]"))
			}
			if body, ok := c19VendorAPI[req.URL.Path]; ok {
				return world.RawResponse(req, 200, "application/json", []byte(body))
			}
		}
		return h
	}
	idp.Intercept = func(cl *world.Call, req *http.Request) *world.Fault {
		mu.Lock()
		defer mu.Unlock()
		if !armed {
			return &world.Fault{Kind: "well-formed", Respond: func(req *http.Request, healthy func() *http.Response) (*http.Response, error) {
				return vendor(req, healthy()), nil
			}}
		}
		i := n
		n++
		rec := c19PeerCall{Peer: "idp", Endpoint: cl.Endpoint, Path: req.URL.Path}
		kind := ""
		if i >= c19PeerCallBudget {
			// a request that keeps calling (a listing whose every page is non-empty) finds the
			// peer gone after this many calls: the world is finite
			res.budget = true
			res.calls = append(res.calls, rec)
			return &world.Fault{Kind: "c19:budget", Respond: func(*http.Request, func() *http.Response) (*http.Response, error) {
				return nil, &net.OpError{Op: "dial", Net: "tcp", Err: syscall.ECONNREFUSED}
			}}
		}
		if plan != nil {
			kind = plan.At[i]
			if kind == "" && plan.StickyFrom >= 0 && i >= plan.StickyFrom {
				kind = plan.Sticky
			}
		}
		res.calls = append(res.calls, rec)
		return &world.Fault{Kind: "c19:" + kind, Respond: func(req *http.Request, healthy func() *http.Response) (*http.Response, error) {
			wellFormed := func() *http.Response { return vendor(req, healthy()) }
			if kind != "" {
				for _, k := range c19GenericKinds() {
					if k.Name == kind {
						mu.Lock()
						res.calls[i].Kind = kind
						res.delivered++
						mu.Unlock()
						return k.Respond(req, wellFormed)
					}
				}
			}
			h := wellFormed()
			body := c19ReadBody(h)
			out := body
			if kind != "" {
				if nb, ok := c19ApplyDerived(kind, body); ok {
					out = nb
					mu.Lock()
					res.calls[i].Kind = kind
					res.delivered++
					mu.Unlock()
				}
			}
			mu.Lock()
			res.calls[i].body = body
			mu.Unlock()
			return world.RawResponse(req, h.StatusCode, h.Header.Get("Content-Type"), out), nil
		}}
	}
	defer func() { idp.Intercept = nil }()

	flags := cfg.Flags
	if cfg.Own {
		flags = append([]string{"--upstream=" + up.URL()}, flags...)
	} else {
		flags = append(baseFlags(up.URL()), flags...)
	}
	flags = append(flags, "--email-domain=*", "--cookie-secure=false", "--htpasswd-file="+c19PeerHtpasswd(), "--display-htpasswd-form=true")
	if cfg.OIDC {
		flags = append(flags, "--skip-jwt-bearer-tokens=true")
	}
	pc := &ProxyCfg{Flags: flags}
	if cfg.Redis {
		pc.Redis = c19FreshRedis()
		defer pc.Redis.CloseClients()
	}
	if cfg.Claim != "" {
		pc.Mutate = func(o *options.Options) {
			hv := []options.HeaderValue{{ClaimSource: &options.ClaimSource{Claim: cfg.Claim}}, {ClaimSource: &options.ClaimSource{Claim: "created_at"}}}
			o.InjectRequestHeaders = append(o.InjectRequestHeaders, options.Header{Name: "X-Verif-Claim", Values: hv})
			o.InjectResponseHeaders = append(o.InjectResponseHeaders, options.Header{Name: "X-Verif-Claim", Values: hv})
		}
	}
	var px *Proxy
	if warm && !cfg.Redis {
		px = c19PeerWarm[cfg.Name]
	}
	if px == nil {
		var err error
		px, err = buildProxy(pc)
		if err != nil {
			res.err = "build: " + err.Error()
			res.skip = true
			return res
		}
		if warm && !cfg.Redis {
			c19PeerWarm[cfg.Name] = px
		}
	}
	if pc.Redis != nil {
		pc.Redis.Intercept = func(cl *world.StoreCall) *world.StoreFault {
			mu.Lock()
			defer mu.Unlock()
			if !armed {
				return nil
			}
			i := n
			n++
			rec := c19PeerCall{Peer: "store", Endpoint: cl.Op}
			var f *world.StoreFault
			if plan != nil && plan.At[i] != "" {
				if f = c19StoreFault(plan.At[i], cl.Op); f != nil {
					rec.Kind = plan.At[i]
					res.delivered++
				}
			}
			res.calls = append(res.calls, rec)
			return f
		}
	}
	if os.Getenv("VERIF_C19_DEBUG") == cfg.Name+"/"+sc.Name {
		logger.SetErrOutput(os.Stderr)
		defer quietLogger()
	}
	b := newBrowser(px, "http", "app.example.com")
	prefix := px.Opts.ProxyPrefix
	authorize := func() (string, error) {
		_, loginURL, err := b.Start("/app")
		if err != nil {
			return "", err
		}
		cb, _, err := idp.Authorize(loginURL, "alice")
		if err != nil {
			return "", err
		}
		if cfg.StateUnescapedTwice {
			if u, perr := url.Parse(cb); perr == nil {
				q := u.Query()
				if st, uerr := url.QueryUnescape(q.Get("state")); uerr == nil {
					q.Set("state", st)
					u.RawQuery = q.Encode()
					cb = u.String()
				}
			}
		}
		return cb, nil
	}
	login := func() bool {
		cb, err := authorize()
		r := &world.Resp{}
		if err == nil {
			r = b.Callback(cb)
		}
		if err != nil || r.Status != 302 || r.Panic != nil {
			res.err = fmt.Sprintf("prefix login failed: %v status %d", err, r.Status)
			if os.Getenv("VERIF_C19_DEBUG") == cfg.Name+"/"+sc.Name {
				mu.Lock()
				var paths []string
				for _, k := range idp.Calls {
					paths = append(paths, fmt.Sprintf("%s:%d:%s", k.Endpoint, k.Status, k.Note))
				}
				mu.Unlock()
				i := strings.Index(r.Body, "<div class=\"block")
				if i < 0 {
					i = 0
				}
				fmt.Fprintf(os.Stderr, "DEBUG %s/%s: %s calls=%v body=%q\n", cfg.Name, sc.Name, res.err, paths, clip(r.Body[i:]))
			}
			return false
		}
		return true
	}
	formLogin := func() *world.Resp {
		return b.PostForm(prefix+"/sign_in", url.Values{"username": {"hugo"}, "password": {"pw1"}, "rd": {"/app"}})
	}
	arm := func() {
		mu.Lock()
		armed = true
		mu.Unlock()
	}
	hdr := func(k, v string) [2]string { return [2]string{k, v} }
	name := sc.Name
	switch {
	case strings.HasPrefix(name, "callback"):
		if name == "callback/while-signed-in" && !login() {
			return res
		}
		dropEmail = name == "callback/id-token-without-email"
		cb, err := authorize()
		if err != nil {
			res.err = "prefix start/authorize failed: " + err.Error()
			return res
		}
		arm()
		res.resp = b.Callback(cb)
	case strings.HasPrefix(name, "form-login"):
		if name == "form-login/while-signed-in" && !login() {
			return res
		}
		arm()
		res.resp = formLogin()
	case name == "sign-out/form-session":
		if r := formLogin(); r.Status != 302 {
			res.err = fmt.Sprintf("prefix form login failed: status %d", r.Status)
			return res
		}
		arm()
		res.resp = b.Get(prefix + "/sign_out?rd=%2Fbye")
	case name == "sign-out/none":
		arm()
		res.resp = b.Get(prefix + "/sign_out")
	case name == "sign-out/basic":
		arm()
		res.resp = b.Get(prefix+"/sign_out", hdr("Authorization", basicAuth("hugo", "pw1")))
	case strings.Contains(name, "bearer"):
		spec := &world.TokenSpec{DropNonce: true}
		if strings.HasSuffix(name, "unknown-kid") {
			spec.Signer = "unknown-kid"
		}
		if strings.HasSuffix(name, "extra-issuer") {
			spec = &world.TokenSpec{DropNonce: true, Signer: "issuer2", Audience: "other-aud"}
		}
		tok := idp.MintIDToken(idp.Users["alice"], spec)
		target := "/app/x"
		if strings.HasPrefix(name, "sign-out") {
			target = prefix + "/sign_out"
		}
		arm()
		res.resp = b.Get(target, hdr("Authorization", "Bearer "+tok))
	default: // a stored OAuth session, fresh or older than the refresh period
		if !login() {
			return res
		}
		if strings.Contains(name, "/stale") {
			world.Advance(2 * time.Minute)
		}
		rotated = strings.HasSuffix(name, "rotated-key")
		target := "/app/x"
		switch {
		case strings.HasPrefix(name, "auth"):
			target = prefix + "/auth"
		case strings.HasPrefix(name, "userinfo"):
			target = prefix + "/userinfo"
		case strings.HasPrefix(name, "sign-out"):
			target = prefix + "/sign_out?rd=%2Fbye"
		}
		arm()
		res.resp = b.Get(target)
	}
	mu.Lock()
	armed = false
	mu.Unlock()
	return res
}

const c19PeerCallBudget = 24

var c19PeerWarm = map[string]*Proxy{}

// One miniredis per process on a unix-domain socket (thousands of worlds per shard: no TCP ports,
// no TIME_WAIT), made as good as new between worlds.
var c19Redis *world.Redis

func c19FreshRedis() *world.Redis {
	if c19Redis == nil {
		c19Redis = world.NewRedis()
		if err := c19Redis.ListenUnix(filepath.Join(scratch(), fmt.Sprintf("c19-redis-%d.sock", os.Getpid()))); err != nil {
			panic(err)
		}
	} else {
		c19Redis.Reset()
	}
	return c19Redis
}

var c19PeerHtFile string

func c19PeerHtpasswd() string {
	if c19PeerHtFile == "" {
		c19PeerHtFile = writeHtpasswd(map[string]string{"hugo": "pw1"})
	}
	return c19PeerHtFile
}

func c19PeerApplies(cfg c19PeerCfg, sc c19PeerScenario) bool {
	for _, need := range strings.Split(sc.Needs, "+") {
		switch need {
		case "refresh":
			if !cfg.Refresh {
				return false
			}
		case "oidc":
			if !cfg.OIDC {
				return false
			}
		case "issuer2":
			if !strings.Contains(strings.Join(cfg.Flags, " "), "--extra-jwt-issuers") {
				return false
			}
		}
	}
	return true
}

// c19PeerAlphabet: the deviations on offer at call i of an observed execution.
// quick tier: error statuses the handling of which differs in nothing but the number are represented by one
var c19ThoroughOnly = map[string]bool{"503-html": true, "400-oauth-error": true, "403-json": true, "429-empty": true, "200-array-of-null": true, "200-no-content-type": true}

func c19PeerAlphabet(call c19PeerCall, reduced, quick bool) []string {
	if call.Peer == "store" {
		var out []string
		for _, k := range c19StoreKinds {
			if c19StoreFault(k, call.Endpoint) != nil {
				out = append(out, k)
			}
		}
		return out
	}
	var out []string
	for _, k := range c19GenericKinds() {
		if quick && c19ThoroughOnly[k.Name] {
			continue
		}
		out = append(out, k.Name)
	}
	for _, k := range c19DerivedKinds(call.body) {
		if reduced && !(strings.HasSuffix(k, "=absent") || strings.HasSuffix(k, "=null") || strings.HasSuffix(k, "=number")) {
			continue
		}
		out = append(out, k)
	}
	return out
}

func c19PeerJudge(c *Ctx, cfg c19PeerCfg, sc c19PeerScenario, plan *c19Plan, res *c19PeerResult, up *world.Upstream) {
	c.Inc("evaluations")
	c.Inc("peer_evaluations")
	if res.resp == nil {
		return
	}
	faults := plan.describe()
	cs := c19PeerCase{Config: cfg.Name, Scenario: sc.Name, Faults: faults, Status: res.resp.Status}
	for _, k := range res.calls {
		cs.Calls = append(cs.Calls, k)
	}
	if res.budget {
		c.Inc("peer_cases_call_budget_exhausted")
		if c.Distinct("peer_unbounded_call_loops", cfg.Name+"|"+sc.Name+"|"+res.calls[len(res.calls)-1].Path) && cfg.Name == "github" && sc.Name == "callback" && strings.HasSuffix(res.calls[len(res.calls)-1].Path, "/orgs") {
			c.Note("peer part: %s / %s with %v: the request was still calling %s after %d calls (not a C19 matter: no panic; the world stops answering)",
				cfg.Name, sc.Name, plan.describe(), res.calls[len(res.calls)-1].Path, c19PeerCallBudget)
		}
	}
	if res.delivered > 0 {
		c.Inc("peer_cases_with_deviation_delivered")
		c.Distinct("distinct_nontrivial", fmt.Sprintf("peer|%s|%s|%v", cfg.Name, sc.Name, faults))
		for _, k := range res.calls {
			if k.Kind != "" {
				c.Inc("peer_deviation@" + k.Peer + ":" + k.Endpoint)
				c.Inc("peer_family:" + c19KindFamily(k.Kind))
				c.Inc("peer_source:" + sc.Source)
				if k.Endpoint == "logout" {
					c.Inc("peer_logout_deviation_source:" + sc.Source)
				}
			}
		}
	}
	c.Distinct("distinct_outcomes", fmt.Sprintf("peer|%s|%s|%d|%v", cfg.Name, sc.Name, res.resp.Status, res.resp.Panic != nil))
	again := func() (string, bool) {
		r := c19PeerRun(cfg, sc, plan, up, false)
		if r.resp == nil {
			return "", false
		}
		if r.resp.Panic != nil {
			return "C19/panic@" + r.resp.PanicSite(), true
		}
		if r.resp.Status < 200 || r.resp.Status > 599 {
			return "C19/no-response", true
		}
		return "", false
	}
	if res.resp.Panic != nil {
		cs.Panic = fmt.Sprint(res.resp.Panic)
		cs.Site = res.resp.PanicSite()
		c.confirm("C19/panic@"+cs.Site, fmt.Sprintf("config %s, scenario %s (session source %s), peer answers %v; calls of the request %s: panic: %v",
			cfg.Name, sc.Name, sc.Source, faults, c19DescribeCalls(res.calls), res.resp.Panic), len(faults), cs, again)
		return
	}
	if !res.resp.Aborted && (res.resp.Status < 200 || res.resp.Status > 599) {
		c.confirm("C19/no-response", fmt.Sprintf("config %s, scenario %s, peer answers %v: status %d", cfg.Name, sc.Name, faults, res.resp.Status), len(faults), cs, again)
		return
	}
	if res.delivered > 0 {
		c.Sample(2, cs)
	}
}

func c19DescribeCalls(calls []c19PeerCall) string {
	var out []string
	for _, k := range calls {
		s := k.Peer + ":" + k.Endpoint
		if k.Endpoint == "unknown" {
			s += "(" + k.Path + ")"
		}
		if k.Kind != "" {
			s += "[" + k.Kind + "]"
		}
		out = append(out, s)
	}
	return "[" + strings.Join(out, " ") + "]"
}

// c19PeerExplore: depth-first over deviation plans below `plan`; children extend the plan at a
// later call of the execution the plan produced.
func c19PeerExplore(c *Ctx, cfg c19PeerCfg, sc c19PeerScenario, plan *c19Plan, res *c19PeerResult, from, depth int, up *world.Upstream, warm bool) {
	if depth == 0 || c.Expired() {
		return
	}
	for i := from; i < len(res.calls) && i < 12; i++ {
		// second deviations come from the answers that do not depend on the call (the derived ones are
		// enumerated as first deviations)
		for _, kind := range c19PeerAlphabet(c19PeerCall{Peer: res.calls[i].Peer, Endpoint: res.calls[i].Endpoint}, true, true) {
			child := &c19Plan{At: map[int]string{i: kind}, StickyFrom: -1}
			for k, v := range plan.At {
				child.At[k] = v
			}
			r := c19PeerRun(cfg, sc, child, up, warm)
			c19PeerJudge(c, cfg, sc, child, r, up)
			c19PeerExplore(c, cfg, sc, child, r, i+1, depth-1, up, warm)
		}
	}
}

func c19PeerPart(c *Ctx, _ *world.Upstream) {
	// every case builds a proxy of its own: the upstream listens on a unix-domain socket and closes
	// each connection after the answer, so that no case leaves a TCP port or an idle connection behind
	up := world.NewUpstreamUnix("u", filepath.Join(scratch(), fmt.Sprintf("c19-up-%d.sock", os.Getpid())))
	defer up.Close()
	up.Respond = func(w http.ResponseWriter, r *http.Request) {
		w.Header().Set("Connection", "close")
		w.Header().Set("Content-Type", "text/plain")
		w.WriteHeader(200)
		io.WriteString(w, "upstream:u")
	}
	defer debug.SetGCPercent(debug.SetGCPercent(200)) // thousands of short-lived worlds
	defer func() { c19PeerWarm = map[string]*Proxy{} }()
	cfgs := c19PeerCfgs()
	c.Info["peer_configurations"] = len(cfgs)
	c.Info["peer_scenarios"] = len(c19PeerScenarios)
	c.Info["peer_generic_answer_kinds"] = len(c19GenericKinds())
	c.Info["peer_json_mutants_per_place"] = len(c19Mutants)
	n := 0
	for _, cfg := range cfgs {
		for _, sc := range c19PeerScenarios {
			if !c19PeerApplies(cfg, sc) {
				continue
			}
			if c.Expired() {
				return
			}
			// the well-behaved execution: which calls does the request make?
			empty := &c19Plan{At: map[int]string{}, StickyFrom: -1}
			base := c19PeerRun(cfg, sc, empty, up, false)
			if base.skip {
				if c.Shard == 0 {
					c.Inc("peer_configurations_rejected_by_validation")
					c.Note("peer part: configuration %s does not build: %s", cfg.Name, clip(base.err))
				}
				break
			}
			if base.resp == nil {
				if c.Shard == 0 {
					c.Inc("peer_scenarios_not_playable")
					if c.Distinct("peer_configurations_with_unplayable_scenarios", cfg.Name) {
						c.Note("peer part: %s / %s (and possibly further scenarios of this configuration): %s", cfg.Name, sc.Name, base.err)
					}
				}
				continue
			}
			if c.Shard == 0 {
				c19PeerJudge(c, cfg, sc, empty, base, up)
				c.Distinct("peer_call_sequences", cfg.Name+"|"+sc.Name+"|"+c19DescribeCalls(base.calls))
				if len(base.calls) == 0 {
					c.Inc("peer_scenarios_without_callout")
				} else {
					c.Inc("peer_scenarios_with_callout")
				}
				for _, k := range base.calls {
					c.Distinct("peer_endpoints_reached", k.Peer+":"+k.Endpoint+":"+k.Path)
				}
			}
			depth := 1
			if !c.Quick() {
				depth = 2
			}
			warm := true
			for _, k := range base.calls {
				warm = warm && k.Endpoint != "jwks"
			}
			for i, call := range base.calls {
				if i >= 12 {
					break
				}
				alpha := c19PeerAlphabet(call, c.Quick() && sc.Secondary, c.Quick())
				for _, kind := range alpha {
					n++
					if !c.Mine(n) {
						continue
					}
					plan := &c19Plan{At: map[int]string{i: kind}, StickyFrom: -1}
					r := c19PeerRun(cfg, sc, plan, up, warm)
					c19PeerJudge(c, cfg, sc, plan, r, up)
					c19PeerExplore(c, cfg, sc, plan, r, i+1, depth-1, up, warm)
					// the same answer to this call and to every later call to the provider (retries,
					// fall-backs): a different case only if the request went on calling
					later := false
					for _, k := range r.calls[min(i+1, len(r.calls)):] {
						later = later || k.Peer == "idp"
					}
					if call.Peer == "idp" && later && c19KindFamily(kind) != "json" && !strings.Contains(kind, "claim:") && !strings.HasPrefix(kind, "idtoken:") {
						sp := &c19Plan{At: map[int]string{}, StickyFrom: i, Sticky: kind}
						sr := c19PeerRun(cfg, sc, sp, up, warm)
						if sr.delivered > 1 {
							c.Inc("peer_cases_every_later_call_deviates")
							c19PeerJudge(c, cfg, sc, sp, sr, up)
						}
					}
				}
			}
		}
	}
}

// c19PeerPost: the part means nothing unless every kind of peer call was reached and deviated.
func c19PeerPost(c *Ctx) {
	for _, k := range []string{
		"peer_deviation@idp:token", "peer_deviation@idp:jwks", "peer_deviation@idp:userinfo", "peer_deviation@idp:validate",
		"peer_deviation@idp:logout", "peer_deviation@idp:unknown", "peer_deviation@store:GET", "peer_deviation@store:SET", "peer_deviation@store:DEL",
		"peer_family:transport", "peer_family:status", "peer_family:body", "peer_family:json", "peer_family:claim", "peer_family:idtoken",
		"peer_logout_deviation_source:cookie", "peer_logout_deviation_source:bearer", "peer_logout_deviation_source:basic", "peer_logout_deviation_source:form",
		"peer_scenarios_with_callout",
	} {
		if c.Counters[k] == 0 {
			c.Error("C19 peer part is vacuous: counter %s is 0", k)
		}
	}
}
