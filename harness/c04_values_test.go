//go:build verif

package main

import (
	"encoding/json"
	"fmt"
	"math/big"
	"strings"

	"github.com/oauth2-proxy/oauth2-proxy/v7/verifx/world"
)

// C04, the VALUE dimension of two clauses (the rest of c04_test.go varies the SHAPE of the token):
//
// (A) "whose audience contains the client ID or a configured extra audience": every allowed audience a
//     is turned into look-alike audience values — a as one blank/tab/newline/comma separated word of a
//     longer string, as prefix / suffix / substring, truncated, in another case, with surrounding
//     blanks, NUL-terminated, as the text of a JSON list, quoted, twice — and each of them is presented
//     as a single string, as a one-element list, next to another audience, and (a itself) as a list
//     inside a list; as the standard `aud` and as the configured custom audience claim; on all entry
//     paths. Reference predicate: one whole audience value equals an allowed audience, byte for byte.
//
// (B) "user, e-mail and groups of the resulting session are taken from that token's configured
//     claims": claim VALUES that are not plain words — JSON numbers (small, zero, negative, 2^53 and
//     2^53+1, 2^63 and 2^63+1, 64-bit ids, decimals, exponent forms), booleans, numeric strings with
//     leading zeros / blanks, lists of those — at the configured user, e-mail, groups claim (standard and
//     custom claim names) and preferred_username. What the documentation leaves open about claims that
//     are not strings is admitted (the token may be refused; a number may be rendered in any notation
//     that denotes exactly the same number — counted as ambiguous); what no reading admits is a session
//     value that denotes ANOTHER value than the token's claim, and two different claim values of the
//     same JSON type that end up as the same session value.

// ---- (A) audience values

const c04AudOther = "billing-service"

type c04AudDeriv struct {
	name string
	f    func(a string) string
}

var c04AudDerivs = []c04AudDeriv{
	{"exact", func(a string) string { return a }}, // control: the only one that names the audience
	{"blank-word-last", func(a string) string { return c04AudOther + " " + a }},
	{"blank-word-first", func(a string) string { return a + " " + c04AudOther }},
	{"tab-word", func(a string) string { return c04AudOther + "\t" + a }},
	{"newline-word", func(a string) string { return c04AudOther + "\n" + a }},
	{"comma-word-last", func(a string) string { return c04AudOther + "," + a }},
	{"comma-word-first", func(a string) string { return a + "," + c04AudOther }},
	{"comma-blank-word", func(a string) string { return c04AudOther + ", " + a }},
	{"semicolon-word", func(a string) string { return c04AudOther + ";" + a }},
	{"prefix-of", func(a string) string { return a + "-admin" }},
	{"suffix-of", func(a string) string { return "not-" + a }},
	{"substring-of", func(a string) string { return "x" + a + "y" }},
	{"truncated", func(a string) string { return a[:len(a)-1] }},
	{"upper-case", strings.ToUpper},
	{"title-case", func(a string) string { return strings.ToUpper(a[:1]) + a[1:] }},
	{"leading-blank", func(a string) string { return " " + a }},
	{"trailing-blank", func(a string) string { return a + " " }},
	{"leading-tab", func(a string) string { return "\t" + a }},
	{"trailing-newline", func(a string) string { return a + "\n" }},
	{"nul-terminated", func(a string) string { return a + "\x00" }},
	{"json-list-text", func(a string) string { return `["` + a + `"]` }},
	{"bracketed", func(a string) string { return "[" + a + "]" }},
	{"quoted", func(a string) string { return `"` + a + `"` }},
	{"twice", func(a string) string { return a + " " + a }},
	{"url-of", func(a string) string { return "https://" + a }},
	{"empty", func(a string) string { return "" }},
}

// shapes the derived value is presented in; the nested ones only make sense for the audience itself
var (
	c04AudValShapes = []string{"str", "list1", "list2", "list2-first"}
	c04AudNested    = []string{"nested", "nested2"}
	// quick tier: every derivation as a single string (the JSON type the claim usually has), the list
	// shapes for one derivation of each separator family
	c04AudListDerivsQuick = []string{"exact", "blank-word-last", "comma-word-last", "upper-case", "prefix-of", "trailing-blank"}
)

func c04AudBase(name string) string {
	switch name {
	case "client":
		return world.ClientID
	case "extra":
		return c04ExtraAud
	case "api":
		return c04APIAud
	}
	panic("c04: unknown audience base " + name)
}

func c04IsDerivedAud(name string) bool { return strings.HasPrefix(name, "v|") }

// c04DerivedAud resolves "v|<base>|<derivation>|<shape>".
func c04DerivedAud(name string) (any, bool) {
	p := strings.Split(name, "|")
	if len(p) != 4 {
		panic("c04: malformed derived audience " + name)
	}
	a := c04AudBase(p[1])
	var v string
	found := false
	for _, d := range c04AudDerivs {
		if d.name == p[2] {
			v, found = d.f(a), true
		}
	}
	if !found {
		panic("c04: unknown audience derivation " + name)
	}
	switch p[3] {
	case "str":
		return v, true
	case "list1":
		return []string{v}, true
	case "list2":
		return []string{"other-client", v}, true
	case "list2-first":
		return []string{v, "other-client"}, true
	case "nested": // a one-element list inside a list
		return []any{[]any{v}}, true
	case "nested2":
		return []any{"other-client", []any{v}}, true
	}
	panic("c04: unknown audience value shape " + name)
}

func c04AudNames(base string, quick bool) []string {
	var out []string
	for _, d := range c04AudDerivs {
		shapes := c04AudValShapes
		if quick && !c04In(d.name, c04AudListDerivsQuick) {
			shapes = shapes[:1]
		}
		for _, sh := range shapes {
			out = append(out, "v|"+base+"|"+d.name+"|"+sh)
		}
	}
	for _, sh := range c04AudNested {
		out = append(out, "v|"+base+"|exact|"+sh)
	}
	return out
}

// ---- (B) claim values

type c04Val struct {
	Name  string   `json:"name"`
	JSON  string   `json:"json"` // the text put into the token
	Kind  string   `json:"kind"` // number | bool | string | list
	Elems []c04Val `json:"-"`
}

func (v c04Val) String() string { return v.Kind + " " + v.JSON }

func c04Num(name, text string) c04Val { return c04Val{Name: name, JSON: text, Kind: "number"} }
func c04Str(name, s string) c04Val {
	b, _ := json.Marshal(s)
	return c04Val{Name: name, JSON: string(b), Kind: "string"}
}
func c04List(name string, elems ...c04Val) c04Val {
	var parts []string
	for _, e := range elems {
		parts = append(parts, e.JSON)
	}
	return c04Val{Name: name, JSON: "[" + strings.Join(parts, ",") + "]", Kind: "list", Elems: elems}
}

func (v c04Val) str() string {
	var s string
	json.Unmarshal([]byte(v.JSON), &s)
	return s
}

var (
	c04Scalars = []c04Val{
		c04Num("small", "7"),
		c04Num("zero", "0"),
		c04Num("negative", "-5"),
		c04Num("2^53", "9007199254740992"),
		c04Num("2^53+1", "9007199254740993"),
		c04Num("-(2^53+1)", "-9007199254740993"),
		c04Num("id64", "76561198000000001"),
		c04Num("2^60+1", "1152921504606846977"),
		c04Num("2^63", "9223372036854775808"),
		c04Num("2^63+1", "9223372036854775809"),
		c04Num("2^64+1", "18446744073709551617"),
		c04Num("decimal", "1.5"),
		c04Num("decimal-tenth", "0.1"),
		c04Num("decimal-long", "3.141592653589793238"),
		c04Num("exponent", "1e3"),
		c04Num("exponent-neg", "25e-1"),
		c04Num("exponent-big", "1e21"),
		{Name: "true", JSON: "true", Kind: "bool"},
		{Name: "false", JSON: "false", Kind: "bool"},
		c04Str("str-small", "7"),
		c04Str("str-2^53+1", "9007199254740993"),
		c04Str("str-leading-zeros", "007"),
		c04Str("str-exponent", "1e3"),
		c04Str("str-decimal-zero", "1.50"),
		c04Str("str-true", "true"),
	}
	c04Lists = []c04Val{
		c04List("l-small", c04Num("", "1"), c04Num("", "2")),
		c04List("l-2^53-neighbours", c04Num("", "9007199254740992"), c04Num("", "9007199254740993")),
		c04List("l-2^63-neighbours", c04Num("", "9223372036854775808"), c04Num("", "9223372036854775809")),
		c04List("l-id64", c04Num("", "76561198000000001"), c04Num("", "42")),
		c04List("l-decimals", c04Num("", "1.5"), c04Num("", "1e3")),
		c04List("l-bools", c04Val{JSON: "true", Kind: "bool"}, c04Val{JSON: "false", Kind: "bool"}),
		c04List("l-numeric-strings", c04Str("", "007"), c04Str("", "7"), c04Str("", "9007199254740993")),
		c04List("l-mixed", c04Str("", "staff-7"), c04Num("", "9007199254740993")),
	}
	// positions that only repeat what the e-mail position shows get a cross-section in the quick tier
	c04ScalarsFew = []string{"small", "2^53", "2^53+1", "2^63+1", "decimal", "true", "str-leading-zeros"}
	c04Positions  = []string{"email", "groups", "pref", "user"}
)

func c04IsValueTyping(typ string) bool { return strings.HasPrefix(typ, "val|") }

// c04ValueOf resolves "val|<position>|<value name>".
func c04ValueOf(typ string) (pos string, v *c04Val) {
	p := strings.SplitN(typ, "|", 3)
	if len(p) != 3 {
		panic("c04: malformed value typing " + typ)
	}
	for _, set := range [][]c04Val{c04Scalars, c04Lists} {
		for i := range set {
			if set[i].Name == p[2] {
				return p[1], &set[i]
			}
		}
	}
	panic("c04: unknown claim value " + typ)
}

func c04PositionValues(pos string, custom, quick bool) []c04Val {
	var out []c04Val
	for _, v := range c04Scalars {
		switch pos {
		case "user":
			// the subject as a string is what every other case of the check has
			if v.Kind == "string" {
				continue
			}
			fallthrough
		case "pref":
			if quick && !c04In(v.Name, c04ScalarsFew) {
				continue
			}
		}
		out = append(out, v)
	}
	if pos == "groups" {
		out = append(out, c04Lists...)
	}
	return out
}

// c04ValueSpec puts the value into the token at the claim the configuration reads the position from.
func c04ValueSpec(k c04Cfg, typ string, claims map[string]any) {
	pos, v := c04ValueOf(typ)
	raw := json.RawMessage(v.JSON)
	switch pos {
	case "user":
		claims["sub"] = raw
	case "pref":
		claims["preferred_username"] = raw
	case "email":
		if k.Custom {
			claims["mail"] = raw
		} else {
			claims["email"] = raw
		}
	case "groups":
		if k.Custom {
			claims["realm"] = map[string]any{"roles": raw}
		} else {
			claims["groups"] = raw
		}
	default:
		panic("c04: position " + pos)
	}
}

// c04Plain: a value the documentation talks about (a string; for groups a list of strings).
func c04Plain(pos string, v *c04Val) bool {
	if pos == "groups" {
		if v.Kind != "list" {
			return false
		}
		for _, e := range v.Elems {
			if e.Kind != "string" {
				return false
			}
		}
		return true
	}
	return v.Kind == "string"
}

var c04InexactRenderings int

// c04Renders: does the session string `got` say what the scalar claim value says? Strings: the same
// bytes. Booleans: the JSON text. Numbers: the JSON text; any other notation is tolerated (counted)
// iff it denotes exactly the same number.
func c04Renders(v *c04Val, got string) bool {
	switch v.Kind {
	case "string":
		return got == v.str()
	case "bool":
		return got == v.JSON
	case "number":
		if got == v.JSON {
			return true
		}
		if len(got) == 0 || len(got) > 80 || strings.ContainsAny(got, "/ xXoObBpP_") {
			return false
		}
		g, ok := new(big.Rat).SetString(got)
		if !ok {
			return false
		}
		w, _ := new(big.Rat).SetString(v.JSON)
		if g.Cmp(w) == 0 {
			c04InexactRenderings++
			return true
		}
	}
	return false
}

// c04RendersGroups: the session's groups are the renderings of the claim's elements (a single value
// is a one-element list), in any order.
func c04RendersGroups(v *c04Val, got []string) bool {
	elems := v.Elems
	if v.Kind != "list" {
		if len(got) == 0 {
			return true // (as for typing groups-string: a claim that is no list may count as no groups)
		}
		elems = []c04Val{*v}
	}
	if len(got) != len(elems) {
		return false
	}
	used := make([]bool, len(got))
next:
	for i := range elems {
		for j, g := range got {
			if !used[j] && c04Renders(&elems[i], g) {
				used[j] = true
				continue next
			}
		}
		return false
	}
	return true
}

// canon: the identity of a claim value (numbers by their exact value)
func (v *c04Val) canon() string {
	switch v.Kind {
	case "number":
		r, _ := new(big.Rat).SetString(v.JSON)
		return "n:" + r.String()
	case "list":
		var p []string
		for i := range v.Elems {
			p = append(p, v.Elems[i].canon())
		}
		return "l:[" + strings.Join(p, " ") + "]"
	}
	return v.Kind[:1] + ":" + v.JSON
}

// kinds: the JSON type, element-wise for lists
func (v *c04Val) kinds() string {
	if v.Kind != "list" {
		return v.Kind
	}
	var p []string
	for i := range v.Elems {
		p = append(p, v.Elems[i].Kind)
	}
	return "list(" + strings.Join(p, ",") + ")"
}

// c04SessionValue is what the session says at the position.
func c04SessionValue(pos string, o *c04Obs) (string, bool) {
	ids := o.ids()
	if len(ids) == 0 {
		return "", false
	}
	id := ids[0]
	switch pos {
	case "user":
		return id.User, true
	case "email":
		return id.Email, true
	case "pref":
		return id.Pref, true
	case "groups":
		return strings.Join(id.Groups, "\x00"), true
	}
	return "", false
}

// c04Collisions is the relational clause over one unit (configuration, path, position): two tokens
// whose claim values differ must not lead to the same session value.
type c04Collisions struct {
	seen map[string]c04Tok // session value -> first token that produced it
}

// check returns the earlier token whose DIFFERENT claim value gave the same session value (nil = none).
func (cl *c04Collisions) check(c *Ctx, cs *c04Case, o *c04Obs, class string) *c04Tok {
	if !c04IsValueTyping(cs.Tok.Typ) || class != "accepted" {
		return nil
	}
	pos, v := c04ValueOf(cs.Tok.Typ)
	sv, ok := c04SessionValue(pos, o)
	if !ok {
		return nil
	}
	if cl.seen == nil {
		cl.seen = map[string]c04Tok{}
	}
	c.Inc("value_session_values_compared")
	first, dup := cl.seen[sv]
	if !dup {
		cl.seen[sv] = cs.Tok
		return nil
	}
	_, w := c04ValueOf(first.Typ)
	switch {
	case w.canon() == v.canon():
		return nil
	case w.kinds() != v.kinds():
		// 7 and "7": which of them a session value "7" stands for is nowhere written down
		c.Inc("ambiguous_same_session_value_for_values_of_different_json_type")
		return nil
	case pos == "groups" && sv == "":
		// (no groups at all for claims that are no lists: admitted above)
		return nil
	}
	return &first
}

// ---- units

func c04Flawless(aud, typ string) c04Tok {
	return c04Tok{Signer: "main", Iss: "ok", Aud: aud, Exp: "valid", EV: "true", Typ: typ}
}

func c04ValueUnits(quick bool) (units []c04Unit, info map[string]any) {
	statics := []bool{false, true}
	skips := []bool{false, true}
	if quick {
		statics, skips = statics[:1], skips[:1]
	}
	nAud, nVal := 0, 0
	// (A)
	for _, static := range statics {
		for _, skipIss := range skips {
			for _, audCfg := range c04AudCfgs {
				for _, extraIss := range []bool{false, true} {
					if quick && extraIss && audCfg != "default" {
						continue
					}
					k := c04Cfg{Static: static, SkipIss: skipIss, AudCfg: audCfg, ExtraIss: extraIss}
					bases := []string{"client"}
					if audCfg != "default" {
						bases = append(bases, "extra")
					}
					type ps struct{ path, form, signer, iss string }
					pss := []ps{{"callback", "", "main", "ok"}, {"refresh", "", "main", "ok"}, {"bearer", "bearer", "main", "ok"}}
					if extraIss {
						bases = append(bases, "api")
						pss = []ps{{"bearer-extra", "bearer", "main", "ok"}, {"bearer-extra", "bearer", "issuer2", "issuer2"}}
					}
					for _, p := range pss {
						for _, base := range bases {
							u := c04Unit{Cfg: k, Path: p.path, Form: p.form, Typ: "normal", Signer: p.signer, Iss: p.iss, Part: "audience-values"}
							for _, aud := range c04AudNames(base, quick) {
								t := c04Flawless(aud, "normal")
								t.Signer, t.Iss = p.signer, p.iss
								u.Toks = append(u.Toks, t)
							}
							nAud += len(u.Toks)
							units = append(units, u)
						}
					}
				}
			}
		}
	}
	// (B)
	for _, static := range statics {
		for _, custom := range []bool{false, true} {
			for _, extraIss := range []bool{false, true} {
				if quick && extraIss {
					continue
				}
				k := c04Cfg{Static: static, Custom: custom, ExtraIss: extraIss, AudCfg: "default"}
				type pf struct{ path, form string }
				pfs := []pf{{"callback", ""}, {"refresh", ""}, {"bearer", "bearer"}}
				if extraIss {
					pfs = []pf{{"bearer-extra", "bearer"}}
				}
				for _, p := range pfs {
					for _, pos := range c04Positions {
						if custom && quick && (pos == "pref" || pos == "user") {
							continue // these two are not read from configurable claims
						}
						u := c04Unit{Cfg: k, Path: p.path, Form: p.form, Typ: "val|" + pos, Signer: "main", Iss: "ok", Part: "claim-values"}
						for _, v := range c04PositionValues(pos, custom, quick) {
							u.Toks = append(u.Toks, c04Flawless("client", "val|"+pos+"|"+v.Name))
						}
						nVal += len(u.Toks)
						units = append(units, u)
					}
				}
			}
		}
	}
	info = map[string]any{
		"audience_value_derivations": len(c04AudDerivs), "audience_value_shapes": len(c04AudValShapes) + len(c04AudNested),
		"audience_value_cases": nAud, "claim_value_scalars": len(c04Scalars), "claim_value_lists": len(c04Lists),
		"claim_value_positions": len(c04Positions), "claim_value_cases": nVal, "value_units": len(units),
	}
	return units, info
}

// c04ValueCount keeps the measured counters of the two parts.
func c04ValueCount(c *Ctx, cs *c04Case, v c04Verdict, o *c04Obs, class string) {
	if c04InexactRenderings > 0 {
		c.Add("ambiguous_number_rendered_in_another_notation", int64(c04InexactRenderings))
		c04InexactRenderings = 0
	}
	if c04IsDerivedAud(cs.Tok.Aud) {
		c.Inc("audience_value_cases")
		p := strings.Split(cs.Tok.Aud, "|")
		c04DerivsRun[p[2]] = true
		if p[2] == "exact" && class == "accepted" {
			c.Inc("audience_value_exact_accepted")
		}
		if p[2] != "exact" && v.Must == c04MustReject && v.Fails == 1 && (class == "rejected" || class == "kept-old-session") {
			c.Inc("audience_value_lookalike_refused")
		}
	}
	if c04IsValueTyping(cs.Tok.Typ) {
		pos, val := c04ValueOf(cs.Tok.Typ)
		c.Inc("claim_value_cases")
		c.Inc("claim_value_" + class + "_" + pos)
		if class == "accepted" {
			c.Inc("claim_value_accepted_" + val.Kind)
			if r, _ := new(big.Rat).SetString(val.JSON); val.Kind == "number" && r != nil && r.IsInt() && r.Num().BitLen() > 53 {
				c.Inc("claim_value_accepted_number_beyond_2^53")
			}
		}
	}
}

// c04ValuePost: non-vacuity of the two parts over the merged counters of all shards.
func c04ValuePost(c *Ctx) {
	if len(c.Violations) > 0 {
		return
	}
	for _, n := range []string{"audience_value_cases", "audience_value_exact_accepted", "audience_value_lookalike_refused",
		"claim_value_cases", "claim_value_accepted_email", "claim_value_accepted_groups", "claim_value_accepted_pref",
		"claim_value_accepted_number", "claim_value_accepted_number_beyond_2^53", "claim_value_accepted_bool",
		"claim_value_accepted_string", "claim_value_accepted_list", "value_session_values_compared"} {
		if c.Counters[n] == 0 {
			c.Error("vacuous: counter %s is 0 — the value part of C04 did not see what it is about", n)
		}
	}
}

var c04DerivsRun = map[string]bool{}

// c04ValueShardGuard: a shard that ran audience-value units ran every derivation.
func c04ValueShardGuard(c *Ctx) {
	if n := len(c04DerivsRun); n > 0 && n != len(c04AudDerivs) && c.Exhaustive {
		c.Error("vacuous: shard %d/%d ran %d of %d audience derivations", c.Shard, c.Shards, n, len(c04AudDerivs))
	}
	c.SetMax("audience_value_derivations_run", int64(len(c04DerivsRun)))
}

// c04Literal: the literal values behind the names of a value case, for messages.
func c04Literal(t c04Tok) string {
	var p []string
	if c04IsDerivedAud(t.Aud) {
		v, _ := c04DerivedAud(t.Aud)
		b, _ := json.Marshal(v)
		p = append(p, "audience claim value "+string(b))
	}
	if c04IsValueTyping(t.Typ) && strings.Count(t.Typ, "|") == 2 {
		pos, v := c04ValueOf(t.Typ)
		p = append(p, fmt.Sprintf("%s claim value %s", pos, v.JSON))
	}
	return strings.Join(p, ", ")
}
