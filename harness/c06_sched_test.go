//go:build verif

package main

import (
	"fmt"
	"net/http"
	"net/url"
	"sort"
	"strings"

	"github.com/oauth2-proxy/oauth2-proxy/v7/verifx/world"
)

// C06 with two requests in flight: the redirect target a response carries (Location, the sign-in
// and error pages' form action / hidden rd / links, the state sent to the provider) must be the one
// derived from THAT request's data, also while another request with another target is being
// answered (page data prepared once and filled in per request, a memo of validated targets, ...).
// See conc_util_test.go for the exploration; the view is the list of targets C06 extracts anyway.

func c06ConcView(e *c06Env) func(i int, r *world.Resp) string {
	return func(_ int, r *world.Resp) string {
		o := &c06Obs{}
		e.collect(o, r, "location")
		var ts []string
		for _, t := range o.Targets {
			v := t.Value
			if t.Kind == "location" && strings.HasPrefix(v, world.Issuer+"/authorize") {
				// the login redirect: keep what is derived from the request (the redirect inside the state)
				if u, err := url.Parse(v); err == nil {
					st := u.Query().Get("state")
					if k := strings.IndexByte(st, ':'); k >= 0 {
						st = st[k+1:]
					}
					v = "idp-authorize state-redirect=" + st
				}
			}
			ts = append(ts, t.Kind+"="+v)
		}
		sort.Strings(ts)
		return fmt.Sprintf("status=%d targets=%v", r.Status, ts)
	}
}

func c06ConcScenarios(up *world.Upstream) []*concScenario {
	wl := c06MakeWL("conc", "sub.allowed.example", ".wild.example:8443")
	var env *c06Env
	get := func() *c06Env {
		if env == nil {
			env = c06NewEnv(wl, up)
		}
		env.idp.Install()
		return env
	}
	pair := func(name string, px func(e *c06Env) *Proxy, a, b *world.Req) *concScenario {
		return &concScenario{Name: name, prepare: func() (http.Handler, [2]*world.Req, func(int, *world.Resp) string, string) {
			e := get()
			return px(e).H, [2]*world.Req{a, b}, c06ConcView(e), ""
		}}
	}
	plain := func(e *c06Env) *Proxy { return e.px }
	skip := func(e *c06Env) *Proxy { return e.skip }
	g := func(target string, hdr ...[2]string) *world.Req {
		return &world.Req{Method: "GET", Target: target, Host: c06Host, Headers: hdr}
	}
	q := url.QueryEscape
	scs := []*concScenario{
		pair("sign-in-page rd=/alpha | rd=/beta", plain, g("/oauth2/sign_in?rd="+q("/alpha/page?x=1")), g("/oauth2/sign_in?rd="+q("/beta/other"))),
		pair("protected path /alpha | /beta (sign-in page)", plain, g("/alpha/page?x=1"), g("/beta/other")),
		pair("protected path /alpha | /beta (straight to the provider)", skip, g("/alpha/page?x=1"), g("/beta/other")),
		pair("start rd=/alpha | rd=/beta", plain, g("/oauth2/start?rd="+q("/alpha/page?x=1")), g("/oauth2/start?rd="+q("/beta/other"))),
		pair("start rd=whitelisted | rd=foreign", plain, g("/oauth2/start?rd="+q("https://sub.allowed.example/x")), g("/oauth2/start?rd="+q("https://evil.example/x"))),
		pair("sign-out rd=/alpha | rd=foreign", plain, g("/oauth2/sign_out?rd="+q("/alpha")), g("/oauth2/sign_out?rd="+q("//evil.example/"))),
		pair("sign-out rd=whitelisted | rd=foreign", plain, g("/oauth2/sign_out?rd="+q("https://a.wild.example:8443/p")), g("/oauth2/sign_out?rd="+q("https://a.wild.example:9000/p"))),
		pair("error page | sign-in page rd=/beta", plain, g("/oauth2/callback?error=access_denied"), g("/oauth2/sign_in?rd="+q("/beta/other"))),
		pair("sign-in page X-Auth-Request-Redirect /alpha | rd=/beta", plain, g("/oauth2/sign_in", [2]string{"X-Auth-Request-Redirect", "/alpha/page"}), g("/oauth2/sign_in?rd="+q("/beta/other"))),
	}
	// two browsers completing their logins at the same time: each lands on its own page
	scs = append(scs, &concScenario{Name: "callbacks of two logins started for /alpha and /beta", prepare: func() (http.Handler, [2]*world.Req, func(int, *world.Resp) string, string) {
		e := get()
		world.ResetClock()
		world.SeedRandom(1, 0)
		e.idp = world.NewIdP()
		var reqs [2]*world.Req
		for i, l := range []struct{ user, rd string }{{"alice", "/alpha/page?x=1"}, {"bob", "/beta/other"}} {
			b := newBrowser(e.px, "http", c06Host)
			_, loc, err := b.Start(l.rd)
			if err != nil {
				return nil, reqs, nil, err.Error()
			}
			cb, _, err := e.idp.Authorize(loc, l.user)
			if err != nil {
				return nil, reqs, nil, err.Error()
			}
			u, _ := url.Parse(cb)
			reqs[i] = b.Req("GET", u.RequestURI(), [2]string{"Cookie", b.Jar.Header("http", c06Host, "/oauth2/callback")})
		}
		return e.px.H, reqs, c06ConcView(e), ""
	}})
	return scs
}
