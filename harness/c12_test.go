//go:build verif

package main

import (
	"encoding/base64"
	"encoding/json"
	"fmt"
	"net/http"
	"net/http/httptest"
	"os"
	"sort"
	"strings"
	"time"

	"github.com/oauth2-proxy/oauth2-proxy/v7/pkg/apis/sessions"
	"github.com/oauth2-proxy/oauth2-proxy/v7/pkg/encryption"
	"github.com/oauth2-proxy/oauth2-proxy/v7/verifx/explore"
	"github.com/oauth2-proxy/oauth2-proxy/v7/verifx/sched"
	"github.com/oauth2-proxy/oauth2-proxy/v7/verifx/vatomic"
	"github.com/oauth2-proxy/oauth2-proxy/v7/verifx/world"
)

// C12 — stale sessions are refreshed or re-validated before use, once per session.
//
// Concurrent part (SCHED): 2-3 real requests carrying the same stale session cookie run as
// controlled threads through the real proxy with the Redis store (real persistence.Manager,
// real redislock against miniredis); every store call, lock call, provider call and retry
// sleep is a scheduling point; all interleavings are explored with state-key pruning.
// Sequential part (SEQ): histories login / modify stored ID token / advance / request for
// every provider behaviour and both stores.

type c12Scenario struct {
	Threads   int    `json:"threads"`
	Late      bool   `json:"late_third_request"` // the last request starts only after the first has been answered
	Behaviour string `json:"provider_behaviour"` // rotate | refresh-fails | no-refresh-token
	// part "remote" (c12_remote_test.go): a provider type that re-validates by CALLING the provider
	Provider string `json:"provider_type,omitempty"`     // keycloak (no refresh) | google (refresh grant)
	Store    string `json:"store,omitempty"`             // redis | cookie
	Validate string `json:"validate_endpoint,omitempty"` // 200 | 401 | 500 | reset | 200-then-401 | 401-then-200
	Refresh  string `json:"refresh_grant,omitempty"`     // ok | fail (google)
}

type c12Env struct {
	up    *world.Upstream
	redis *world.Redis
	px    *Proxy
}

func c12NewEnv(extra ...string) *c12Env {
	e := &c12Env{}
	world.NewIdP()
	e.up = world.NewUpstream("u")
	e.redis = world.NewRedis()
	e.px = mustProxy(&ProxyCfg{Flags: append(append(baseFlags(e.up.URL()), "--email-domain=*", "--cookie-secure=false",
		"--cookie-refresh=1m", "--cookie-expire=1h", "--pass-access-token=true"), extra...), Redis: e.redis, Mutate: c12Patient})
	return e
}

var c12Debug *os.File

type c12Result struct {
	inconclusive bool
	out          *sched.Outcome
	violations   []string
	outcome      string
	pruned       bool
	contended    bool
	elapsed      time.Duration
	tags         []string // counters the execution contributes to (complete, owned executions only)
	sizeBias     int      // added to the counterexample size (orders the witnesses of one key: the plainest first)
}

// c12Prepare makes the world of one execution: fresh provider, empty store, one login, then
// the session is made stale. Returns the stale Cookie header and the tokens of the login.
func c12Prepare(e *c12Env, sc c12Scenario, seed int64) (idp *world.IdP, cookie, oldAT string, err error) {
	world.ResetClock()
	world.SeedRandom(seed, 0)
	idp = world.NewIdP()
	switch sc.Behaviour {
	case "no-refresh-token":
		idp.NoRefreshToken = true
	case "refresh-nonce-mismatch":
		// (proxy built with --insecure-oidc-skip-nonce=false) the refresh answer verifies but its
		// nonce is not the session's and it names somebody else: validation of the refreshed
		// session fails, so nobody may be served under that identity
		idp.IDTokenSpec = func(a *world.AuthRequest, u *world.User, refresh bool) *world.TokenSpec {
			if !refresh {
				return nil
			}
			other := "not-the-login-nonce"
			return &world.TokenSpec{Nonce: &other, Claims: map[string]any{"sub": "mallory-sub", "email": "mallory@evil.example", "preferred_username": "mallory"}}
		}
	case "refresh-bad-id-token":
		// the refresh grant is answered with an ID token that does not verify (signed by another
		// key) and names somebody else: the answer must be discarded, nobody may ever be served
		// under that identity — not even a concurrent request that reloads the store while the
		// refreshing request is still deciding
		idp.IDTokenSpec = func(a *world.AuthRequest, u *world.User, refresh bool) *world.TokenSpec {
			if !refresh {
				return nil
			}
			return &world.TokenSpec{Signer: "other", Claims: map[string]any{"sub": "mallory-sub", "email": "mallory@evil.example", "preferred_username": "mallory"}}
		}
	}
	c12ApplyShape(idp, sc.Behaviour) // "rotate-<shape>": the form of the answers to refresh grants
	e.redis.M.FlushAll()
	e.redis.M.SetTime(world.Now())
	e.redis.Intercept = nil
	e.redis.Calls = nil
	e.up.Take()
	b := newBrowser(e.px, "http", "app.example.com")
	resp, _, lerr := b.Login(idp, "alice", "/app")
	if lerr != nil || resp.Status != 302 {
		return nil, "", "", fmt.Errorf("login failed: %v status %d", lerr, resp.Status)
	}
	toks := idp.IssuedAccessTokens()
	if len(toks) != 1 {
		return nil, "", "", fmt.Errorf("expected one access token after login, got %v", toks)
	}
	if sc.Behaviour == "refresh-fails" {
		idp.RefreshFails = true
	}
	world.Advance(2 * time.Minute)
	cookie = b.Jar.Header("http", "app.example.com", "/")
	secret, serr := c12TicketSecret(cookie)
	if serr != nil {
		return nil, "", "", fmt.Errorf("cannot read the ticket secret: %v", serr)
	}
	e.redis.Canon = c12Canon(secret)
	return idp, cookie, toks[0], nil
}

// c12Canon decrypts a stored session with the ticket secret the harness holds (from the cookie)
// and renders the fields that can influence later behaviour. The token expiry is left out: it
// is computed by x/oauth2 on the real clock and differs by nanoseconds between executions; it
// lies about an hour ahead and is never reached.
func c12Canon(secret []byte) func(key string, val []byte) string {
	return func(key string, val []byte) string {
		if strings.HasSuffix(key, ".lock") {
			return "lock"
		}
		ci, err := encryption.NewGCMCipher(secret)
		if err != nil {
			return "nocipher"
		}
		ss, err := sessions.DecodeSessionState(val, ci, false)
		if err != nil {
			return fmt.Sprintf("undecodable:%x", fnvString(string(val)))
		}
		ca := "nil"
		if ss.CreatedAt != nil {
			ca = ss.CreatedAt.Sub(world.Epoch).String()
		}
		return fmt.Sprintf("at=%s rt=%s it=%x ca=%s e=%s", ss.AccessToken, ss.RefreshToken, fnvString(ss.IDToken), ca, ss.Email)
	}
}

// c12TicketSecret extracts the per-ticket AES key from the ticket cookie (value|ts|sig, value =
// base64("v2.<id>.<secret>")).
func c12TicketSecret(cookieHeader string) ([]byte, error) {
	i := strings.Index(cookieHeader, "=")
	if i < 0 {
		return nil, fmt.Errorf("no cookie")
	}
	parts := strings.Split(cookieHeader[i+1:], "|")
	raw, err := base64.URLEncoding.DecodeString(parts[0])
	if err != nil {
		return nil, err
	}
	tp := strings.Split(string(raw), ".")
	if len(tp) != 3 {
		return nil, fmt.Errorf("unexpected ticket format")
	}
	return base64.RawURLEncoding.DecodeString(tp[2])
}

func c12StoreKey(e *c12Env) string {
	var b strings.Builder
	for _, k := range e.redis.Keys() {
		v, _ := e.redis.M.Get(k)
		if strings.HasSuffix(k, ".lock") {
			// the lock token is drawn from the owner's deterministic random stream
			fmt.Fprintf(&b, "l%x;", fnvString(v))
			continue
		}
		fmt.Fprintf(&b, "s[%s];", e.redis.Canon(k, []byte(v)))
	}
	return b.String()
}

func fnvString(s string) uint32 {
	h := uint32(2166136261)
	for i := 0; i < len(s); i++ {
		h ^= uint32(s[i])
		h *= 16777619
	}
	return h
}

func c12Exec(e *c12Env, sc c12Scenario, x *explore.Exec, prune bool, seed int64) *c12Result {
	if sc.Provider != "" {
		return c12rExec(sc, x, prune, seed) // part "remote" has its own worlds and oracle
	}
	res := &c12Result{}
	idp, cookie, oldAT, err := c12Prepare(e, sc, seed)
	if err != nil {
		res.violations = append(res.violations, "HARNESS\x00"+err.Error())
		res.out = &sched.Outcome{}
		return res
	}
	startOffset := world.Offset()
	callsBefore := e.redis.NumCalls()
	opts := sched.Options{Horizon: 700, MaxSteps: 20000, PositionsByObservation: true}
	if prune {
		opts.StateKey = func() string {
			k := c12StoreKey(e) + "#" + idp.StateKey()
			if c12Debug != nil {
				fmt.Fprintln(c12Debug, k)
			}
			return k
		}
	}
	s := sched.New(x, opts)
	resps := make([]*world.Resp, sc.Threads)
	done := make([]bool, sc.Threads)
	for i := 0; i < sc.Threads; i++ {
		i := i
		s.Go(fmt.Sprintf("req%d", i), func() {
			if sc.Late && i == sc.Threads-1 {
				sched.Block("wait-first-response", func() bool { return done[0] })
			}
			resps[i] = world.Serve(e.px.H, &world.Req{Method: "GET", Target: "/app", Host: "app.example.com",
				Headers: [][2]string{{"Cookie", cookie}, {"X-Req", fmt.Sprint(i)}}})
			done[i] = true
			sched.Observe(fmt.Sprintf("resp:%d", resps[i].Status))
		})
	}
	out := s.Run()
	res.out = out
	res.elapsed = world.Offset() - startOffset
	if out.Aborted == "pruned" {
		res.pruned = true
		return res
	}
	// was the lock ever found taken?
	obt := 0
	for _, op := range e.redis.Ops(callsBefore) {
		if op == "OBTAIN" {
			obt++
		}
	}
	res.contended = obt > 1
	add := func(key, msg string) {
		if sc.Behaviour == "refresh-nonce-mismatch" && (key == "served-under-foreign-identity" || key == "unknown-token") {
			// one root cause, own key: the refreshed session is saved BEFORE it is validated
			// (pkg/middleware/stored_session.go refreshSession -> Save, then validateSession)
			key = "peer-served-from-refresh-answer-that-failed-validation"
		}
		res.violations = append(res.violations, "C12/"+key+"\x00"+msg)
	}
	switch out.Aborted {
	case sched.StuckAborted:
		// a thread blocked outside the scheduler (a primitive of a dependency): inconclusive
		res.outcome = "given-up:" + sched.StuckAborted
		res.inconclusive = true
		return res
	case "deadlock":
		add("deadlock", fmt.Sprintf("no thread enabled, blocked: %v", out.Blocked))
		return res
	case "livelock", "horizon":
		add(out.Aborted, "requests keep waiting for the refresh lock")
		return res
	}
	for _, p := range out.Panics {
		add("panic", p)
	}
	if res.elapsed >= 2*time.Second {
		// the property's proviso (provider answers within the lock's duration) is not met
		res.outcome = "proviso-not-met"
		return res
	}
	// what each request's upstream call carried
	upTok := map[string]string{}
	for _, r := range e.up.Take() {
		upTok[r.Header.Get("X-Req")] = r.Header.Get("X-Forwarded-Access-Token")
		if em := r.Header.Get("X-Forwarded-Email"); em != "alice@example.com" {
			add("served-under-foreign-identity", fmt.Sprintf("request %s reached the upstream as %q (user %q); the session belongs to alice@example.com and the only other identity in play comes from a refresh answer that does not verify", r.Header.Get("X-Req"), em, r.Header.Get("X-Forwarded-User")))
		}
	}
	newToks := []string{}
	for _, t := range idp.IssuedAccessTokens() {
		if t != oldAT {
			newToks = append(newToks, t)
		}
	}
	var parts []string
	wantGrants := 1
	if !c12Rotates(sc.Behaviour) {
		wantGrants = 0
	}
	if sc.Behaviour == "refresh-bad-id-token" || sc.Behaviour == "refresh-nonce-mismatch" {
		// the provider grants (and rotates) once; the proxy discards the answer, later attempts
		// present the consumed token and are refused
		if idp.Grants > 1 {
			add("refresh-count", fmt.Sprintf("%d successful refresh grants", idp.Grants))
		}
	} else if idp.Grants != wantGrants {
		add("refresh-count", fmt.Sprintf("%d successful refresh grants at the identity provider for one stale session shared by %d concurrent requests (expected %d)", idp.Grants, sc.Threads, wantGrants))
	}
	for i := 0; i < sc.Threads; i++ {
		r := resps[i]
		if r == nil {
			add("no-response", fmt.Sprintf("request %d got no response", i))
			continue
		}
		tok, hit := upTok[fmt.Sprint(i)]
		parts = append(parts, fmt.Sprintf("%d:%d:%v", i, r.Status, hit))
		if r.Panic != nil {
			add("panic", fmt.Sprintf("request %d: %v at %s", i, r.Panic, r.PanicSite()))
			continue
		}
		if sc.Behaviour == "refresh-nonce-mismatch" && !hit && (r.Status == 403 || r.Status == 401) {
			// the refresh answer fails validation: treating the request as unauthenticated is the
			// prescribed outcome (a peer may still be served after re-validating the old session)
			continue
		}
		if (r.Status != 200 || !hit) && c12Rotates(sc.Behaviour) && idp.Grants > 0 {
			// own key: the provider HAS refreshed the session (and, rotating, consumed the old refresh
			// token), whatever form its answer had — and the request is turned away all the same
			add("refresh-granted-but-request-not-served", fmt.Sprintf("request %d of %d sharing a stale session was answered %d (upstream hit %v) although the identity provider granted the refresh (%d grant(s))", i, sc.Threads, r.Status, hit, idp.Grants))
			continue
		}
		if r.Status != 200 || !hit {
			add("request-not-served", fmt.Sprintf("request %d of %d sharing a refreshable stale session was answered %d (upstream hit %v)", i, sc.Threads, r.Status, hit))
			continue
		}
		switch {
		case c12Rotates(sc.Behaviour):
			if tok == oldAT {
				add("served-with-stale-token", fmt.Sprintf("request %d reached the upstream with the pre-refresh access token although the session was older than the refresh period", i))
			} else if len(newToks) > 0 && !containsStr(newToks, tok) {
				add("unknown-token", fmt.Sprintf("request %d carried access token %q, never issued", i, tok))
			}
		default:
			if tok != oldAT {
				add("unknown-token", fmt.Sprintf("request %d carried %q but no refresh happened", i, tok))
			}
		}
	}
	// the stored session must be the refreshed one: a follow-up request needs no further refresh
	if c12Rotates(sc.Behaviour) && len(res.violations) == 0 {
		g := idp.Grants
		r := world.Serve(e.px.H, &world.Req{Method: "GET", Target: "/app", Host: "app.example.com", Headers: [][2]string{{"Cookie", cookie}, {"X-Req", "after"}}})
		var tok string
		for _, u := range e.up.Take() {
			tok = u.Header.Get("X-Forwarded-Access-Token")
		}
		if r.Status != 200 || idp.Grants != g || tok == oldAT {
			add("refreshed-session-not-stored", fmt.Sprintf("a later request with the same cookie: status %d, further refresh grants %d, token old=%v", r.Status, idp.Grants-g, tok == oldAT))
		}
	}
	sort.Strings(parts)
	res.outcome = strings.Join(parts, " ") + fmt.Sprintf(" grants=%d", idp.Grants)
	return res
}

func containsStr(l []string, s string) bool {
	for _, x := range l {
		if x == s {
			return true
		}
	}
	return false
}

type c12Replay struct {
	Scenario c12Scenario `json:"scenario"`
	Choices  []int       `json:"choices"`
	Order    string      `json:"thread_order"`
	What     string      `json:"what"`
}

func c12Explore(c *Ctx, e *c12Env, sc c12Scenario, bound int, prune bool) {
	var first []int
	firstOrder := ""
	stats := explore.Run(explore.Config{Stop: schedStuck, MaxCost: bound, Prune: prune, Deadline: c.Deadline, Shard: c.Shard, Shards: c.Shards, ShardDepth: 3}, func(x *explore.Exec, own bool) {
		res := c12Exec(e, sc, x, prune, c.Seed)
		if !own {
			return
		}
		if res.inconclusive {
			c.Inc("executions_given_up_thread_blocked_outside_the_scheduler")
			c.Unstable("scenario %+v: %s %v", sc, res.outcome, res.out.Blocked)
			return
		}
		c.Inc("evaluations")
		c.Inc("traces_validated_against_impl")
		c.Add("transitions", int64(res.out.Steps))
		if res.pruned {
			c.Inc("pruned_executions")
		} else {
			c.Inc("complete_executions")
			if c.Distinct("distinct_outcomes", fmt.Sprint(sc)+res.outcome) {
				c.Note("outcome %+v: %s (steps %d, order %s)", sc, res.outcome, res.out.Steps, sched.DescribeOrder(res.out.Order))
			}
			c.SetMax("max_steps_per_execution", int64(res.out.Steps))
			c.Distinct("distinct_nontrivial", fmt.Sprint(sc)+sched.DescribeOrder(res.out.Order))
			if res.contended {
				c.Inc("nonvacuity_lock_contended")
			}
			if res.outcome == "proviso-not-met" {
				c.Inc("proviso_not_met")
			}
			for _, t := range res.tags {
				c.Inc(t)
			}
		}
		if first == nil {
			first = x.Choices()
			firstOrder = sched.DescribeOrder(res.out.Order)
			c.Sample(6, map[string]any{"scenario": sc, "thread_order": firstOrder, "outcome": res.outcome, "steps": res.out.Steps})
		}
		for _, v := range res.violations {
			kv := strings.SplitN(v, "\x00", 2)
			if kv[0] == "HARNESS" {
				c.Error("%s", kv[1])
				continue
			}
			choices := x.Choices()
			c.confirm(kv[0], fmt.Sprintf("%+v: %s [thread order %s]", sc, kv[1], sched.DescribeOrder(res.out.Order)),
				len(choices)*10+res.out.Switches+res.sizeBias,
				c12Replay{Scenario: sc, Choices: choices, Order: sched.DescribeOrder(res.out.Order), What: kv[1]},
				func() (string, bool) {
					r := c12Exec(e, sc, explore.Replay(choices, nil), false, c.Seed)
					for _, v2 := range r.violations {
						if strings.SplitN(v2, "\x00", 2)[0] == kv[0] {
							return kv[0], true
						}
					}
					return "", false
				})
		}
	})
	c.Add("states", int64(stats.States))
	c.SetMax("max_choice_depth", int64(stats.MaxDepth))
	if !stats.Exhaustive {
		c.Exhaustive = false
		c.Note("scenario %+v bound %d: not exhaustive (level completed %d, deadline hit %v)", sc, bound, stats.LevelCompleted, stats.DeadlineHit)
	}
	if first != nil && c.Shard == 0 {
		for i := 0; i < 2; i++ {
			r := c12Exec(e, sc, explore.Replay(first, nil), false, c.Seed)
			if o := sched.DescribeOrder(r.out.Order); o != firstOrder {
				c.Unstable("replay divergence in %+v: order %s vs %s (aborted %q)", sc, firstOrder, o, r.out.Aborted)
			}
		}
	}
}

// ---- sequential part

type c12SeqCase struct {
	Store     string `json:"store"`
	Behaviour string `json:"provider_behaviour"` // rotate | refresh-fails | no-refresh-token
	IDToken   string `json:"stored_id_token"`    // valid | expired | other-key
	Age       string `json:"age"`                // fresh | stale
	// cookie configuration ("" = the part's standard one: refresh 1 m, lifetime 1 h)
	CookieRefresh string `json:"cookie_refresh,omitempty"`
	CookieExpire  string `json:"cookie_expire,omitempty"` // "default" = flag not given, "0" = session cookie
	Expected      string `json:"expected"`
	Observed      string `json:"observed"`
}

func c12Seq(c *Ctx, up *world.Upstream) {
	n := 0
	for _, store := range []string{"cookie", "redis"} {
		behs := []string{"rotate", "refresh-fails", "no-refresh-token"}
		for _, shape := range c12RefreshShapes {
			behs = append(behs, "rotate-"+shape)
		}
		for _, beh := range behs {
			for _, idt := range []string{"valid", "expired", "other-key"} {
				for _, age := range []string{"fresh", "stale", "stale-by-1s"} {
					n++
					if !c.Mine(n) {
						continue
					}
					c12SeqOne(c, up, c12SeqCase{Store: store, Behaviour: beh, IDToken: idt, Age: age}, nil)
				}
			}
		}
		// cookie configurations: every refresh period x lifetime pair that validation accepts
		c.Info["seq_cookie_configurations_tried"] = len(c12CookieCfgs())
		for _, k := range c12CookieCfgs() {
			k := k
			for _, beh := range []string{"rotate", "refresh-fails"} {
				for _, idt := range []string{"valid", "expired"} {
					for _, age := range []string{"fresh", "stale", "stale-by-1s"} {
						n++
						if !c.Mine(n) {
							continue
						}
						exp := k.Expire
						if exp == "" {
							exp = "default"
						}
						c12SeqOne(c, up, c12SeqCase{Store: store, Behaviour: beh, IDToken: idt, Age: age, CookieRefresh: k.Refresh.String(), CookieExpire: exp}, &k)
					}
				}
			}
		}
	}
}

func c12SeqOne(c *Ctx, up *world.Upstream, cs c12SeqCase, cookie *c12CookieCfg) {
	world.ResetClock()
	world.SeedRandom(c.Seed, 0)
	idp := world.NewIdP()
	if cs.Behaviour == "no-refresh-token" {
		idp.NoRefreshToken = true
	}
	// "rotate-<shape>": refresh answers without expires_in / with expires_in 0 or a century / without
	// ID token (legal: OIDC Core 12.2) / without a new refresh token
	c12ApplyShape(idp, cs.Behaviour)
	ages := map[string]time.Duration{"fresh": 59 * time.Second, "stale": 2 * time.Minute, "stale-by-1s": 62 * time.Second}
	cookieFlags := []string{"--cookie-refresh=1m", "--cookie-expire=1h"}
	if cookie != nil {
		ages, cookieFlags = c12Ages(cookie.Refresh), cookie.flags()
		// the access token's own lifetime (the session's expiry) is not the subject: beyond every age probed
		idp.AccessTTL = 1000 * time.Hour
	}
	cfg := &ProxyCfg{Flags: append(append(baseFlags(up.URL()), "--email-domain=*", "--cookie-secure=false", "--pass-access-token=true"), cookieFlags...), Mutate: c12Patient}
	if cs.Store == "redis" {
		cfg.Redis = world.NewRedis()
		defer cfg.Redis.Close()
	}
	px, berr := buildProxy(cfg)
	if berr != nil {
		if cookie != nil && strings.HasPrefix(berr.Error(), "validate:") {
			// a refresh period that is not shorter than the cookie's lifetime: refused at start-up
			c.Inc("seq_cookie_configurations_refused_by_validation")
			return
		}
		c.Error("C12 seq: %+v: %v", cs, berr)
		return
	}
	if cookie != nil {
		c.Inc("seq_cookie_configuration_cases")
	}
	b := newBrowser(px, "http", "app.example.com")
	up.Take()
	resp, _, err := b.Login(idp, "alice", "/app")
	if err != nil || resp.Status != 302 {
		c.Error("C12 seq: login failed: %v %d", err, resp.Status)
		return
	}
	oldAT := idp.IssuedAccessTokens()[0]
	// replace the stored ID token where the case asks for an invalid one
	if cs.IDToken != "valid" {
		req, _ := b.Req("GET", "/").Parse()
		sess, lerr := verifSessionStore(px.P).Load(req)
		if lerr != nil || sess == nil {
			c.Error("C12 seq: cannot load session: %v", lerr)
			return
		}
		spec := &world.TokenSpec{}
		if cs.IDToken == "expired" {
			spec.Expiry = "expired"
		} else {
			spec.Signer = "other"
		}
		sess.IDToken = idp.MintIDToken(idp.Users["alice"], spec)
		rec := httptest.NewRecorder()
		if serr := verifSessionStore(px.P).Save(rec, req, sess); serr != nil {
			c.Error("C12 seq: cannot save session: %v", serr)
			return
		}
		b.Jar.SetCookies("http", "app.example.com", "/", rec.Header())
	}
	if cs.Behaviour == "refresh-fails" {
		idp.RefreshFails = true
	}
	world.Advance(ages[cs.Age])
	callsBefore := idp.NumCalls()
	grantsBefore := idp.Grants
	up.Take()
	r := b.Get("/app")
	hits := up.Take()
	served := r.Status == 200 && len(hits) == 1
	refreshed := idp.Grants > grantsBefore
	tokenCalls := 0
	for _, cl := range idp.Calls[callsBefore:] {
		if cl.Endpoint == "token" {
			tokenCalls++
		}
	}
	stale := cs.Age != "fresh"
	c.Inc("evaluations")
	c.Inc("seq_cases")
	c.Distinct("distinct_nontrivial", fmt.Sprintf("seq%+v", cs))
	// reference (Appendix B "Refresh"): a stale session is served only after a successful
	// refresh or a passed re-validation (OIDC: the stored ID token verifies) in that request
	idOK := cs.IDToken == "valid"
	var mustServe, mustRefuse bool
	switch {
	case !stale:
		mustServe = true // younger than the refresh period: no re-validation is required
	case c12Rotates(cs.Behaviour) && cs.Behaviour != "rotate-no-id-token":
		// the refresh replaces the ID token with a fresh valid one (whatever else the answer leaves out)
		mustServe = true
	case cs.Behaviour == "rotate-no-id-token":
		// the refresh succeeds but the stored ID token stays: re-validation decides
		mustServe, mustRefuse = idOK, !idOK
	default:
		mustServe, mustRefuse = idOK, !idOK
	}
	cs.Expected = fmt.Sprintf("mustServe=%v mustRefuse=%v", mustServe, mustRefuse)
	cs.Observed = fmt.Sprintf("status=%d served=%v refreshed=%v tokenCalls=%d", r.Status, served, refreshed, tokenCalls)
	c.Sample(4, cs)
	if r.Panic != nil {
		c.Violate("C12/seq-panic", fmt.Sprintf("%+v: panic %v", cs, r.Panic), 1, cs)
		return
	}
	if mustRefuse && served {
		c.Violate("C12/seq-stale-session-honoured-without-validation", fmt.Sprintf("%+v: a session older than the refresh period whose refresh did not succeed and whose ID token does not verify was served", cs), 1, cs)
	}
	if mustServe && !served && stale && refreshed {
		// own key: the provider HAS refreshed the session (and consumed the old refresh token) and the
		// request is turned away all the same
		c.Violate("C12/seq-refresh-granted-but-request-refused", fmt.Sprintf("%+v: the identity provider granted the refresh inside this request, yet it was not served (%s; session cookie deleted: %v)", cs, cs.Observed, c12rCleared(r, px.Opts.Cookie.Name)), 1, cs)
	} else if mustServe && !served {
		c.Violate("C12/seq-valid-session-refused", fmt.Sprintf("%+v: %s", cs, cs.Observed), 1, cs)
	}
	if stale && served && c12Rotates(cs.Behaviour) {
		if !refreshed {
			c.Violate("C12/seq-stale-session-honoured-without-refresh", fmt.Sprintf("%+v: served although the provider saw no successful refresh grant (%s)", cs, cs.Observed), 1, cs)
		} else if tok := hits[0].Header.Get("X-Forwarded-Access-Token"); tok == oldAT {
			c.Violate("C12/seq-served-with-stale-token", fmt.Sprintf("%+v: the refreshing request itself reached the upstream with the old access token", cs), 1, cs)
		} else {
			// later requests and userinfo carry the new tokens, no second refresh
			g := idp.Grants
			r2 := b.Get("/app")
			h2 := up.Take()
			if r2.Status != 200 || len(h2) != 1 || h2[0].Header.Get("X-Forwarded-Access-Token") != tok || idp.Grants != g {
				c.Violate("C12/seq-refreshed-session-not-stored", fmt.Sprintf("%+v: follow-up request status %d, grants +%d", cs, r2.Status, idp.Grants-g), 1, cs)
			} else {
				// a second refresh cycle: the session must hold the ROTATED refresh token, so the
				// provider (single-use tokens, reuse revokes the family) grants again and the
				// request carries yet newer tokens
				world.Advance(ages["stale-by-1s"])
				r3 := b.Get("/app")
				h3 := up.Take()
				c.Inc("seq_second_refresh_cycles")
				switch {
				case r3.Status != 200 || len(h3) != 1:
					c.Violate("C12/seq-second-refresh-fails", fmt.Sprintf("%+v: the second refresh cycle was answered %d (grants now %d): the session did not keep the tokens of the first refresh", cs, r3.Status, idp.Grants), 2, cs)
				case idp.Grants != g+1:
					c.Violate("C12/seq-second-refresh-fails", fmt.Sprintf("%+v: second stale request served without a successful refresh grant (grants %d -> %d)", cs, g, idp.Grants), 2, cs)
				case h3[0].Header.Get("X-Forwarded-Access-Token") == tok || h3[0].Header.Get("X-Forwarded-Access-Token") == oldAT:
					c.Violate("C12/seq-served-with-stale-token", fmt.Sprintf("%+v: second refresh cycle reached the upstream with an older access token", cs), 2, cs)
				}
			}
		}
	}
	if !stale && refreshed {
		c.Inc("refreshed_before_period") // not a violation of the statement; counted
	}
	if mustRefuse && !served {
		// unauthenticated answer and the cookie is cleared: the jar no longer authenticates
		c.Inc("seq_refused")
		deleted := false
		for _, ck := range r.Cookies() {
			if ck.Name == px.Opts.Cookie.Name && ck.MaxAge < 0 {
				deleted = true
			}
		}
		if !deleted {
			c.Violate("C12/seq-cookie-not-cleared", fmt.Sprintf("%+v: refused with status %d but no deletion of the session cookie", cs, r.Status), 1, cs)
		}
		if r.Status != http.StatusForbidden && r.Status != http.StatusUnauthorized && r.Status != http.StatusFound {
			c.Violate("C12/seq-unexpected-response-class", fmt.Sprintf("%+v: status %d", cs, r.Status), 1, cs)
		}
	}
	if served {
		c.Inc("seq_served")
	}
}

func init() {
	register(&checkDef{
		id:    "C12",
		level: "model_checking",
		rule:  "all interleavings (visited-state pruning; quick: 2 threads unbounded + 3 threads preemption bound 2; thorough: 3 threads unbounded, 2 threads re-run without pruning) of 2-3 real requests sharing one stale session at every store, lock, identity-provider and retry-sleep step of the real proxy with the Redis store, for provider behaviours {rotating single-use refresh tokens, refresh fails, no refresh token}, plus the late-third-request variant; sequential histories for both stores x provider behaviour x stored ID token {valid, expired, other key} x age; part 'remote' (provider types that re-validate by CALLING the provider: keycloak = no refresh grant, google = refresh grant + validation call): every history of length 4 (thorough 5) over {login, advance 40 s, advance 90 s, request under validation answers {200, 401, 500, connection reset} x refresh grant {granted, refused}} that contains an advance and ends in a request, both stores, judged request by request against a reference model (stale => served only after a positive provider answer inside the request that precedes the upstream delivery, else unauthenticated + cookie deleted + store entry gone; new access token after a refresh), and all interleavings of 2 (thorough 3) requests sharing one stale session for both provider types x both stores x validation answers {200, 401, [500,] reset, 200-then-401, 401-then-200} x refresh {granted, refused}; distinct_nontrivial = distinct complete thread orders / sequential cases / histories with a request on a session past the refresh period",
		assumptions: []string{
			"miniredis models Redis command atomicity (SET NX PX, Lua EVAL for redislock)",
			"the refresh lock's TTL is not reached (property proviso): executions whose virtual duration reaches 2 s are counted as proviso_not_met and not judged",
			"interleavings are sequentially consistent at the granularity of store / lock / provider / sleep operations; in-process data races are outside this check",
			"ID-token expiry is decided by go-oidc on the real clock: expired tokens are expired on both clocks",
			"part 'remote': the provider answers a validation call 200 only for an access token it has issued; refresh tokens are not rotated (neither provider type stores a rotated one); the upstream delivery is not a scheduling point, its order relative to provider answers is recorded by the upstream itself",
		},
		shards: func(tier string) int { return 16 },
		run: func(c *Ctx) {
			up := world.NewUpstream("seq")
			if os.Getenv("VERIF_C12_REMOTE_ONLY") != "" {
				vatomic.Hooks = false
				c12rSched(c)
				c12rCloseEnvs()
				return
			}
			c12Seq(c, up)
			up.Close()
			c12rSeq(c)     // providers that re-validate by calling the provider: histories
			c12rConfigs(c) // ... and cookie configurations
			defer c12rCloseEnvs()
			vatomic.Hooks = false // the e-mail validator's atomic load is not this check's subject (C20)
			e := c12NewEnv()
			defer e.up.Close()
			defer e.redis.Close()
			if p := os.Getenv("VERIF_C12_DEBUG"); p != "" {
				c12Debug, _ = os.Create(p)
				sched.DebugKeys = func(k string) { fmt.Fprintln(c12Debug, "  FULL", k) }
			}
			type job struct {
				sc    c12Scenario
				bound int
				prune bool
			}
			var jobs []job
			for _, beh := range []string{"rotate", "refresh-fails", "no-refresh-token", "refresh-bad-id-token"} {
				jobs = append(jobs, job{c12Scenario{Threads: 2, Behaviour: beh}, 1000, true})
				if c.Quick() {
					if beh == "rotate" {
						jobs = append(jobs, job{c12Scenario{Threads: 3, Behaviour: beh}, 2, true})
						jobs = append(jobs, job{c12Scenario{Threads: 3, Late: true, Behaviour: beh}, 2, true})
					}
				} else {
					jobs = append(jobs, job{c12Scenario{Threads: 3, Behaviour: beh}, 1000, true})
					jobs = append(jobs, job{c12Scenario{Threads: 3, Late: true, Behaviour: beh}, 1000, true})
					jobs = append(jobs, job{c12Scenario{Threads: 2, Behaviour: beh}, 1000, false}) // cross-check of the pruning abstraction
				}
			}
			// every form a granted refresh may legally have: both requests are served with the new tokens
			for _, shape := range c12RefreshShapes {
				jobs = append(jobs, job{c12Scenario{Threads: 2, Behaviour: "rotate-" + shape}, 1000, true})
				if !c.Quick() {
					jobs = append(jobs, job{c12Scenario{Threads: 3, Behaviour: "rotate-" + shape}, 1000, true})
				}
			}
			c.Info["scenarios"] = len(jobs) + 1
			for _, j := range jobs {
				if c.Expired() {
					return
				}
				c12Explore(c, e, j.sc, j.bound, j.prune)
			}
			// nonce verification on: a refresh answer whose validation fails after it was saved
			en := c12NewEnv("--insecure-oidc-skip-nonce=false")
			defer en.up.Close()
			defer en.redis.Close()
			c12Explore(c, en, c12Scenario{Threads: 2, Behaviour: "refresh-nonce-mismatch"}, 1000, true)
			c12rSched(c) // ... and concurrent requests
		},
		post: func(c *Ctx) {
			if c.Counters["nonvacuity_lock_contended"] == 0 {
				c.Error("vacuous: no execution in which a second request found the refresh lock taken")
			}
			if c.Counters["seq_refused"] == 0 || c.Counters["seq_served"] == 0 {
				c.Error("vacuous sequential part: served=%d refused=%d", c.Counters["seq_served"], c.Counters["seq_refused"])
			}
			if c.Counters["seq_cookie_configuration_cases"] == 0 || c.Counters["seq_cookie_configurations_refused_by_validation"] == 0 {
				c.Error("vacuous cookie-configuration product: cases=%d refused by validation=%d", c.Counters["seq_cookie_configuration_cases"], c.Counters["seq_cookie_configurations_refused_by_validation"])
			}
			c12rPost(c)
		},
		replay: func(c *Ctx, raw json.RawMessage) string {
			var rp c12Replay
			if err := json.Unmarshal(raw, &rp); err != nil || rp.Scenario.Threads == 0 {
				return "not a schedule case"
			}
			e := c12NewEnv()
			defer e.up.Close()
			defer e.redis.Close()
			defer c12rCloseEnvs()
			r := c12Exec(e, rp.Scenario, explore.Replay(rp.Choices, nil), false, c.Seed)
			for _, v := range r.violations {
				kv := strings.SplitN(v, "\x00", 2)
				c.Violate(kv[0], kv[1], 1, rp)
			}
			return fmt.Sprintf("order %s outcome %s violations %d", sched.DescribeOrder(r.out.Order), r.outcome, len(r.violations))
		},
	})
}
