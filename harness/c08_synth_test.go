//go:build verif

package main

import (
	"context"
	"fmt"
	"reflect"
	"unsafe"

	"github.com/oauth2-proxy/oauth2-proxy/v7/pkg/apis/sessions"
	"github.com/oauth2-proxy/oauth2-proxy/v7/providers"
)

// A provider that hands the proxy a chosen identity. The rules of C08 apply to "a login whose
// identity fails them" whatever provider produced the identity; the OIDC provider of the closed
// world cannot produce some identities at all (it refuses a login without e-mail before any rule
// is looked at), other providers can (the default EnrichSession requires nothing). Everything not
// overridden — login URL, provider data, group authorisation, bearer tokens — is the real
// provider's; the Provider interface is the repository's own extension point.
type c08SynthProvider struct {
	providers.Provider
	email  string
	groups []string
}

func (p *c08SynthProvider) Redeem(_ context.Context, _, _, _ string) (*sessions.SessionState, error) {
	s := &sessions.SessionState{User: "synth-sub", Email: p.email, Groups: append([]string{}, p.groups...), AccessToken: "synth-access-token"}
	s.CreatedAtNow()
	return s, nil
}
func (p *c08SynthProvider) GetEmailAddress(_ context.Context, _ *sessions.SessionState) (string, error) {
	return p.email, nil
}
func (p *c08SynthProvider) EnrichSession(_ context.Context, _ *sessions.SessionState) error {
	return nil
}
func (p *c08SynthProvider) ValidateSession(_ context.Context, _ *sessions.SessionState) bool {
	return true
}
func (p *c08SynthProvider) RefreshSession(_ context.Context, _ *sessions.SessionState) (bool, error) {
	return false, nil
}

// verifSetProvider installs pr as the proxy's provider (the field is found by its type) and returns
// a function that puts the original back.
func verifSetProvider(p *OAuthProxy, wrap func(real providers.Provider) providers.Provider) (restore func(), err error) {
	iface := reflect.TypeOf((*providers.Provider)(nil)).Elem()
	rv := reflect.ValueOf(p).Elem()
	for i := 0; i < rv.NumField(); i++ {
		f := rv.Field(i)
		if f.Kind() == reflect.Interface && f.Type() == iface {
			v := reflect.NewAt(f.Type(), unsafe.Pointer(f.UnsafeAddr())).Elem()
			old, _ := v.Interface().(providers.Provider)
			if old == nil {
				continue
			}
			v.Set(reflect.ValueOf(wrap(old)))
			return func() { v.Set(reflect.ValueOf(old)) }, nil
		}
	}
	return nil, fmt.Errorf("OAuthProxy has no field of type providers.Provider")
}
