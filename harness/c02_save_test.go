//go:build verif

package main

import (
	"bytes"
	"crypto/sha256"
	"encoding/base64"
	"encoding/hex"
	"encoding/json"
	"fmt"
	"net/http"
	"net/http/httptest"
	"net/url"
	"sort"
	"strconv"
	"strings"
	"time"

	"github.com/oauth2-proxy/oauth2-proxy/v7/pkg/apis/sessions"
	"github.com/oauth2-proxy/oauth2-proxy/v7/pkg/cookies"
	"github.com/oauth2-proxy/oauth2-proxy/v7/pkg/encryption"
	"github.com/oauth2-proxy/oauth2-proxy/v7/verifx/world"
)

// C02 supplement: what the CLIENT PRESENTS on a request that SAVES a session.
//
// The alteration classes of c02_test.go hand altered cookies to the loaders. This part hands them to
// the requests that WRITE a credential: the login callback, the refresh of a stale session, the
// htpasswd form login, SessionStore.Save itself (and, as the one request that deletes, sign-out).
// "Nothing that the proxy did not itself produce is ever accepted as a session" has a second half
// there: a cookie the proxy would refuse to load must not decide which credential the proxy issues
// next (session fixation: the session is stored under an ID / key the sender of the cookie knows,
// and the proxy signs the sender's ticket), must not become loadable through the save, must not
// touch somebody else's store entry, and a CSRF cookie that does not verify must not let a login
// callback through.
//
// Enumerated completely per deployment (secret x cookie-expire x store):
//   saving request  x  source of the planted value  x  timestamp age  x  signature  x  placement  x  header order
// Every flow is a fresh sequence (victim's steps up to the saving request, attacker material issued
// beforehand so that every genuine cookie has been validated by the process before an altered one
// with the same signature arrives), executed through ServeHTTP on requests parsed from raw bytes.
//
// Oracle, from the statement only (F = planted cookie the proxy did not issue in this form; all
// readings the statement leaves open are admitted, see the assumptions of the check):
//   1. the credential issued on the saving request loads, and loads as the user who signed in;
//   2. F alone still does not load afterwards;
//   3. F next to the issued credential (either header order) loads nothing or exactly the issued session;
//   4. no field (value, signature) of the issued cookie repeats a field of F; for tickets neither the
//      ID nor the key of F reappears in the issued ticket;
//   5. no store entry created or rewritten by the request is named by a string spelled out in F
//      (raw or in any base64/hex layer), and none can be opened with any key-sized window of F;
//   6. a bystander's live credential loads the same session before and after;
//   7. a callback whose only CSRF cookie does not verify issues no session and writes no store entry.
// A planted cookie that IS a live credential of the same proxy (unaltered, inside its lifetime) may be
// re-used by the save (the repository documents "generate (or reuse an existing) ticket"): counted as
// ambiguous, never alarmed. An unaltered but expired credential that is taken up again is counted
// under its own counter and not alarmed either (the proxy produced it; lifetime is C09's subject).

type c02sCred struct {
	Cookies    []ck
	W, V, T, S string
	Truth      string
	At         time.Time
}

type c02sDep struct {
	Label, Secret, Store string
	Expire               time.Duration
	px                   *Proxy
	redis                *world.Redis
	name                 string
	other                *c02sDep // same shape, another secret, its own store: source of "foreign" material
	bobOld, bobLive      *c02sCred
	foreignBob           *c02sCred
}

type c02sSpec struct {
	Kind  string `json:"kind"` // always "save-sequence"
	Dep   string `json:"deployment"`
	Path  string `json:"saving_request"`
	Src   string `json:"planted_value_from"`
	TS    string `json:"planted_timestamp"`
	Sig   string `json:"planted_signature"`
	Place string `json:"placement"`
	Order string `json:"header_order"`
}

func (s *c02sSpec) String() string {
	return fmt.Sprintf("%s / %s / value:%s timestamp:%s signature:%s placed:%s order:%s", s.Dep, s.Path, s.Src, s.TS, s.Sig, s.Place, s.Order)
}

type c02sFinding struct {
	key, msg string
}

type c02sRun struct {
	c      *Ctx
	idp    *world.IdP
	up     *world.Upstream
	deps   []*c02sDep
	closer []func()
}

const c02sForeignSecret = "fedcba9876543210fedcba9876543210"

var (
	c02sSrcs  = []string{"forged-ticket-new-id", "forged-ticket-existing-id", "foreign-deployment", "bystander-live", "bystander-expired"}
	c02sTSs   = []string{"as-source", "now", "just-expired", "just-inside", "long-expired", "future-inside-leeway", "future"}
	c02sSigs  = []string{"kept", "garbage", "empty", "zeros", "other-secret", "own-secret-for-csrf-name", "own-secret-for-sibling-name"}
	c02sCSRFs = []string{"own", "foreign-deployment", "garbage"}
)

func c02sNewCred(cks []ck) *c02sCred {
	cr := &c02sCred{Cookies: cks, At: world.Now()}
	for _, c := range cks {
		cr.W += c.Value
	}
	f := strings.Split(cr.W, "|")
	if len(f) != 3 {
		return nil
	}
	cr.V, cr.T, cr.S = f[0], f[1], f[2]
	return cr
}

func (d *c02sDep) load(hdr string) (v *sessions.SessionState, snap string, ok bool) {
	req := c02Request(hdr)
	if req == nil {
		return nil, "", false
	}
	defer func() {
		if p := recover(); p != nil {
			v, snap, ok = nil, "", false
		}
	}()
	s, err := verifSessionStore(d.px.P).Load(req)
	if err != nil || s == nil {
		return nil, "", false
	}
	return s, c02Snap(s), true
}

func (r *c02sRun) mkDep(label, secret string, e time.Duration, store string) (*c02sDep, error) {
	d := &c02sDep{Label: label, Secret: secret, Expire: e, Store: store}
	flags := []string{
		"--provider=oidc", "--oidc-issuer-url=" + world.Issuer, "--client-id=" + world.ClientID, "--client-secret=" + world.ClientSecret,
		"--http-address=-", "--upstream=" + r.up.URL(), "--cookie-secret=" + secret, "--cookie-expire=" + e.String(), "--cookie-refresh=1m",
		"--email-domain=*", "--cookie-secure=false", "--htpasswd-file=" + writeHtpasswd(map[string]string{"hugo": "pw1"}), "--display-htpasswd-form=true",
	}
	cfg := &ProxyCfg{Flags: flags}
	if store == "redis" {
		d.redis = world.NewRedis()
		r.closer = append(r.closer, d.redis.Close)
		cfg.Redis = d.redis
		cfg.Flags = append(cfg.Flags, "--cookie-csrf-per-request=true")
	} else {
		cfg.Flags = append(cfg.Flags, "--code-challenge-method=S256")
	}
	px, err := buildProxy(cfg)
	if err != nil {
		return nil, err
	}
	d.px, d.name = px, px.Opts.Cookie.Name
	return d, nil
}

func (r *c02sRun) build() bool {
	foreign := map[string]*c02sDep{}
	for _, s := range c02Secrets(r.c.Quick()) {
		for _, e := range []time.Duration{0, time.Hour} {
			for _, store := range []string{"cookie", "redis"} {
				d, err := r.mkDep(fmt.Sprintf("%s/expire=%s/%s", s.Label, e, store), s.Value, e, store)
				if err != nil {
					r.c.Error("C02 save sequences: deployment %s/%s/%s: %v", s.Label, e, store, err)
					return false
				}
				fk := e.String() + store
				if foreign[fk] == nil {
					f, err := r.mkDep("foreign/expire="+e.String()+"/"+store, c02sForeignSecret, e, store)
					if err != nil {
						r.c.Error("C02 save sequences: foreign deployment: %v", err)
						return false
					}
					foreign[fk] = f
				}
				d.other = foreign[fk]
				r.deps = append(r.deps, d)
			}
		}
	}
	// the bystander's credential of long ago, then let every finite cookie lifetime pass
	for _, d := range r.deps {
		if _, cr, err := r.login(d, "bob"); err == nil {
			d.bobOld = cr
		} else {
			r.c.Error("C02 save sequences: %s: bystander login: %v", d.Label, err)
			return false
		}
	}
	world.Advance(time.Hour + 2*time.Second)
	return true
}

// login runs a complete login of user at d and returns the browser and the credential it received.
func (r *c02sRun) login(d *c02sDep, user string) (*Browser, *c02sCred, error) {
	b := newBrowser(d.px, "http", c02Host)
	resp, _, err := b.Login(r.idp, user, "/after")
	if err != nil {
		return nil, nil, err
	}
	if resp.Status != 302 {
		return nil, nil, fmt.Errorf("callback status %d", resp.Status)
	}
	cr := c02sNewCred(c02SessionCookies(d.name, resp.Cookies()))
	if cr == nil {
		return nil, nil, fmt.Errorf("login set no value|timestamp|signature session cookie")
	}
	v, snap, ok := d.load(c02Header(cr.Cookies))
	if !ok || v.Email != r.idp.Users[user].Email {
		return nil, nil, fmt.Errorf("the credential of the login does not load as %s", user)
	}
	cr.Truth = snap
	return b, cr, nil
}

// materials (re-)issues what the attacker holds: the bystander's live credential (validated by the
// process, so that whatever a verifier remembers about it is remembered), one of another deployment.
func (r *c02sRun) materials(d *c02sDep) error {
	if d.bobLive == nil || world.Now().Sub(d.bobLive.At) > 10*time.Minute {
		_, cr, err := r.login(d, "bob")
		if err != nil {
			return err
		}
		d.bobLive = cr
	}
	if d.bobOld == nil {
		_, cr, err := r.login(d, "bob")
		if err != nil {
			return err
		}
		d.bobOld = cr
	}
	if d.other.foreignBob == nil || world.Now().Sub(d.other.foreignBob.At) > 10*time.Minute {
		_, cr, err := r.login(d.other, "bob")
		if err != nil {
			return err
		}
		d.other.foreignBob = cr
	}
	return nil
}

// c02sParseTicket reads a ticket value the way the existing ticket splices do (dotted triple).
func c02sParseTicket(v string) (id string, secret []byte, ok bool) {
	raw, err := base64.URLEncoding.DecodeString(v)
	if err != nil {
		return "", nil, false
	}
	p := strings.Split(string(raw), ".")
	if len(p) != 3 {
		return "", nil, false
	}
	idb, e1 := base64.RawURLEncoding.DecodeString(p[1])
	sec, e2 := base64.RawURLEncoding.DecodeString(p[2])
	if e1 != nil || e2 != nil || len(idb) == 0 || len(sec) == 0 {
		return "", nil, false
	}
	return string(idb), sec, true
}

func c02sTicketValue(id string, key []byte) string {
	return base64.URLEncoding.EncodeToString([]byte("v2." + base64.RawURLEncoding.EncodeToString([]byte(id)) + "." + base64.RawURLEncoding.EncodeToString(key)))
}

func c02sAge(ts string, srcT string, now int64, expire time.Duration) string {
	e := int64(expire / time.Second)
	if e == 0 {
		e = 3600
	}
	switch ts {
	case "as-source":
		return srcT
	case "now":
		return strconv.FormatInt(now, 10)
	case "just-expired":
		return strconv.FormatInt(now-e-1, 10)
	case "just-inside":
		return strconv.FormatInt(now-e+2, 10)
	case "long-expired":
		return strconv.FormatInt(now-10*365*86400, 10)
	case "future-inside-leeway":
		return strconv.FormatInt(now+240, 10)
	}
	return strconv.FormatInt(now+3600, 10)
}

func c02sSignature(sig, srcS, ownSecret, name, v, t string) string {
	switch sig {
	case "kept":
		return srcS
	case "garbage":
		return "AAAA"
	case "empty":
		return ""
	case "zeros":
		return base64.URLEncoding.EncodeToString(make([]byte, 32))
	case "other-secret":
		return c02Sign(c02sForeignSecret, name, v, t)
	case "own-secret-for-csrf-name":
		return c02Sign(ownSecret, name+"_csrf", v, t) // what the same proxy would put under its CSRF cookie name
	}
	return c02Sign(ownSecret, "_sibling", v, t) // what a deployment sharing the secret but not the cookie name issues
}

// plant builds the planted cookie(s) of a session-kind spec. class: "live" (an unaltered credential of
// this proxy inside its lifetime), "expired-genuine" (unaltered, outside), "forged" (everything else).
func (r *c02sRun) plant(d *c02sDep, sp *c02sSpec) (cks []ck, w string, class string, src *c02sCred, ok bool) {
	now := world.Now().Unix()
	var v, srcT, srcS string
	seed := sha256.Sum256([]byte(sp.String()))
	switch sp.Src {
	case "forged-ticket-new-id":
		v = c02sTicketValue(d.name+"-"+hex.EncodeToString(seed[:16]), seed[16:32])
	case "forged-ticket-existing-id":
		id, _, pok := c02sParseTicket(d.bobLive.V)
		if !pok {
			return nil, "", "", nil, false
		}
		v = c02sTicketValue(id, seed[16:32])
	case "foreign-deployment":
		src = d.other.foreignBob
	case "bystander-live":
		src = d.bobLive
	case "bystander-expired":
		src = d.bobOld
	}
	if src != nil {
		v, srcT, srcS = src.V, src.T, src.S
	}
	t := c02sAge(sp.TS, srcT, now, d.Expire)
	s := c02sSignature(sp.Sig, srcS, d.Secret, d.name, v, t)
	w = v + "|" + t + "|" + s
	switch sp.Place {
	case "name":
		cks = []ck{{d.name, w}}
	case "name_0":
		cks = []ck{{d.name + "_0", w}}
	default:
		cks = []ck{{d.name + "_0", w[:len(w)/2]}, {d.name + "_1", w[len(w)/2:]}}
	}
	class = "forged"
	for _, g := range []*c02sCred{d.bobLive, d.bobOld} {
		if g != nil && g.W == w {
			ts, _ := strconv.ParseInt(g.T, 10, 64)
			if d.Expire == 0 || now-ts < int64(d.Expire/time.Second) {
				class = "live"
			} else {
				class = "expired-genuine"
			}
			src = g
		}
	}
	return cks, w, class, src, true
}

// c02sIssued is what a browser holds of the session cookie after the response: Set-Cookie lines are
// applied in order, a later line for the same name replaces an earlier one, an expiring line deletes.
func c02sIssued(name string, list []*http.Cookie) []ck {
	last := map[string]*http.Cookie{}
	var order []string
	for _, c := range list {
		if c.Name == name || strings.HasPrefix(c.Name, name+"_") && !strings.HasSuffix(c.Name, "_csrf") {
			if _, seen := last[c.Name]; !seen {
				order = append(order, c.Name)
			}
			last[c.Name] = c
		}
	}
	var out []ck
	for _, n := range order {
		if c := last[n]; c.Value != "" && c.MaxAge >= 0 {
			out = append(out, ck{c.Name, c.Value})
		}
	}
	return out
}

func c02sJoinHeader(order string, planted []ck, jar string) string {
	p := c02Header(planted)
	switch {
	case jar == "":
		return p
	case p == "":
		return jar
	case order == "first":
		return p + "; " + jar
	}
	return jar + "; " + p
}

func (d *c02sDep) snapshot() map[string]string {
	if d.redis == nil {
		return nil
	}
	out := map[string]string{}
	for _, k := range d.redis.Keys() {
		if v, err := d.redis.M.Get(k); err == nil {
			out[k] = v
		}
	}
	return out
}

func c02sChanged(pre, post map[string]string) []string {
	var out []string
	for k, v := range post {
		if old, ok := pre[k]; !ok || old != v {
			out = append(out, k)
		}
	}
	sort.Strings(out)
	return out
}

// c02sBlobs: the planted text and everything obtainable from it by decoding separated components.
func c02sBlobs(w string) [][]byte {
	var blobs [][]byte
	c02Derive(w, 3, &blobs)
	seen := map[string]bool{}
	var out [][]byte
	for _, b := range blobs {
		if len(b) >= 8 && !seen[string(b)] {
			seen[string(b)] = true
			out = append(out, b)
		}
	}
	return out
}

func c02sOpensWithWindowOf(blobs [][]byte, val []byte) string {
	tried := map[string]bool{}
	for bi, mat := range blobs {
		for _, size := range []int{16, 24, 32} {
			for off := 0; off+size <= len(mat); off++ {
				k := mat[off : off+size]
				if tried[string(k)] {
					continue
				}
				tried[string(k)] = true
				if ci, err := encryption.NewGCMCipher(k); err == nil {
					if pt, err := ci.Decrypt(val); err == nil && len(pt) > 0 {
						return fmt.Sprintf("AES-GCM with the %d bytes at offset %d of layer %d of the planted cookie", size, off, bi)
					}
				}
			}
		}
	}
	return ""
}

// flow executes one sequence and evaluates the oracle. count: first execution (counters are kept).
func (r *c02sRun) flow(d *c02sDep, sp *c02sSpec, count bool) (fs []c02sFinding) {
	c := r.c
	inc := func(k string) {
		if count {
			c.Inc(k)
		}
	}
	bad := func(key, format string, a ...any) {
		fs = append(fs, c02sFinding{key, sp.String() + ": " + fmt.Sprintf(format, a...)})
	}
	if sp.Path == "callback-csrf" {
		return r.csrfFlow(d, sp, count)
	}

	// the victim's steps up to the saving request
	var b *Browser
	var target, method, body string
	var direct *sessions.SessionState
	method = "GET"
	switch sp.Path {
	case "callback":
		b = newBrowser(d.px, "http", c02Host)
		_, loginURL, err := b.Start("/after")
		if err != nil {
			c.Error("C02 save sequences: %s: start: %v", sp, err)
			return nil
		}
		cb, _, err := r.idp.Authorize(loginURL, "alice")
		if err != nil {
			c.Error("C02 save sequences: %s: provider: %v", sp, err)
			return nil
		}
		u, _ := url.Parse(cb)
		target = u.RequestURI()
	case "refresh", "sign-out":
		var err error
		if b, _, err = r.login(d, "alice"); err != nil {
			c.Error("C02 save sequences: %s: login of the victim: %v", sp, err)
			return nil
		}
		target = "/page"
		if sp.Path == "refresh" {
			world.Advance(2 * time.Minute)
		} else {
			target = d.px.Opts.ProxyPrefix + "/sign_out"
		}
	case "form":
		b = newBrowser(d.px, "http", c02Host)
		method, target, body = "POST", d.px.Opts.ProxyPrefix+"/sign_in", url.Values{"username": {"hugo"}, "password": {"pw1"}}.Encode()
	case "direct":
		direct = c02Session("oidc", "vera")
	case "direct-2part":
		direct = c02Session("two-part", "vera")
	}
	if err := r.materials(d); err != nil {
		c.Error("C02 save sequences: %s: attacker material: %v", sp, err)
		return nil
	}
	planted, w, class, src, ok := r.plant(d, sp)
	if !ok {
		inc("save_specs_not_constructible")
		return nil
	}
	plantedHdr := c02Header(planted)
	_, preSnap, preLoads := d.load(plantedHdr)
	if class == "live" && !preLoads {
		class = "genuine-not-read" // a live credential placed where this store does not read it
	}
	if class == "forged" && preLoads {
		bad("C02/foreign-credential-accepted/save-sequence", "the planted cookie, which this proxy never issued in this form, loads (before any save): %s", clipMid(plantedHdr, 160))
		return fs
	}
	bystander := d.bobLive
	pre := d.snapshot()

	// the saving request
	jar := ""
	if b != nil {
		jar = b.Jar.Header("http", c02Host, pathOf(target))
	}
	hdr := c02sJoinHeader(sp.Order, planted, jar)
	var setCookies []*http.Cookie
	if direct != nil {
		rec := httptest.NewRecorder()
		req := c02Request(hdr)
		if req == nil {
			inc("save_requests_rejected_by_http_parser")
			return nil
		}
		func() {
			defer func() {
				if p := recover(); p != nil {
					inc("save_panics_counted_as_not_saved")
				}
			}()
			if err := verifSessionStore(d.px.P).Save(rec, req, direct); err != nil {
				inc("save_direct_save_errors")
			}
		}()
		setCookies = (&http.Response{Header: rec.Header()}).Cookies()
	} else {
		rq := &world.Req{Method: method, Target: target, Host: c02Host, Body: body, Headers: [][2]string{{"Cookie", hdr}}}
		if body != "" {
			rq.Headers = append(rq.Headers, [2]string{"Content-Type", "application/x-www-form-urlencoded"})
		}
		resp := world.Serve(d.px.H, rq)
		inc("requests_through_ServeHTTP")
		if resp.Panic != nil {
			inc("save_panics_counted_as_not_saved")
		}
		setCookies = resp.Cookies()
	}
	issued := c02sIssued(d.name, setCookies)
	saved := len(issued) > 0
	post := d.snapshot()
	changed := c02sChanged(pre, post)

	inc("evaluations")
	inc("save_flows")
	inc("save_class:" + class)
	tag := "save_path:" + sp.Path + ":" + d.Store
	if saved {
		inc(tag + ":credential_issued")
	} else {
		inc(tag + ":nothing_issued")
	}
	if count && class != "live" && (saved || len(changed) > 0) {
		c.Distinct("distinct_nontrivial", "save|"+sp.String())
		inc("save_forgery_presented_while_a_credential_was_written")
		inc(tag + ":written_next_to_forgery")
	}

	// 1. what was issued is the user's session
	allowed := map[string]bool{}
	if saved {
		issuedHdr := c02Header(issued)
		v, truth, ok := d.load(issuedHdr)
		switch {
		case !ok:
			bad("C02/issued-credential-not-loadable/save-sequence", "the credential issued by the saving request does not load: %s", clipMid(issuedHdr, 120))
		case class == "live":
			// the request carried a live credential of this proxy: whose session is written is not this part's question
		case direct != nil && truth != c02Snap(direct),
			direct == nil && sp.Path == "form" && v.User != "hugo",
			direct == nil && sp.Path != "form" && v.Email != r.idp.Users["alice"].Email:
			bad("C02/saved-session-is-not-the-users", "the credential issued by the saving request loads as %s", clipMid(truth, 200))
		}
		if ok {
			allowed[truth] = true
		}
		if class == "live" {
			allowed[src.Truth], allowed[preSnap] = true, true
			inc("ambiguous")
			inc("save_live_credential_presented_reuse_admissible")
		}
		// 3. the planted cookie next to the issued one
		for _, h := range []string{plantedHdr + "; " + issuedHdr, issuedHdr + "; " + plantedHdr} {
			if _, snap, ok := d.load(h); ok && !allowed[snap] {
				bad("C02/forgery-next-to-issued-credential-decodes-differently", "planted and issued cookies in one header load a session that is neither the issued one nor a live credential's: %s", clipMid(snap, 200))
			}
		}
	}
	// 2. the planted cookie alone
	if class != "live" {
		if _, snap, ok := d.load(plantedHdr); ok {
			bad("C02/presented-forgery-loads-after-save", "the planted cookie did not load before the request and loads after it, as %s", clipMid(snap, 200))
		}
	}
	// 4. nothing of the planted cookie in the issued one
	if saved && class != "live" {
		ic := c02sNewCred(issued)
		pf := strings.Split(w, "|")
		adopt := func(what string) {
			if class == "forged" {
				bad("C02/save-adopts-credential-of-rejected-cookie", "the credential issued by the saving request repeats %s of the planted cookie, which does not load (planted %s ; issued %s)", what, clipMid(w, 100), clipMid(ic.W, 100))
			} else {
				inc("ambiguous")
				inc("save_takes_up_unaltered_credential_that_does_not_load:" + class)
			}
		}
		if ic != nil && len(pf) == 3 {
			if len(pf[0]) >= 8 && ic.V == pf[0] {
				adopt("the value")
			}
			if len(pf[2]) >= 8 && ic.S == pf[2] {
				adopt("the signature")
			}
			iid, isec, iok := c02sParseTicket(ic.V)
			pid, psec, pok := c02sParseTicket(pf[0])
			if d.Store == "redis" {
				if iok {
					inc("save_issued_tickets_parsed")
				} else {
					inc("save_issued_tickets_not_dotted_triples")
				}
			}
			if iok && pok && d.Store == "redis" && ic.V != pf[0] {
				if iid == pid {
					adopt("the ticket ID")
				}
				if bytes.Equal(isec, psec) {
					adopt("the ticket key")
				}
			}
			// positive control of clause 5: the issued ticket's own key opens the entry written under its own ID
			if iok && d.Store == "redis" {
				if val, ok := post[iid]; ok {
					if ci, err := encryption.NewGCMCipher(isec); err == nil {
						if pt, err := ci.Decrypt([]byte(val)); err == nil && len(pt) > 0 {
							inc("save_positive_controls_entry_opened_with_issued_key")
						}
					}
				}
			}
		}
	}
	// 5. store entries written by the request
	if class == "forged" && len(changed) > 0 {
		blobs := c02sBlobs(w)
		for _, k := range changed {
			inc("save_written_store_entries_examined")
			for _, bl := range blobs {
				if len(k) >= 8 && bytes.Contains(bl, []byte(k)) {
					bad("C02/store-entry-written-under-client-chosen-key", "the request wrote store entry %q, a name spelled out in the planted cookie %s", k, clipMid(w, 100))
					break
				}
			}
			if how := c02sOpensWithWindowOf(blobs, []byte(post[k])); how != "" {
				bad("C02/store-entry-readable-with-client-chosen-key", "store entry %q written by the request opens with %s", k, how)
			}
		}
	}
	if !saved && len(changed) > 0 && sp.Path != "sign-out" {
		inc("save_info_store_written_without_issued_cookie")
	}
	// 6. the bystander
	switch {
	case class == "live":
		src.At = time.Time{} // its entry may now hold the victim's session: issue afresh
		if src == d.bobOld {
			d.bobOld = nil
		}
	case bystander != nil:
		inc("save_bystander_checks")
		if _, snap, ok := d.load(c02Header(bystander.Cookies)); !ok || snap != bystander.Truth {
			d.bobLive = nil
			obs := "no longer loads"
			if ok {
				obs = "loads as " + clipMid(snap, 200)
			}
			bad("C02/forged-cookie-changes-anothers-session", "the live credential of a bystander, not presented on the request, %s afterwards", obs)
		}
	}
	return fs
}

// csrfFlow: a callback whose CSRF cookie is planted.
func (r *c02sRun) csrfFlow(d *c02sDep, sp *c02sSpec, count bool) (fs []c02sFinding) {
	c := r.c
	inc := func(k string) {
		if count {
			c.Inc(k)
		}
	}
	bad := func(key, format string, a ...any) {
		fs = append(fs, c02sFinding{key, sp.String() + ": " + fmt.Sprintf(format, a...)})
	}
	csrfOf := func(x *c02sDep) (*Browser, string, *c02sCred, string) {
		b := newBrowser(x.px, "http", c02Host)
		start, loginURL, err := b.Start("/after")
		if err != nil {
			return nil, "", nil, ""
		}
		for _, ck1 := range start.Cookies() {
			if strings.HasSuffix(ck1.Name, "_csrf") && ck1.Value != "" {
				return b, ck1.Name, c02sNewCred([]ck{{ck1.Name, ck1.Value}}), loginURL
			}
		}
		return nil, "", nil, ""
	}
	_, name, own, loginURL := csrfOf(d)
	_, _, foreign, _ := csrfOf(d.other)
	if own == nil || foreign == nil {
		c.Error("C02 save sequences: %s: no CSRF cookie from /start", sp)
		return nil
	}
	// the process has verified the genuine cookie once
	if v, err := cookies.LoadCSRFCookie(c02Request(c02Header(own.Cookies)), name, &d.px.Opts.Cookie); err != nil || v == nil {
		bad("C02/issued-credential-not-loadable/csrf", "the CSRF cookie set by /oauth2/start does not load: %v", err)
		return fs
	}
	cb, _, err := r.idp.Authorize(loginURL, "alice")
	if err != nil {
		c.Error("C02 save sequences: %s: provider: %v", sp, err)
		return nil
	}
	var v, srcT, srcS string
	switch sp.Src {
	case "own":
		v, srcT, srcS = own.V, own.T, own.S
	case "foreign-deployment":
		v, srcT, srcS = foreign.V, foreign.T, foreign.S
	default:
		v, srcT, srcS = base64.URLEncoding.EncodeToString(bytes.Repeat([]byte{0x5a}, 96)), own.T, own.S
	}
	t := c02sAge(sp.TS, srcT, world.Now().Unix(), d.Expire)
	var s string
	if sp.Sig == "own-secret-for-csrf-name" {
		s = c02Sign(d.Secret, d.name, v, t) // for a CSRF cookie the "other name of the same proxy" is the session cookie's
	} else {
		s = c02sSignature(sp.Sig, srcS, d.Secret, name, v, t)
	}
	w := v + "|" + t + "|" + s
	genuine := w == own.W
	jar := []ck{{name, w}}
	switch sp.Place {
	case "before-genuine":
		jar = append(jar, own.Cookies...)
	case "after-genuine":
		jar = append(append([]ck{}, own.Cookies...), jar...)
	}
	genuinePresent := genuine || sp.Place != "alone"
	if !genuine {
		if x, err := cookies.LoadCSRFCookie(c02Request(c02Header([]ck{{name, w}})), name, &d.px.Opts.Cookie); err == nil && x != nil {
			bad("C02/foreign-credential-accepted/save-sequence", "the planted CSRF cookie, never issued in this form, loads: %s", clipMid(w, 120))
			return fs
		}
	}
	pre := d.snapshot()
	u, _ := url.Parse(cb)
	resp := world.Serve(d.px.H, &world.Req{Method: "GET", Target: u.RequestURI(), Host: c02Host, Headers: [][2]string{{"Cookie", c02Header(jar)}}})
	inc("requests_through_ServeHTTP")
	issued := c02sIssued(d.name, resp.Cookies())
	saved := len(issued) > 0
	changed := c02sChanged(pre, d.snapshot())
	inc("evaluations")
	inc("save_flows")
	inc("save_csrf_flows")
	switch {
	case genuinePresent && saved:
		inc("save_csrf_genuine_cookie_present_login_completed")
	case genuinePresent:
		inc("save_csrf_genuine_cookie_present_login_refused")
	case saved || len(changed) > 0:
		bad("C02/session-issued-on-rejected-csrf-cookie", "the callback's only CSRF cookie does not verify (%s), yet the callback issued a session cookie (%v) / wrote %d store entries", clipMid(w, 100), saved, len(changed))
	default:
		inc("save_csrf_forged_cookie_login_refused")
		if count {
			c.Distinct("distinct_nontrivial", "save|"+sp.String())
		}
	}
	if saved {
		if x, snap, ok := d.load(c02Header(issued)); !ok || x.Email != r.idp.Users["alice"].Email {
			bad("C02/saved-session-is-not-the-users", "the credential issued by the callback loads as %s (loadable: %v)", clipMid(snap, 200), ok)
		}
	}
	return fs
}

func (r *c02sRun) specs(d *c02sDep) []*c02sSpec {
	thorough := !r.c.Quick()
	var out []*c02sSpec
	places := []string{"name"}
	if d.Store == "cookie" || thorough {
		places = []string{"name", "name_0", "split"}
	}
	type po struct{ path, order string }
	paths := []po{{"callback", "first"}, {"form", "first"}, {"direct", "first"}, {"refresh", "first"}, {"refresh", "last"}, {"sign-out", "first"}}
	if d.Store == "cookie" {
		paths = append(paths, po{"direct-2part", "first"})
	}
	if thorough {
		paths = append(paths, po{"callback", "last"}, po{"form", "last"}, po{"sign-out", "last"})
	}
	for _, p := range paths {
		for _, src := range c02sSrcs {
			forgedSrc := strings.HasPrefix(src, "forged-")
			if src == "forged-ticket-existing-id" && d.Store != "redis" {
				continue
			}
			for _, ts := range c02sTSs {
				for _, sig := range c02sSigs {
					if forgedSrc && (ts == "as-source" || sig == "kept") {
						continue // a value made up by the sender has no issued timestamp / signature to keep
					}
					for _, pl := range places {
						out = append(out, &c02sSpec{Kind: "save-sequence", Dep: d.Label, Path: p.path, Src: src, TS: ts, Sig: sig, Place: pl, Order: p.order})
					}
				}
			}
		}
	}
	for _, src := range c02sCSRFs {
		for _, ts := range c02sTSs {
			for _, sig := range c02sSigs {
				for _, pl := range []string{"alone", "before-genuine", "after-genuine"} {
					out = append(out, &c02sSpec{Kind: "save-sequence", Dep: d.Label, Path: "callback-csrf", Src: src, TS: ts, Sig: sig, Place: pl, Order: "first"})
				}
			}
		}
	}
	return out
}

func c02sSize(sp *c02sSpec) int {
	n := 10
	for _, x := range []string{sp.Src, sp.TS, sp.Sig, sp.Place, sp.Path} {
		n += len(x)
	}
	return n
}

// c02SaveMain runs the whole part (filter == nil) or one recorded sequence.
func c02SaveMain(c *Ctx, filter *c02sSpec) string {
	world.ClearAdvanceHooks()
	world.ResetClock()
	r := &c02sRun{c: c}
	r.idp = world.NewIdP()
	r.up = world.NewUpstream("u")
	defer r.up.Close()
	defer func() {
		for _, f := range r.closer {
			f()
		}
		world.ClearAdvanceHooks()
		world.ResetClock()
	}()
	if !r.build() {
		return "world could not be built"
	}
	began := time.Now()
	defer func() { c.SetMax("save_part_wall_ms_slowest_shard", time.Since(began).Milliseconds()) }()
	i := 0
	total := 0
	for _, d := range r.deps {
		specs := r.specs(d)
		total += len(specs)
		for _, sp := range specs {
			i++
			if filter != nil {
				if *filter != *sp {
					continue
				}
			} else if !c.Mine(i) {
				continue
			}
			if c.Expired() {
				return "deadline"
			}
			for _, f := range r.flow(d, sp, true) {
				f := f
				c.Inc("save_flows_violating")
				c.confirm(f.key, f.msg, c02sSize(sp), sp, func() (string, bool) {
					for _, g := range r.flow(d, sp, false) {
						if g.key == f.key {
							return g.key, true
						}
					}
					return "", false
				})
			}
		}
	}
	if filter != nil {
		return fmt.Sprintf("%d flows, %d violations", c.Counters["save_flows"], len(c.Violations))
	}
	if c.Shard == 0 {
		c.Info["save_sequences"] = map[string]any{
			"deployments": len(r.deps), "sequences_enumerated": total,
			"saving_requests":    []string{"login callback", "refresh of a stale session", "htpasswd form login", "SessionStore.Save (1 cookie)", "SessionStore.Save (2-part cookie, cookie store)", "sign-out (the deleting request)", "login callback with a planted CSRF cookie"},
			"planted_value_from": c02sSrcs, "planted_timestamp": c02sTSs, "planted_signature": c02sSigs,
			"placement": []string{"name", "name_0", "split over name_0/name_1 (cookie store; redis: thorough)"}, "header_order": []string{"first", "last"},
			"csrf_value_from": c02sCSRFs, "csrf_presence": []string{"alone", "before-genuine", "after-genuine"},
		}
	}
	return ""
}

// c02SaveNonVacuity is asserted once on the merged counters.
func c02SaveNonVacuity(c *Ctx) {
	for _, store := range []string{"cookie", "redis"} {
		for _, p := range []string{"callback", "form", "direct", "refresh"} {
			if c.Counters["save_path:"+p+":"+store+":written_next_to_forgery"] == 0 {
				c.Error("vacuous: no %s request of the %s store wrote a credential while a forged cookie was presented", p, store)
			}
		}
		if c.Counters["save_path:sign-out:"+store+":nothing_issued"] == 0 {
			c.Error("vacuous: no sign-out with a planted cookie (%s store)", store)
		}
	}
	if c.Counters["save_path:direct-2part:cookie:written_next_to_forgery"] == 0 {
		c.Error("vacuous: no multi-part save next to a forged cookie")
	}
	for _, k := range []string{"save_class:forged", "save_class:live", "save_class:expired-genuine", "save_positive_controls_entry_opened_with_issued_key",
		"save_written_store_entries_examined", "save_bystander_checks", "save_csrf_forged_cookie_login_refused", "save_csrf_genuine_cookie_present_login_completed"} {
		if c.Counters[k] == 0 {
			c.Error("vacuous: save sequences: counter %s is 0", k)
		}
	}
	if c.Counters["save_issued_tickets_parsed"] == 0 {
		c.Error("vacuous: save sequences: no issued ticket could be read as version.id.key (%d not recognised): ticket ID / key comparison did not run", c.Counters["save_issued_tickets_not_dotted_triples"])
	}
}

func c02SaveReplay(c *Ctx, raw json.RawMessage) (string, bool) {
	var sp c02sSpec
	if err := json.Unmarshal(raw, &sp); err != nil || sp.Kind != "save-sequence" {
		return "", false
	}
	return c02SaveMain(c, &sp), true
}
