//go:build verif

package main

import (
	"crypto/sha256"
	"encoding/hex"
	"encoding/json"
	"errors"
	"fmt"
	"net/http"
	"net/url"
	"os"
	"path/filepath"
	"sort"
	"strconv"
	"strings"
	"time"

	"github.com/oauth2-proxy/oauth2-proxy/v7/pkg/apis/options"
	"github.com/oauth2-proxy/oauth2-proxy/v7/verifx/explore"
	"github.com/oauth2-proxy/oauth2-proxy/v7/verifx/sched"
	"github.com/oauth2-proxy/oauth2-proxy/v7/verifx/vatomic"
	"github.com/oauth2-proxy/oauth2-proxy/v7/verifx/world"
)

// C11 — sign-out ends the session (SEQ, model checking by history search).
//
// A case is (configuration, login user, operations after the login, sign-out variant). Every case
// is executed on a fresh world (proxy, jar, identity provider, Redis, clock, random stream) through
// the real handlers. The breadth-first search runs over the operation histories; the state reached
// by a history is canonicalised (jar layout, decrypted sessions, store key space, provider state,
// clock offset, the cookie sets ever held) and a state seen before is neither expanded nor
// evaluated again. In every distinct state every sign-out variant is executed and judged:
//
//   1. every session cookie the browser presented with the sign-out request is gone from the jar
//      once the response is applied (the jar deletes on the exact (name, domain, path) key only);
//   2. Redis: the key space holds no session entry afterwards and every cookie set the browser ever
//      held, presented again by hand, is unauthenticated;
//   3. the browser's own next request is unauthenticated;
//   4. Redis with an injected DEL failure: the answer is an error, not a success redirect.

const (
	c11Host    = "app.example.com"
	c11Padding = 3000 // bytes of incompressible access-token padding minted on refresh while "grown"
)

type c11Cfg struct {
	Redis   bool     `json:"redis"`
	Domains []string `json:"cookie_domains"`
	Path    string   `json:"cookie_path"`
	Name    string   `json:"cookie_name"`
	// Front: "" the browser talks to the proxy directly; otherwise a fronting reverse proxy sits
	// between them (see c11Fronts): --reverse-proxy is on, the proxy is addressed under an internal
	// Host and learns the public host from X-Forwarded-Host.
	Front string `json:"front,omitempty"`
}

func (k c11Cfg) prefix() string {
	if k.Path == "/" {
		return "/oauth2"
	}
	return k.Path + "/oauth2"
}

func (k c11Cfg) page() string {
	if k.Path == "/" {
		return "/page"
	}
	return k.Path + "/page"
}

func (k c11Cfg) after() string {
	if k.Path == "/" {
		return "/after"
	}
	return k.Path + "/after"
}

func (k c11Cfg) String() string {
	st := "cookie"
	if k.Redis {
		st = "redis"
	}
	s := fmt.Sprintf("store=%s domains=%v path=%s name=%s", st, k.Domains, k.Path, c11Short(k.Name))
	if k.Front != "" {
		s += fmt.Sprintf(" front=%s(Host: %s, X-Forwarded-Host: %s)", k.Front, c11Fronts[k.Front], c11Host)
	}
	return s
}

func (k c11Cfg) flags(upURL string) []string {
	f := append(baseFlags(upURL), "--email-domain=*", "--cookie-secure=false", "--cookie-refresh=1m",
		"--cookie-name="+k.Name, "--cookie-path="+k.Path, "--proxy-prefix="+k.prefix())
	for _, d := range k.Domains {
		f = append(f, "--cookie-domain="+d)
	}
	if k.Front != "" {
		f = append(f, "--reverse-proxy=true")
	}
	return f
}

func c11Short(s string) string {
	if len(s) > 40 {
		return fmt.Sprintf("%s..(%d chars)..%s", s[:6], len(s), s[len(s)-4:])
	}
	return s
}

func c11LongName(n int) string { return "sess" + strings.Repeat("n", n-4) }

func c11Configs(quick bool) []c11Cfg {
	var out []c11Cfg
	names := []string{"_oauth2_proxy", c11LongName(254), "app.sess+ion", c11LongName(255), c11LongName(256)}
	doms := [][]string{nil, {"example.com"}, {"example.com", "app.example.com"}}
	for _, name := range names {
		for _, d := range doms {
			for _, path := range []string{"/", "/app"} {
				for _, redis := range []bool{false, true} {
					out = append(out, c11Cfg{Redis: redis, Domains: d, Path: path, Name: name})
				}
			}
		}
	}
	// behind a fronting reverse proxy (appended: the numbering of the configurations above is kept)
	return append(out, c11FrontConfigs(quick)...)
}

// operations after the login; every one ends with a request for the page
//
//	req      request, clock untouched (session fresh: no refresh)
//	refresh  2 minutes later (cookie-refresh is 1m): the request refreshes the session
//	grow     the provider starts minting padded access tokens, then as refresh
//	shrink   the provider stops padding, then as refresh
var c11Ops = []string{"req", "refresh", "grow", "shrink"}

// c11Out is one sign-out variant.
type c11Out struct {
	Method string `json:"method"`
	Rd     bool   `json:"rd"`
	// Stale: "" sign-out right away; "stale" 2 minutes later (the sign-out request itself refreshes
	// the session); "stale-grow"/"stale-shrink" additionally switch the provider's padding before.
	Stale string `json:"stale,omitempty"`
	// Fault (Redis only): "del-err" the DEL fails without being performed, "del-lost" it is
	// performed but its reply is lost; "outage" every store call of the request fails;
	// "cmd:<i>[,<j>]" the i-th (and j-th) single Redis COMMAND the server receives during the
	// sign-out request is answered with an error reply instead of being executed (c11_env_test.go).
	Fault string `json:"fault,omitempty"`
}

func (o c11Out) String() string {
	s := o.Method
	if o.Rd {
		s += "+rd"
	}
	if o.Stale != "" {
		s += "+" + o.Stale
	}
	if o.Fault != "" {
		s += "+" + o.Fault
	}
	return s
}

func c11Outs(k c11Cfg, quick bool) []c11Out {
	var out []c11Out
	for _, stale := range []string{"", "stale", "stale-grow", "stale-shrink"} {
		for _, m := range []string{"GET", "POST"} {
			for _, rd := range []bool{false, true} {
				if quick && stale != "" && (m == "GET") == rd {
					// quick: method x rd in full for the immediate sign-out, the two "diagonal"
					// combinations (GET without rd, POST with rd) for the delayed ones
					continue
				}
				out = append(out, c11Out{Method: m, Rd: rd, Stale: stale})
			}
		}
	}
	if k.Redis {
		// "outage": the store fails EVERY call of the sign-out request without effect (the
		// loader's read and clean-up as well as the handler's delete), and works again afterwards
		for _, f := range []string{"del-err", "del-lost", "outage"} {
			for _, stale := range []string{"", "stale"} {
				for _, m := range []string{"GET", "POST"} {
					for _, rd := range []bool{false, true} {
						if quick && ((m == "GET") == rd || (f != "del-err" && stale != "")) {
							continue
						}
						out = append(out, c11Out{Method: m, Rd: rd, Stale: stale, Fault: f})
					}
				}
			}
		}
	}
	return out
}

// c11Case is one executed history (also the replay-file format).
type c11Case struct {
	Cfg    c11Cfg   `json:"cfg"`
	User   string   `json:"user"`   // alice: one cookie at login; carol: split cookie at login
	Rotate bool     `json:"rotate"` // provider rotates refresh tokens (false: static refresh token)
	Ops    []string `json:"ops"`
	Out    c11Out   `json:"sign_out"`
	Obs    string   `json:"observed,omitempty"`
	Repeat int      `json:"repeat,omitempty"` // replay only: run the case this often and report the distinct observations
}

func (cs *c11Case) String() string {
	return fmt.Sprintf("%s | login %s rotate=%v -> %v -> sign_out %s", cs.Cfg, cs.User, cs.Rotate, cs.Ops, cs.Out)
}

func (cs *c11Case) size() int {
	n := 1000*len(cs.Ops) + len(cs.Out.String()) + len(cs.Cfg.Name)
	if cs.User != "alice" {
		n += 10
	}
	if cs.Rotate {
		n += 5
	}
	if cs.Cfg.Redis {
		n += 3
	}
	if cs.Cfg.Path != "/" {
		n += 2
	}
	return n + 2*len(cs.Cfg.Domains)
}

func c11BigGroups() []string {
	var g []string
	for i := 0; i < 20; i++ {
		s := sha256.Sum256([]byte(fmt.Sprintf("c11-group-%d", i)))
		g = append(g, hex.EncodeToString(s[:]))
	}
	return g
}

// ---------------------------------------------------------------------------------------------
// the world of one execution

type c11World struct {
	cs    *c11Case
	k     c11Cfg
	idp   *world.IdP
	px    *Proxy
	b     *Browser
	snaps []string // distinct Cookie headers the browser ever held for the page, in order
	// measurements of the history
	authed     []bool // per request of the history: served by the upstream?
	grantsOps  int
	err        string
	trace      []string // one line per request: what was asked, the answer, store and provider calls it caused
	rOps, iOps int
}

// note appends a trace line for the request just answered.
func (w *c11World) note(what string, resp *world.Resp) {
	l := fmt.Sprintf("t=%v %s -> %d", world.Offset(), what, resp.Status)
	if w.px.Redis != nil {
		l += fmt.Sprintf(" store%v", w.px.Redis.Ops(w.rOps))
		w.rOps = w.px.Redis.NumCalls()
	}
	var eps []string
	for _, c := range w.idp.Calls[w.iOps:] {
		eps = append(eps, fmt.Sprintf("%s:%d%s", c.Endpoint, c.Status, c.Note))
	}
	w.iOps = len(w.idp.Calls)
	w.trace = append(w.trace, l+fmt.Sprintf(" idp%v", eps))
}

// One miniredis per process, served on a unix-domain socket (no TCP ports) and reset between
// worlds: empty key space, fresh call log and hooks, clock set.
var c11Redis *world.Redis

func c11FreshRedis() *world.Redis {
	if c11Redis == nil {
		c11Redis = world.NewRedis()
		if err := c11Redis.ListenUnix(filepath.Join(scratch(), fmt.Sprintf("c11-redis-%d.sock", os.Getpid()))); err != nil {
			panic(err)
		}
	} else {
		c11Redis.Reset()
		// a fresh server has no cached Lua scripts either (the lock's first EVALSHA is answered
		// NOSCRIPT and repeated as EVAL): without this the command sequence of a request would
		// depend on what earlier worlds of the same process did
		c11FlushScripts(c11Redis)
	}
	return c11Redis
}

// close ends the world: the connections of the proxy's store client are closed.
func (w *c11World) close() {
	if w.px != nil && w.px.Redis != nil {
		w.px.Redis.CloseClients()
	}
	world.ClearAdvanceHooks()
}

func c11NewWorld(seed int64, cs *c11Case) *c11World {
	world.ClearAdvanceHooks()
	world.ResetClock()
	world.SeedRandom(seed, 0)
	w := &c11World{cs: cs, k: cs.Cfg}
	w.idp = world.NewIdP()
	w.idp.TokenPaddingRandom = true
	w.idp.StaticRefreshToken = !cs.Rotate
	w.idp.Users["carol"] = &world.User{Sub: "carol-sub", Email: "carol@example.com", EmailVerified: true, Groups: c11BigGroups(), PreferredUsername: "carol"}
	// static upstream (answers 200 to whatever passes authentication): no sockets
	pc := &ProxyCfg{Flags: cs.Cfg.flags("static://200")}
	if cs.Cfg.Redis {
		pc.Redis = c11FreshRedis()
		// the store client's real-time limits (3 s to read a reply, 5 s to dial) are virtual-time
		// noise on a loaded machine: a stalled process makes a fault-free store call fail. Raised
		// through the connection URL, the way an operator would.
		pc.Mutate = func(o *options.Options) {
			if !strings.Contains(o.Session.Redis.ConnectionURL, "?") {
				o.Session.Redis.ConnectionURL += "?read_timeout=60s&write_timeout=60s&dial_timeout=60s&pool_timeout=60s"
			}
		}
	}
	px, err := buildProxy(pc)
	if err != nil {
		if pc.Redis != nil {
			pc.Redis.CloseClients()
		}
		w.err = "configuration rejected: " + err.Error()
		return w
	}
	px.H = c11Freeze(px.H)
	if cs.Cfg.Front != "" {
		px.H = c11FrontProxy(cs.Cfg.Front, px.H)
	}
	w.px = px
	w.b = newBrowser(px, "http", c11Host)
	return w
}

// c11Freeze makes the recorded response what a real server sends: header fields a handler adds
// after the status line went out are dropped (httptest's recorder would keep them, so that a
// sign-out redirecting before it clears would look as if it had deleted the cookies).
func c11Freeze(h http.Handler) http.Handler {
	return http.HandlerFunc(func(rw http.ResponseWriter, req *http.Request) {
		h.ServeHTTP(&c11FrozenWriter{ResponseWriter: rw}, req)
	})
}

type c11FrozenWriter struct {
	http.ResponseWriter
	late http.Header // after the status line: a detached copy
}

func (f *c11FrozenWriter) Unwrap() http.ResponseWriter { return f.ResponseWriter }

func (f *c11FrozenWriter) Header() http.Header {
	if f.late != nil {
		return f.late
	}
	return f.ResponseWriter.Header()
}

func (f *c11FrozenWriter) WriteHeader(code int) {
	if f.late != nil {
		return
	}
	f.ResponseWriter.WriteHeader(code)
	if code >= 200 {
		f.late = f.ResponseWriter.Header().Clone()
	}
}

func (f *c11FrozenWriter) Write(b []byte) (int, error) {
	if f.late == nil {
		f.WriteHeader(http.StatusOK)
	}
	return f.ResponseWriter.Write(b)
}

func (f *c11FrozenWriter) Flush() {
	if f.late == nil {
		f.WriteHeader(http.StatusOK)
	}
	if fl, ok := f.ResponseWriter.(http.Flusher); ok {
		fl.Flush()
	}
}

func (w *c11World) snap() {
	h := w.b.Jar.Header("http", c11Host, w.k.page())
	if h == "" {
		return
	}
	for _, s := range w.snaps {
		if s == h {
			return
		}
	}
	w.snaps = append(w.snaps, h)
}

// c11Served: the request passed authentication (the static upstream answered 2xx); everything
// else — sign-in page, redirect to the provider, 401, 403, error page — is "unauthenticated".
func c11Served(resp *world.Resp) bool { return resp.Status >= 200 && resp.Status < 300 }

// get sends the browser's request for the page.
func (w *c11World) get() (bool, *world.Resp) {
	resp := w.b.Get(w.k.page())
	w.snap()
	w.note("GET page", resp)
	return c11Served(resp), resp
}

func (w *c11World) login() bool {
	_, loginURL, err := w.b.Start(w.k.page())
	w.snap()
	if err != nil {
		w.err = "login start: " + err.Error()
		return false
	}
	cb, _, err := w.idp.Authorize(loginURL, w.cs.User)
	if err != nil {
		w.err = "provider: " + err.Error()
		return false
	}
	resp := w.b.Callback(cb)
	w.snap()
	w.note("callback", resp)
	if resp.Status != 302 {
		w.err = fmt.Sprintf("callback answered %d", resp.Status)
		return false
	}
	return true
}

func (w *c11World) op(name string) {
	switch name {
	case "req":
	case "refresh":
		world.Advance(2 * time.Minute)
	case "grow":
		w.idp.TokenPadding = c11Padding
		world.Advance(2 * time.Minute)
	case "shrink":
		w.idp.TokenPadding = 0
		world.Advance(2 * time.Minute)
	default:
		panic("unknown op " + name)
	}
	g := w.idp.Grants
	ok, _ := w.get()
	w.authed = append(w.authed, ok)
	w.grantsOps += w.idp.Grants - g
}

// run replays login + operations; false = the fixture itself failed.
func (w *c11World) run() bool {
	if w.err != "" || !w.login() {
		return false
	}
	for _, o := range w.cs.Ops {
		w.op(o)
	}
	return true
}

// ---------------------------------------------------------------------------------------------
// canonical state

// kind classifies a cookie name relative to the configured session-cookie name:
// "name", "part:<n>" (name_<n>), "tpart:<n>" (a part whose name was shortened), "csrf", "other".
func (k c11Cfg) kind(name string) string {
	if name == k.Name {
		return "name"
	}
	if strings.Contains(name, "_csrf") {
		return "csrf"
	}
	i := strings.LastIndex(name, "_")
	if i < 0 {
		return "other"
	}
	n, err := strconv.Atoi(name[i+1:])
	if err != nil || n < 0 || strconv.Itoa(n) != name[i+1:] {
		return "other"
	}
	base := name[:i]
	if base == k.Name {
		return fmt.Sprintf("part:%d", n)
	}
	if base != "" && len(base) < len(k.Name) && strings.HasPrefix(k.Name, base) {
		return fmt.Sprintf("tpart:%d", n)
	}
	return "other"
}

func (k c11Cfg) isSession(name string) bool {
	kd := k.kind(name)
	return kd != "csrf" && kd != "other"
}

// load decrypts what a Cookie header carries, through the store of the proxy under test
// (used for canonicalisation and reporting only, never as an oracle).
func (w *c11World) load(cookieHeader string) string {
	req, err := http.NewRequest("GET", "http://"+c11Host+w.k.page(), nil)
	if err != nil {
		return "-"
	}
	req.Header.Set("Cookie", cookieHeader)
	s, err := verifSessionStore(w.px.P).Load(req)
	if err != nil || s == nil {
		return "-"
	}
	at := s.AccessToken
	pad := 0
	if i := strings.Index(at, "-sub-"); i >= 0 {
		pad = len(at) - i - 5
		at = at[:i+4]
	}
	created := int64(-1)
	if s.CreatedAt != nil {
		created = int64(s.CreatedAt.Sub(world.Epoch) / time.Second)
	}
	return fmt.Sprintf("%s/%s+%d/%s/c%d", s.Email, at, pad, s.RefreshToken, created)
}

func c11Names(k c11Cfg, header string) string {
	var out []string
	for _, p := range strings.Split(header, "; ") {
		if i := strings.Index(p, "="); i > 0 {
			out = append(out, k.kind(p[:i]))
		}
	}
	return strings.Join(out, ",")
}

func (w *c11World) layout() string {
	var single, parts, trunc int
	for _, ck := range w.b.Jar.Cookies {
		switch kd := w.k.kind(ck.Name); {
		case kd == "name":
			single++
		case strings.HasPrefix(kd, "part:"):
			parts++
		case strings.HasPrefix(kd, "tpart:"):
			parts++
			trunc++
		}
	}
	l := "none"
	switch {
	case single > 0 && parts > 0:
		l = fmt.Sprintf("mixed-1+%d", parts)
	case single > 0:
		l = "single"
	case parts > 0:
		l = fmt.Sprintf("parts-%d", parts)
	}
	if trunc > 0 {
		l += "-truncated-names"
	}
	return l
}

func (w *c11World) canon() string {
	var b strings.Builder
	// provider state without its call counter (go-oidc fetches keys from a goroutine of its own)
	ik := w.idp.StateKey()
	if i := strings.LastIndex(ik, ";c"); i >= 0 {
		ik = ik[:i]
	}
	fmt.Fprintf(&b, "t=%d;idp=%s,pad=%d;jar=", int64(world.Offset()/time.Second), ik, w.idp.TokenPadding)
	var cs []string
	for _, ck := range w.b.Jar.Cookies {
		exp := int64(-1)
		if !ck.Expires.IsZero() {
			exp = int64(ck.Expires.Sub(world.Epoch) / time.Second)
		}
		cs = append(cs, fmt.Sprintf("%s@%s%s,h%v,e%d,l%d", w.k.kind(ck.Name), ck.Domain, ck.Path, ck.HostOnly, exp, len(ck.Value)/64))
	}
	sort.Strings(cs)
	b.WriteString(strings.Join(cs, "|"))
	fmt.Fprintf(&b, ";now=%s;snaps=", w.load(w.b.Jar.Header("http", c11Host, w.k.page())))
	for _, s := range w.snaps {
		fmt.Fprintf(&b, "[%s:%s]", c11Names(w.k, s), w.load(s))
	}
	if w.px.Redis != nil {
		b.WriteString(";redis=")
		for _, key := range w.px.Redis.SessionKeys() {
			fmt.Fprintf(&b, "k(ttl%d)", int64(w.px.Redis.M.TTL(key)/time.Second))
		}
	}
	return b.String()
}

// ---------------------------------------------------------------------------------------------
// executing and judging one case

type c11Finding struct{ Key, Msg string }

type c11Result struct {
	Err      string // fixture failure (harness error)
	Trace    []string
	Pre      string // canonical pre-sign-out state
	Post     string // canonical post-sign-out state
	Layout   string
	Live     bool // the browser's last request before the sign-out was authenticated (or the login, if none)
	Obs      string
	Findings []c11Finding
	// measurements
	Class          string // redirect | error | other
	Presented      int
	Deleted        int
	FreshSurvivors int
	Replays        int
	ReplayAuthed   int
	PostAuthed     bool
	FaultDelivered bool
	GrantInSignOut bool
	KeysBefore     int
	KeysAfter      int
	AuthedOps      []bool
	GrantsOps      int
	Cmds           []string // Redis: the commands the server received during the sign-out request (handshake excluded)
	CmdFailed      []string // "cmd:" faults: the commands that were answered with the error reply
	CmdElsewhere   bool     // "cmd:" fault answered with a 3xx to another place than the sign-out target
}

func (r *c11Result) has(key string) bool {
	for _, f := range r.Findings {
		if f.Key == key {
			return true
		}
	}
	return false
}

// c11State replays the history without signing out and returns the world (caller closes).
// c11FixtureRetries counts executions repeated because the world itself failed (the store's
// loopback connection timing out on an overloaded machine): login and operations are a
// deterministic function of the case, so a repetition is the same execution.
var c11FixtureRetries int

// c11Ready builds the world and replays login + operations (caller closes).
func c11Ready(seed int64, cs *c11Case) *c11World {
	for try := 0; ; try++ {
		w := c11NewWorld(seed, cs)
		if w.run() || try == 2 {
			return w
		}
		c11FixtureRetries++
		w.close()
	}
}

// c11State replays the history without signing out and returns the world (caller closes).
func c11State(seed int64, cs *c11Case) *c11World { return c11Ready(seed, cs) }

func c11Exec(seed int64, cs *c11Case) *c11Result {
	w := c11Ready(seed, cs)
	defer w.close()
	r := &c11Result{}
	if w.err != "" {
		r.Err = w.err
		return r
	}
	c11SignOut(w, r)
	return r
}

func c11SignOut(w *c11World, r *c11Result) {
	k, cs, o := w.k, w.cs, w.cs.Out
	add := func(key, format string, a ...any) {
		if !r.has(key) {
			r.Findings = append(r.Findings, c11Finding{key, fmt.Sprintf(format, a...) + " | " + cs.String()})
		}
	}
	r.Pre = w.canon()
	r.Layout = w.layout()
	r.Trace = w.trace
	r.AuthedOps, r.GrantsOps = w.authed, w.grantsOps
	r.Live = true
	if n := len(w.authed); n > 0 {
		r.Live = w.authed[n-1]
	}

	switch o.Stale {
	case "stale":
		world.Advance(2 * time.Minute)
	case "stale-grow":
		w.idp.TokenPadding = c11Padding
		world.Advance(2 * time.Minute)
	case "stale-shrink":
		w.idp.TokenPadding = 0
		world.Advance(2 * time.Minute)
	}

	target := k.prefix() + "/sign_out"
	wantLoc := "/"
	if o.Rd {
		wantLoc = k.after()
	}
	var req *world.Req
	if o.Method == "GET" {
		if o.Rd {
			target += "?rd=" + url.QueryEscape(k.after())
		}
		req = w.b.Req("GET", target)
	} else {
		req = w.b.Req("POST", target, [2]string{"Content-Type", "application/x-www-form-urlencoded"})
		if o.Rd {
			req.Body = url.Values{"rd": {k.after()}}.Encode()
		}
	}
	// what the browser presents
	var presented []*world.Cookie
	for _, ck := range w.b.Jar.For("http", c11Host, pathOf(target)) {
		if k.isSession(ck.Name) {
			presented = append(presented, ck)
		}
	}
	r.Presented = len(presented)
	if w.px.Redis != nil {
		r.KeysBefore = len(w.px.Redis.SessionKeys())
		if o.Fault != "" && !strings.HasPrefix(o.Fault, "cmd:") {
			w.px.Redis.Intercept = func(c *world.StoreCall) *world.StoreFault {
				if o.Fault == "outage" {
					r.FaultDelivered = true
					return &world.StoreFault{Kind: "outage", BeforeErr: errors.New("store unreachable")}
				}
				if c.Op != "DEL" {
					return nil
				}
				r.FaultDelivered = true
				if o.Fault == "del-lost" {
					return &world.StoreFault{Kind: "lost", AfterErr: errors.New("boom")}
				}
				return &world.StoreFault{Kind: "err", BeforeErr: errors.New("boom")}
			}
		}
	}
	cmdIdx, cmdFault := c11CmdFaultPositions(o.Fault)
	if w.px.Redis != nil {
		c11WatchCommands(w.px.Redis, cmdIdx, r)
	}
	grants := w.idp.Grants
	resp := w.b.Do(req)
	if w.px.Redis != nil {
		w.px.Redis.Intercept = nil
		w.px.Redis.WatchCommands(nil)
		r.KeysAfter = len(w.px.Redis.SessionKeys())
		if cmdFault {
			r.FaultDelivered = len(r.CmdFailed) == len(cmdIdx)
		}
	}
	success := resp.Status >= 300 && resp.Status < 400
	r.GrantInSignOut = w.idp.Grants > grants
	switch {
	case resp.Status >= 300 && resp.Status < 400:
		r.Class = "redirect"
	case resp.Status >= 400:
		r.Class = "error"
	default:
		r.Class = "other"
	}
	if resp.Panic != nil {
		// one root cause, one key: a crashed sign-out deletes nothing, the clauses below would only repeat it
		add("C11/panic@"+resp.PanicSite(), "sign-out panicked: %v", resp.Panic)
		r.Post = "panic"
		r.Obs = fmt.Sprintf("sign-out panicked: %v", resp.Panic)
		return
	}

	// deletion lines of the response, by name
	delLines := map[string][]*http.Cookie{}
	for _, c := range resp.Cookies() {
		if c.MaxAge < 0 || (!c.Expires.IsZero() && !c.Expires.After(world.Now())) {
			delLines[c.Name] = append(delLines[c.Name], c)
		}
	}

	// a removal that is known or allowed to have failed: the injected store-call faults, and a
	// command-level fault whenever the answer is not the success redirect (the statement demands the
	// removal only of a sign-out that reports success)
	faultNoRemoval := ((o.Fault == "del-err" || o.Fault == "outage") && r.FaultDelivered) || (cmdFault && !success)

	// (1) every presented session cookie is gone
	inJar := func(ck *world.Cookie) *world.Cookie {
		for _, c := range w.b.Jar.Cookies {
			if c.Name == ck.Name && c.Domain == ck.Domain && c.Path == ck.Path && c.HostOnly == ck.HostOnly {
				return c
			}
		}
		return nil
	}
	var left []string
	for _, ck := range presented {
		cur := inJar(ck)
		if cur == nil {
			r.Deleted++
			continue
		}
		kd := k.kind(ck.Name)
		left = append(left, kd)
		held := fmt.Sprintf("%s (%s; Domain=%s host-only=%v; Path=%s)", c11Short(ck.Name), kd, ck.Domain, ck.HostOnly, ck.Path)
		switch {
		case len(delLines[ck.Name]) == 0 && strings.HasPrefix(kd, "tpart:"):
			add("C11/truncated-split-part-names-not-cleared", "sign-out answered %d without any deletion for the presented split part %s: the part name was shortened to 256 characters when it was set", resp.Status, held)
		case len(delLines[ck.Name]) == 0 && kd == "name":
			add("C11/session-cookie-not-cleared", "sign-out answered %d without a deletion for the presented session cookie %s", resp.Status, held)
		case len(delLines[ck.Name]) == 0:
			add("C11/split-part-not-cleared", "sign-out answered %d without a deletion for the presented split part %s", resp.Status, held)
		default:
			// is there a deletion that addresses the held cookie (RFC 6265: same domain, host-only flag and path)?
			var hit *http.Cookie
			for _, d := range delLines[ck.Name] {
				dd := strings.ToLower(strings.TrimPrefix(d.Domain, "."))
				domOK := (dd == "" && ck.HostOnly && ck.Domain == c11Host) || (dd != "" && !ck.HostOnly && dd == ck.Domain)
				dp := d.Path
				if dp == "" || dp[0] != '/' {
					dp = pathOf(target)
					if i := strings.LastIndex(dp, "/"); i > 0 {
						dp = dp[:i]
					} else {
						dp = "/"
					}
				}
				if domOK && dp == ck.Path {
					hit = d
				}
			}
			if hit != nil {
				add("C11/session-cookie-set-again-after-deletion", "the sign-out response deletes %s and sets it again afterwards", held)
			} else {
				d := delLines[ck.Name][0]
				add("C11/deletion-with-different-domain-or-path", "the deletion for %s carries Domain=%q Path=%q, which does not address the cookie the browser holds", held, d.Domain, d.Path)
			}
		}
	}

	// (1b) session cookies in the jar that were not presented: set by the sign-out response itself
	// (a refresh inside the sign-out request) or out of the sign-out path
	for _, ck := range w.b.Jar.Cookies {
		if !k.isSession(ck.Name) {
			continue
		}
		was := false
		for _, p := range presented {
			if p.Name == ck.Name && p.Domain == ck.Domain && p.Path == ck.Path && p.HostOnly == ck.HostOnly {
				was = true
			}
		}
		if !was {
			r.FreshSurvivors++
		}
	}

	// (4) failed store removal => error answer
	if faultNoRemoval && !cmdFault {
		if r.Class != "error" {
			add("C11/failed-store-removal-not-answered-with-error", "the DEL of the stored session failed, yet sign-out answered %d Location=%q (keys left in the store: %d)", resp.Status, resp.Location(), r.KeysAfter)
		}
	} else if r.Class == "redirect" && resp.Location() != wantLoc {
		// not a property clause: measured only
		r.Class = "redirect-elsewhere"
	}

	// (2) the stored session is gone; replays of everything the browser ever held
	if cmdFault && success && r.Class == "redirect-elsewhere" {
		// a 3xx to another place than the sign-out's own target: not necessarily "the success
		// redirect" of the statement — measured, never judged by the command-fault clause
		faultNoRemoval, r.CmdElsewhere = true, true
	}
	judgeCmd := cmdFault && !faultNoRemoval // a command failed and the answer is the sign-out's success redirect
	if judgeCmd && r.KeysAfter > 0 {
		add(c11CmdFaultKey, "the server answered %v with an error reply; sign-out answered the success redirect %d Location=%q although the store still holds %d session key(s) (before: %d); commands of the request: %v", r.CmdFailed, resp.Status, resp.Location(), r.KeysAfter, r.KeysBefore, r.Cmds)
	}
	if w.px.Redis != nil && !faultNoRemoval && !cmdFault && r.KeysAfter > 0 {
		add("C11/stored-session-not-removed", "after sign-out (%d) the store still holds %d session key(s) (before: %d)", resp.Status, r.KeysAfter, r.KeysBefore)
	}
	for i, h := range w.snaps {
		rr := world.Serve(w.px.H, &world.Req{Method: "GET", Target: k.page(), Host: c11Host, Headers: [][2]string{{"Cookie", h}}})
		r.Replays++
		if c11Served(rr) {
			r.ReplayAuthed++
			if judgeCmd {
				add(c11CmdFaultKey, "the server answered %v with an error reply; sign-out answered the success redirect %d, yet cookie set #%d the browser held before (%s) is served again: status %d; commands of the request: %v", r.CmdFailed, resp.Status, i, c11Names(k, h), rr.Status, r.Cmds)
			} else if w.px.Redis != nil && !faultNoRemoval {
				add("C11/replayed-cookie-authenticated-after-sign-out", "cookie set #%d the browser held before the sign-out (%s) is served again after it: status %d", i, c11Names(k, h), rr.Status)
			}
		}
	}

	// (3) the browser's own next request
	pr := w.b.Get(k.page())
	r.PostAuthed = c11Served(pr)
	if r.PostAuthed && len(left) == 0 && r.FreshSurvivors == 0 {
		add("C11/authenticated-after-sign-out", "the jar holds no session cookie after the sign-out, yet the browser's next request is served: status %d", pr.Status)
	}
	if r.PostAuthed && len(left) == 0 && r.FreshSurvivors > 0 && !faultNoRemoval {
		// every presented cookie was deleted, but the response also SET session cookies under
		// other names (a refresh inside the sign-out request changed the cookie layout) and the
		// browser goes on being served with them: the sign-out did not end the session
		add("C11/session-recreated-inside-sign-out", "the sign-out response (%d) deletes the %d presented session cookie(s) but also sets %d session cookie(s) under other names; the browser's next request is served (status %d)", resp.Status, r.Presented, r.FreshSurvivors, pr.Status)
	}
	r.Post = fmt.Sprintf("class=%s;left=%v;fresh=%d;keys=%d;replay=%d/%d;post=%v;jar=%s", r.Class, left, r.FreshSurvivors, r.KeysAfter, r.ReplayAuthed, r.Replays, r.PostAuthed, w.layout())
	r.Obs = fmt.Sprintf("sign-out %d Location=%q; presented %d session cookie(s) [%s], %d deleted, left %v; cookies set by the sign-out response and kept: %d; store keys %d -> %d; replays served %d/%d; next browser request served=%v; refresh inside sign-out=%v",
		resp.Status, resp.Location(), r.Presented, r.Layout, r.Deleted, left, r.FreshSurvivors, r.KeysBefore, r.KeysAfter, r.ReplayAuthed, r.Replays, r.PostAuthed, r.GrantInSignOut)
	if cmdFault || os.Getenv("C11_DEBUG") != "" {
		r.Obs += fmt.Sprintf("; Redis commands of the sign-out request %v, answered with an error reply: %v", r.Cmds, r.CmdFailed)
	}
}

// ---------------------------------------------------------------------------------------------
// the search

func c11Run(c *Ctx) {
	cfgs := c11Configs(c.Quick())
	maxDepth := 2
	users := []string{"alice", "carol"}
	rotates := []bool{false}
	if !c.Quick() {
		maxDepth = 3
		rotates = []bool{false, true}
	}
	c.Info["alphabet"] = map[string]any{
		"configurations": len(cfgs), "stores": 2, "cookie_domain_sets": 3, "cookie_paths": 2, "cookie_names": 5,
		"configurations_behind_reverse_proxy": len(c11FrontConfigs(c.Quick())), "reverse_proxy_fronts": c11Fronts, "reverse_proxy_cookie_domain_sets": c11FrontDomains,
		"command_faults": "every single Redis command the server receives during the sign-out request answered with an error reply (thorough: every pair), for the sign-out variants " + c11CmdFaultVariants(c.Quick()),
		"login_users": users, "refresh_token_rotation": rotates, "operations": c11Ops, "max_operations_after_login": maxDepth,
		"sign_out_variants_cookie": len(c11Outs(c11Cfg{}, c.Quick())), "sign_out_variants_redis": len(c11Outs(c11Cfg{Redis: true}, c.Quick())),
	}
	c11HandMade(c)
	c11Concurrent(c)
	// the units of work (one search each) are dealt to the shards in order of decreasing estimated
	// size, so that the searches with the Redis store (more sign-out variants, command faults) do
	// not all fall to the same shards; every unit belongs to exactly one shard
	type unitT struct {
		ci         int
		k          c11Cfg
		user       string
		rot        bool
		depth      int
		cmdFaults  bool
		est, order int
	}
	var units []unitT
	for ci, k := range cfgs {
		for _, user := range users {
			for _, rot := range rotates {
				depth, cmdFaults := c11UnitPlan(k, c.Quick(), maxDepth)
				est := len(c11Outs(k, c.Quick()))
				if cmdFaults {
					est += 22
				}
				for d := 0; d < depth; d++ {
					est *= 3
				}
				units = append(units, unitT{ci, k, user, rot, depth, cmdFaults, est, len(units)})
			}
		}
	}
	sort.SliceStable(units, func(a, b int) bool { return units[a].est > units[b].est })
	for i, u := range units {
		if !c.Mine(i) {
			continue
		}
		if c.Expired() {
			return
		}
		c11Search(c, u.ci, u.k, u.user, u.rot, u.depth, u.cmdFaults)
	}
}

func c11Search(c *Ctx, ci int, k c11Cfg, user string, rot bool, maxDepth int, cmdFaults bool) {
	outs := c11Outs(k, c.Quick())
	seen := map[string]bool{}
	post := map[string]bool{}
	frontier := [][]string{{}}
	mk := func(ops []string, o c11Out) *c11Case {
		return &c11Case{Cfg: k, User: user, Rotate: rot, Ops: append([]string{}, ops...), Out: o}
	}
	for depth := 0; depth <= maxDepth && len(frontier) > 0; depth++ {
		var next [][]string
		for _, ops := range frontier {
			if c.Expired() {
				return
			}
			// the state this history reaches: replayed twice, and the two executions must
			// canonicalise identically (an odd one out is settled by a third, counted and noted)
			reach := func() (canon, layout, trace string, ok bool) {
				w := c11State(c.Seed, mk(ops, c11Out{}))
				defer w.close()
				c.Inc("traces_validated_against_impl")
				if w.err != "" {
					c.Error("fixture failed: %s | %s", w.err, mk(ops, c11Out{}))
					return "", "", "", false
				}
				return w.canon(), w.layout(), strings.Join(w.trace, " ; "), true
			}
			if len(ops) > 0 {
				c.Inc("transitions")
				c.Inc("transitions_op_" + ops[len(ops)-1])
			}
			canon, layout, trace, ok := reach()
			if !ok {
				continue
			}
			canon2, layout2, trace2, ok := reach()
			if !ok {
				continue
			}
			if canon2 != canon {
				c.Inc("divergent_state_runs")
				c.Note("divergent state: %s\n A %s\n   %s\n B %s\n   %s", mk(ops, c11Out{}), canon, trace, canon2, trace2)
				canon3, _, _, ok := reach()
				if !ok {
					continue
				}
				switch canon3 {
				case canon:
				case canon2:
					canon, layout = canon2, layout2
				default:
					c.Unstable("the same history reached three different states: %s", mk(ops, c11Out{}))
					continue
				}
			}
			if seen[canon] {
				c.Inc("transitions_to_known_state")
				continue
			}
			seen[canon] = true
			c.Inc("states")
			c.Inc("states_presignout")
			c.Inc("layout_" + layout)
			if strings.HasSuffix(layout, "-truncated-names") {
				c.Inc("layout_" + strings.TrimSuffix(layout, "-truncated-names"))
			}
			c.SetMax("max_depth", int64(depth))

			// judge executes one sign-out variant in this state and judges it (nil: not judged)
			judge := func(cs *c11Case) *c11Result {
				r := c11Exec(c.Seed, cs)
				c.Inc("traces_validated_against_impl")
				for try := 0; try < 2 && r.Err == "" && r.Pre != canon; try++ {
					// the same history reached another state than before: never judged; re-executed,
					// and a harness error if it does not settle
					c.Inc("divergent_replays_retried")
					c.Note("divergent replay: %s\n expected %s\n reached  %s\n trace %s", cs, canon, r.Pre, strings.Join(r.Trace, " ; "))
					r = c11Exec(c.Seed, cs)
					c.Inc("traces_validated_against_impl")
				}
				c.Inc("transitions")
				c.Inc("evaluations")
				if r.Err != "" {
					c.Error("fixture failed: %s | %s", r.Err, cs)
					return nil
				}
				if r.Pre != canon {
					c.Unstable("replay diverged before the sign-out three times:\n%s\n%s | %s", canon, r.Pre, cs)
					return nil
				}
				c11Count(c, ci, cs, r, canon)
				if !post[r.Post] {
					post[r.Post] = true
					c.Inc("states")
					c.Inc("states_postsignout")
				}
				cs.Obs = r.Obs
				for _, f := range r.Findings {
					f := f
					if v := c.Violations[f.Key]; v != nil && v.Size <= cs.size() {
						// a confirmed, simpler counterexample of this key is already recorded: count only
						c.Violate(f.Key, f.Msg, cs.size(), cs)
						continue
					}
					c.confirm(f.Key, f.Msg+" | observed: "+r.Obs, cs.size(), cs, func() (string, bool) {
						r2 := c11Exec(c.Seed, cs)
						c.Inc("traces_validated_against_impl")
						if r2.has(f.Key) {
							return f.Key, true
						}
						return "", false
					})
				}
				return r
			}
			for _, o := range outs {
				r := judge(mk(ops, o))
				if r != nil && k.Redis && cmdFaults && c11CmdFaultVariant(o, c.Quick()) {
					// every single command of this sign-out request (thorough: every pair) answered
					// with an error reply by the server
					c11CmdFaults(c, o, r.Cmds, nil, c11CmdFaultDepth(o, c.Quick(), len(ops)), func(o2 c11Out) *c11Result { return judge(mk(ops, o2)) })
				}
			}
			if depth < maxDepth {
				for _, op := range c11Ops {
					next = append(next, append(append([]string{}, ops...), op))
				}
			}
		}
		frontier = next
	}
	c.Add("distinct_outcomes", int64(len(post)))
	c.Add("fixture_retries", int64(c11FixtureRetries))
	c11FixtureRetries = 0
}

func c11Count(c *Ctx, ci int, cs *c11Case, r *c11Result, canon string) {
	store := "cookie"
	if cs.Cfg.Redis {
		store = "redis"
	}
	c.Inc("signout_" + store + "_" + r.Class)
	c.Add("replays", int64(r.Replays))
	c.Add("cookies_presented", int64(r.Presented))
	c.Add("cookies_deleted", int64(r.Deleted))
	if r.Live && r.Presented > 0 {
		c.Distinct("distinct_nontrivial", fmt.Sprintf("%d|%s|%v|%s|%s", ci, cs.User, cs.Rotate, canon, cs.Out))
		c.Inc("signout_of_live_session")
	} else {
		c.Inc("signout_without_live_session")
	}
	for _, a := range r.AuthedOps {
		if a {
			c.Inc("history_requests_served")
		} else {
			c.Inc("history_requests_refused")
		}
	}
	if r.GrantInSignOut {
		c.Inc("refresh_inside_sign_out")
	}
	if r.GrantsOps > 0 {
		c.Inc("histories_with_refresh")
	}
	if cs.Cfg.Front != "" {
		c.Inc("signout_behind_reverse_proxy_" + store)
		c.Inc(fmt.Sprintf("signout_behind_reverse_proxy_%d_cookie_domains", len(cs.Cfg.Domains)))
		c.Add("cookies_deleted_behind_reverse_proxy", int64(r.Deleted))
	}
	if strings.HasPrefix(cs.Out.Fault, "cmd:") {
		c11CountCmdFault(c, cs, r)
	} else if cs.Out.Fault != "" {
		if r.FaultDelivered {
			c.Inc("fault_delivered_" + cs.Out.Fault)
			c.Inc("fault_" + cs.Out.Fault + "_answer_" + r.Class)
			if r.ReplayAuthed > 0 {
				c.Inc("replay_served_after_failed_sign_out")
			}
		} else {
			c.Inc("fault_not_reached")
		}
	} else {
		if cs.Cfg.Redis {
			c.Add("redis_replays_refused", int64(r.Replays-r.ReplayAuthed))
			if r.KeysBefore > 0 && r.KeysAfter == 0 {
				c.Inc("redis_key_removed")
			}
		} else {
			c.Add("cookie_store_replays_served", int64(r.ReplayAuthed))
		}
	}
	if r.FreshSurvivors > 0 && !r.PostAuthed {
		// session cookies set by the sign-out response itself stay in the jar but do not
		// authenticate: the statement speaks of the presented cookies only — counted, not judged
		c.Inc("ambiguous")
		c.Inc("ambiguous_unusable_cookies_set_by_sign_out_response")
		if c.Counters["ambiguous"] <= 2 {
			c.Note("ambiguous: %s | %s", r.Obs, cs)
		}
	}
	if len(r.Findings) == 0 {
		c.Sample(4, map[string]any{"case": cs.String(), "observed": r.Obs})
	}
}

func init() {
	register(&checkDef{
		id:    "C11",
		level: "model_checking",
		rule:  "breadth-first search over histories login(alice: one cookie | carol: split cookie) -> up to k operations {request, request with refresh, refresh that grows the session by 3000 incompressible bytes, refresh that shrinks it again} -> sign-out {GET,POST} x {no rd, rd} x {at once, 2 min later (refresh inside the sign-out request), later with growing, later with shrinking session} (quick: the delayed sign-outs only as GET without rd and POST with rd) (+ Redis: DEL failing / DEL reply lost) -> replay of every cookie set the browser ever held -> the browser's next request; for store {cookie, Redis} x cookie-domain {none, one, two nested} x cookie-path {/, /app} x cookie-name {default, 254, 255, 256 characters, app.sess+ion}; plus (a) sign-out presented with hand-made Cookie headers over every subset of {name, name_0..name_3} and two-digit parts (2 name lengths x 2 proxy prefixes x 2 methods) and (b) all interleavings (visited-state pruning; 3 threads: preemption bound 2 in quick, unbounded in thorough) of the sign-out with 1-2 requests of the same browser that are refreshing the shared session, at every store / lock / provider / retry-sleep step of the real proxy with the Redis store, for provider behaviours {static, rotating refresh token, refresh fails, no refresh token} (oracle: success redirect => no stored session afterwards and no replayed cookie authenticates), (c) the same search behind a fronting reverse proxy (--reverse-proxy, internal Host {foreign to all cookie domains, sibling under the widest one} != X-Forwarded-Host = the public host the jar knows) x cookie-domain sets {none, one, two nested in both orders, three with a foreign fall-back} x cookie-path x store (quick: default cookie name, histories of up to 1 operation): the jar must be empty of session cookies after the sign-out, and (d) Redis, default cookie name: every single command the server receives during the sign-out request (found by executing it; quick: sign-out at once / 2 min later as GET without rd and POST with rd; thorough: every fault-free variant, and every pair of commands after histories of up to 1 operation) answered with an error reply instead of being executed, beneath the repository's client and lock code (oracle: the sign-out's success redirect => no session entry in the store and no cookie set ever held is served again); each history replayed on a fresh world through the real handlers, states de-duplicated on a canonical form (jar layout, decrypted sessions, store keys and TTLs, provider state, clock offset, cookie sets ever held); states = distinct pre-sign-out states + distinct post-sign-out outcomes per search; non-trivial = distinct (configuration, state, sign-out variant) in which a live session presented at least one session cookie",
		assumptions: []string{
			"a session cookie is a cookie named <cookie-name>, <cookie-name>_<n>, or <shortened cookie-name>_<n> (how the store names split parts when name_<n> would exceed 256 characters)",
			"the jar deletes only on an exact (name, domain, host-only, path) match (RFC 6265 §5.3); a deletion with other attributes leaves the cookie",
			"upstream is the proxy's static://200 responder: served (authenticated) = 2xx answer, unauthenticated = anything else; error answer = status >= 400; success redirect = 3xx",
			"with the cookie store a replayed pre-sign-out cookie is still accepted (stateless store): measured, not a violation — the statement claims replay protection for server-side stores only",
			"session cookies that the sign-out response itself sets under names the browser did not present (a refresh inside the sign-out request that changes the cookie layout) are a violation only if the browser's next request is then served (the session demonstrably survived the sign-out); if they merely linger unusable they are counted as ambiguous — the statement's text speaks of the presented cookies",
			"cookie-refresh 1m, cookie-expire default (168h), single browser, single host app.example.com, static refresh token (thorough: also rotating)",
			"behind the reverse proxy the browser's host app.example.com reaches the proxy in X-Forwarded-Host (with X-Forwarded-Proto and X-Forwarded-For) and the Host header names the internal address; replays go through the same front",
			"command faults: an error reply (-ERR) to one command, no effect on the data; commands a Lua script of the lock issues inside the server are commands too; connection set-up commands (HELLO, CLIENT, AUTH, SELECT) are not failed; a fresh world has an empty script cache; under a command fault a 3xx to another place than the sign-out's own target is not taken for the success redirect (counted as ambiguous if a session is left)",
			"the store client's real-time limits are raised to 60 s through the connection URL (a stalled process must not turn into a store fault nobody injected)",
		},
		shards: func(tier string) int { return 16 },
		run:    c11Run,
		post: func(c *Ctx) {
			need := []string{"states", "transitions", "evaluations", "distinct_nontrivial", "replays",
				"signout_cookie_redirect", "signout_redis_redirect", "redis_key_removed", "redis_replays_refused", "cookie_store_replays_served",
				"fault_delivered_del-err", "fault_del-err_answer_error", "replay_served_after_failed_sign_out", "fault_delivered_del-lost",
				"layout_single", "layout_parts-2", "layout_parts-3", "layout_parts-2-truncated-names", "refresh_inside_sign_out", "histories_with_refresh", "history_requests_served",
				"transitions_to_known_state", "handmade_signouts", "conc_complete_executions", "conc_lock_contended",
				"conc_session_saved_by_a_request_in_flight", "conc_signout_answered_success"}
			need = append(need, c11EnvNeed...)
			if !c.Quick() {
				need = append(need, "cmd_fault_pairs")
			}
			sort.Strings(need)
			for _, k := range need {
				if c.Counters[k] == 0 {
					c.Error("vacuous: counter %s is zero", k)
				}
			}
			if c.Counters["cookies_deleted"] == 0 || c.Counters["signout_of_live_session"] == 0 {
				c.Error("vacuous: no sign-out of a live session deleted a cookie")
			}
		},
		replay: func(c *Ctx, raw json.RawMessage) string {
			var hm struct{ Kind string }
			if json.Unmarshal(raw, &hm) == nil && hm.Kind == "hand-made-cookie-set" {
				c.Shards = 1
				c11HandMade(c)
				return "hand-made cookie sets re-run (all of them: the part is 272 requests)"
			}
			var cr c11ConcReplay
			if json.Unmarshal(raw, &cr) == nil && cr.Kind == "concurrent-sign-out" {
				vatomic.Hooks = false
				e := c12NewEnv()
				defer e.up.Close()
				defer e.redis.Close()
				r := c11ConcExec(e, cr.Scenario, explore.Replay(cr.Choices, nil), false, c.Seed)
				for _, v := range r.violations {
					c.Violate(v[0], v[1], 1, cr)
				}
				return fmt.Sprintf("order %s outcome %s violations %d", sched.DescribeOrder(r.out.Order), r.outcome, len(r.violations))
			}
			var cs c11Case
			if err := json.Unmarshal(raw, &cs); err != nil || cs.Cfg.Name == "" {
				return "not a C11 case"
			}
			r := c11Exec(c.Seed, &cs)
			if r.Err != "" {
				return "fixture failed: " + r.Err
			}
			for _, f := range r.Findings {
				c.Violate(f.Key, f.Msg, cs.size(), cs)
			}
			if cs.Repeat > 1 {
				seen := map[string]int{r.Pre + " => " + r.Obs: 1}
				for i := 1; i < cs.Repeat; i++ {
					r2 := c11Exec(c.Seed, &cs)
					seen[r2.Pre+" => "+r2.Obs+r2.Err]++
				}
				out := fmt.Sprintf("%d runs, %d distinct observations", cs.Repeat, len(seen))
				for k, n := range seen {
					out += fmt.Sprintf("\n  %dx %s", n, k)
				}
				return out
			}
			return r.Obs
		},
	})
}
