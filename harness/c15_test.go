//go:build verif

package main

import (
	"encoding/binary"
	"encoding/json"
	"fmt"
	sessionsapi "github.com/oauth2-proxy/oauth2-proxy/v7/pkg/apis/sessions"
	"net"
	"net/http"
	"net/url"
	"regexp"
	"strconv"
	"strings"

	"github.com/oauth2-proxy/oauth2-proxy/v7/verifx/world"
)

// C15 — bypass rules match exactly what the operator configured (PROD).

type c15RuleSet struct {
	Routes []string
	Legacy []string
}

type c15Rule struct {
	method string
	negate bool
	re     *regexp.Regexp
}

var c15RuleSplit = regexp.MustCompile("!?=")

// reference parser of the documented rule syntax: [METHOD](=|!=)REGEX or bare REGEX
func c15ParseRules(rs c15RuleSet) []c15Rule {
	var out []c15Rule
	for _, l := range rs.Legacy {
		out = append(out, c15Rule{re: regexp.MustCompile(l)})
	}
	for _, r := range rs.Routes {
		loc := c15RuleSplit.FindStringIndex(r)
		if loc == nil {
			out = append(out, c15Rule{re: regexp.MustCompile(r)})
			continue
		}
		out = append(out, c15Rule{
			method: strings.ToUpper(r[:loc[0]]),
			negate: r[loc[0]:loc[1]] == "!=",
			re:     regexp.MustCompile(r[loc[1]:]),
		})
	}
	return out
}

func c15Exempt(rules []c15Rule, preflight bool, method, path string) bool {
	if preflight && method == "OPTIONS" {
		return true
	}
	for _, r := range rules {
		if r.method != "" && r.method != method {
			continue
		}
		if r.re.MatchString(path) != r.negate {
			return true
		}
	}
	return false
}

var c15RuleSets = []c15RuleSet{
	{Routes: []string{"GET=^/api"}},
	{Routes: []string{"^/api"}},
	{Routes: []string{"GET=/public$"}},
	{Routes: []string{"POST=^/api/"}},
	{Routes: []string{"GET!=^/private"}},
	{Legacy: []string{"^/api"}},
	{Legacy: []string{"/public"}},
	{Routes: []string{"GET=^/api$", "POST=^/public"}},
	{Routes: []string{"!=^/private"}},
	{Routes: []string{"get=^/api"}},
	{Routes: []string{"OPTIONS=^/"}},
	{Routes: []string{"GET=^/$"}},
	{Routes: []string{"HEAD=^/api/v1$"}},
	{Routes: []string{"DELETE!=^/api"}},
	{Routes: []string{"^/x/"}},
	{Routes: []string{"GET=^/api;v=1$"}},
	{Routes: []string{`GET=\?`}},
	{Routes: []string{"POST=^/public/a$"}, Legacy: []string{"^/apix$"}},
	{Routes: []string{"GET=^/a/public$"}},
	{Routes: []string{"GET=^/a%2Fpublic$"}},
	{},
}

var c15Methods = []string{"GET", "POST", "OPTIONS", "HEAD", "DELETE"}
var c15Paths = []string{"/", "/api", "/api/", "/api/v1", "/apix", "/x/api", "/public", "/public/a", "/private", "/private/public", "/a%2Fpublic", "/api;v=1",
	// origin-form targets that begin with two slashes are paths (RFC 7230 5.3.1), not authority + path
	"//x/api", "//x/public/a", "//api", "//private/public", "/public//a",
	// unreserved characters percent-encoded: the same path under RFC 3986 6.2.2.2 (the upstream will see /api)
	"/%61pi", "/%61%70%69/v1", "/p%75blic/a", "/priv%61te"}
var c15Queries = []string{"", "?", "?a=1", "?x=/public", "?/api", "?next=/public/a&b=2", "?a=1#/public", "?%2Fpublic", "?x=^/api", "?/private"}

type c15Case struct {
	Rules     c15RuleSet  `json:"rules"`
	Preflight bool        `json:"preflight"`
	Method    string      `json:"method"`
	Target    string      `json:"target"`
	Via       string      `json:"via,omitempty"` // direct | x-forwarded-uri (auth-only endpoint, reverse-proxy mode)
	Headers   [][2]string `json:"other_headers,omitempty"`
	Expected  string      `json:"expected"`
	Observed  string      `json:"observed"`
}

// c15Extra: further request headers for the relational checks ("other headers have no influence").
var c15Extra [][2]string

func c15Observe(px *Proxy, up *world.Upstream, method, target string) (exempt bool, status int, pan any) {
	up.Take()
	resp := world.Serve(px.H, &world.Req{Method: method, Target: target, Host: "app.example.com", Headers: c15Extra})
	hits := len(up.Take())
	if resp.Panic != nil {
		return false, 0, resp.Panic
	}
	denied := resp.Status == http.StatusForbidden || resp.Status == http.StatusUnauthorized
	if hits > 0 && denied {
		// would be a C01 matter; still count as exempt here
		denied = false
	}
	return !denied, resp.Status, nil
}

// c15ObserveForwarded: the nginx auth_request arrangement — the decision is asked of the auth-only
// endpoint of a proxy in reverse-proxy mode, the request path arrives in X-Forwarded-Uri.
func c15ObserveForwarded(px *Proxy, up *world.Upstream, method, target string) (exempt bool, status int, pan any) {
	up.Take()
	resp := world.Serve(px.H, &world.Req{Method: method, Target: "/oauth2/auth", Host: "app.example.com", Headers: append([][2]string{{"X-Forwarded-Uri", target}}, c15Extra...)})
	up.Take()
	if resp.Panic != nil {
		return false, 0, resp.Panic
	}
	return resp.Status == http.StatusAccepted, resp.Status, nil
}

// c15NormalizeUnreserved decodes the percent-encoded octets that stand for unreserved characters.
func c15NormalizeUnreserved(p string) string {
	var b strings.Builder
	for i := 0; i < len(p); i++ {
		if p[i] == '%' && i+2 < len(p)+0 && i+2 <= len(p)-1+0 {
			if v, err := strconv.ParseUint(p[i+1:i+3], 16, 8); err == nil {
				ch := byte(v)
				if ch >= 'a' && ch <= 'z' || ch >= 'A' && ch <= 'Z' || ch >= '0' && ch <= '9' || ch == '-' || ch == '.' || ch == '_' || ch == '~' {
					b.WriteByte(ch)
					i += 2
					continue
				}
			}
		}
		b.WriteByte(p[i])
	}
	return b.String()
}

// c15OtherHeaders: header sets that must not influence the decision.
func c15OtherHeaders(method, outsiderCookie string) [][][2]string {
	other := "GET"
	if method == "GET" {
		other = "OPTIONS"
	}
	return [][][2]string{
		{{"X-Forwarded-Method", other}, {"X-Http-Method-Override", other}},
		{{"X-Forwarded-Method", "POST"}, {"X-Original-Method", "DELETE"}},
		{{"Cookie", outsiderCookie}},
	}
}

func c15Short(h [][2]string) string {
	var p []string
	for _, kv := range h {
		v := kv[1]
		if len(v) > 40 {
			v = v[:40] + "…"
		}
		p = append(p, kv[0]+": "+v)
	}
	return strings.Join(p, ", ")
}

func c15BuildRoutes(rs c15RuleSet, preflight bool, up *world.Upstream, more ...string) *Proxy {
	// (the e-mail rule admits example.com only: the outsider's session cookie is valid but not authorised)
	flags := append(append(baseFlags(up.URL()), "--email-domain=example.com", "--cookie-secure=false"), more...)
	for _, r := range rs.Routes {
		flags = append(flags, "--skip-auth-route="+r)
	}
	for _, l := range rs.Legacy {
		flags = append(flags, "--skip-auth-regex="+l)
	}
	if preflight {
		flags = append(flags, "--skip-auth-preflight=true")
	}
	return mustProxy(&ProxyCfg{Flags: flags})
}

func c15Routes(c *Ctx, up *world.Upstream) {
	mint := mustProxy(&ProxyCfg{Flags: append(baseFlags(up.URL()), "--email-domain=*", "--cookie-secure=false")})
	outsiderCookie, merr := concMint(mint, &sessionsapi.SessionState{User: "mallory-sub", Email: "mallory@elsewhere.example.org", AccessToken: "at-m"}, "app.example.com")
	if merr != nil {
		c.Error("C15: cannot mint the outsider's session: %v", merr)
		return
	}
	caseNo := 0
	for _, rs := range c15RuleSets {
		for _, preflight := range []bool{false, true} {
			caseNo++
			if !c.Mine(caseNo) {
				continue
			}
			pxDirect := c15BuildRoutes(rs, preflight, up)
			pxRP := c15BuildRoutes(rs, preflight, up, "--reverse-proxy=true")
			rules := c15ParseRules(rs)
			for _, via := range []string{"direct", "x-forwarded-uri"} {
				px := pxDirect
				observe := c15Observe
				if via == "x-forwarded-uri" {
					px, observe = pxRP, c15ObserveForwarded
				}
				for _, method := range c15Methods {
					for _, path := range c15Paths {
						u, err := url.ParseRequestURI(path)
						if err != nil {
							c.Error("bad path %q", path)
							continue
						}
						e1 := c15Exempt(rules, preflight, method, u.Path)
						// the other admissible reading is the path as sent — but percent-encoded unreserved characters
						// are not a different path (RFC 3986 6.2.2.2): only reserved ones (%2F) leave two readings
						e2 := c15Exempt(rules, preflight, method, c15NormalizeUnreserved(u.EscapedPath()))
						// other headers have no influence: a header naming another method, and the session cookie
						// of a user whom the proxy's e-mail rule does not admit, change nothing about the decision
						if base, st0, p0 := observe(px, up, method, path); p0 == nil && !(via == "direct" && (st0 == http.StatusMovedPermanently || st0 == http.StatusPermanentRedirect)) {
							for hi, extra := range c15OtherHeaders(method, outsiderCookie) {
								c15Extra = extra
								got, status, pan := observe(px, up, method, path)
								c15Extra = nil
								c.Inc("evaluations")
								c.Inc("route_checks_with_other_headers")
								if pan == nil && got == base {
									continue
								}
								key := "C15/route-decision-depends-on-header:" + []string{"method-override", "method-override", "session-cookie"}[hi]
								cs := c15Case{Rules: rs, Preflight: preflight, Method: method, Target: path, Via: via, Headers: extra,
									Expected: fmt.Sprintf("exempt=%v (the decision without these headers)", base), Observed: fmt.Sprintf("exempt=%v status=%d panic=%v", got, status, pan)}
								ex := extra
								c.confirm(key, fmt.Sprintf("rules %v preflight=%v via %s: %s %s is exempt=%v, but with %s it is exempt=%v (status %d)", rs, preflight, via, method, path, base, c15Short(ex), got, status),
									len(path), cs, func() (string, bool) {
										c15Extra = nil
										a, _, _ := observe(px, up, method, path)
										c15Extra = ex
										b, _, _ := observe(px, up, method, path)
										c15Extra = nil
										return key, a != b
									})
							}
						}
						var first *bool
						for _, q := range c15Queries {
							target := path + q
							got, status, pan := observe(px, up, method, target)
							c.Inc("evaluations")
							c.Inc("route_checks_via_" + via)
							cs := c15Case{Rules: rs, Preflight: preflight, Method: method, Target: target, Via: via,
								Expected: fmt.Sprintf("exempt(decoded)=%v exempt(escaped)=%v", e1, e2), Observed: fmt.Sprintf("exempt=%v status=%d", got, status)}
							if pan != nil {
								c.Violate("C15/panic", fmt.Sprintf("panic %v on %s %s", pan, method, target), len(target), cs)
								continue
							}
							if via == "direct" && (status == http.StatusMovedPermanently || status == http.StatusPermanentRedirect) {
								// the router's own clean-path redirect (//x -> /x): nothing was decided about this target
								c.Inc("info_clean_path_redirect_instead_of_a_decision")
								continue
							}
							c.Sample(4, cs)
							if e1 || e2 {
								c.Distinct("distinct_nontrivial", fmt.Sprintf("%v|%v|%s|%s|%s", rs, preflight, method, target, via))
							}
							// relational non-interference: the query must not matter
							if first == nil {
								g := got
								first = &g
							} else if *first != got {
								again := func() (string, bool) {
									a, _, _ := observe(px, up, method, path)
									b, _, _ := observe(px, up, method, target)
									return "C15/route-regex-sees-query", a != b
								}
								c.confirm("C15/route-regex-sees-query",
									fmt.Sprintf("rules %v: %s %s exempt=%v but %s %s exempt=%v: the query string changes the bypass decision", rs, method, path, *first, method, target, got),
									len(target), cs, again)
								continue
							}
							if e1 != e2 {
								c.Inc("ambiguous")
								continue
							}
							if got != e1 {
								again := func() (string, bool) {
									g, _, _ := observe(px, up, method, target)
									return "C15/route-decision", g != e1
								}
								key := "C15/route-decision"
								if q != "" {
									key = "C15/route-regex-sees-query"
									again = nil
								}
								c.confirm(key, fmt.Sprintf("rules %v preflight=%v: %s %s: expected exempt=%v, observed exempt=%v (status %d)", rs, preflight, method, target, e1, got, status),
									len(target), cs, again)
							}
						}
					}
				}
			}
		}
	}
}

// ---- trusted IPs

var c15NetSets = [][]string{
	{"10.1.2.3"},
	{"10.1.0.0/16"},
	{"10.1.0.0/17", "10.1.128.0/18"},
	{"10.1.4.0/22", "10.1.4.128/25", "10.1.7.255/32"},
	{"10.1.0.0/24", "10.1.1.0/24", "10.1.3.0/24", "10.1.255.0/24"},
	{"10.1.16.0/20", "10.1.16.0/28", "10.1.31.240/28", "10.1.32.1/32"},
	{"::ffff:10.1.0.0/112"},
	{"::ffff:10.1.2.0/120", "10.1.3.0/24"},
	{"fd00::/112"},
	{"fd00::1000/116", "fd00::1fff/128", "fd00::8000/113"},
	{"10.1.0.0/30", "fd00::/126", "10.1.0.8/29", "fd00::10/124"},
	{"10.1.64.0/19", "10.1.64.0/18", "10.1.96.0/19", "10.1.200.17", "fd00::abcd"},
	{"10.1.255.254/31", "10.1.0.0/31", "10.1.127.255", "10.1.128.0/32"},
	// nested networks sharing a base address, narrow first (and a host entry first)
	{"10.1.0.0/24", "10.1.0.0/16"},
	{"10.1.2.3", "10.1.2.0/24", "10.1.0.0/17"},
	{"10.1.128.0/30", "10.1.128.0/20", "10.1.128.0/17"},
	{"fd00::/120", "fd00::/112"},
	{"fd00::8000", "fd00::8000/124", "fd00::8000/113"},
	{"::ffff:10.1.0.0/120", "10.1.0.0/16"},
	{"10.1.0.0/28", "::ffff:10.1.0.0/112"},
}

func c15RefTrusted(nets []*net.IPNet, ip net.IP) bool {
	for _, n := range nets {
		if n.Contains(ip) {
			return true
		}
	}
	return false
}

type c15IPCase struct {
	Nets     []string `json:"trusted_ips"`
	Remote   string   `json:"remote_addr"`
	Expected bool     `json:"expected_trusted"`
	Observed string   `json:"observed"`
}

func c15TrustedIPs(c *Ctx, up *world.Upstream) {
	var sets [][]string
	for _, set := range c15NetSets {
		sets = append(sets, set)
		if len(set) > 1 {
			rev := make([]string, len(set))
			for i := range set {
				rev[len(set)-1-i] = set[i]
			}
			sets = append(sets, rev)
		}
	}
	c.Info["net_sets_with_reversed_orders"] = len(sets)
	for si, set := range sets {
		if !c.Mine(si + 1000) {
			continue
		}
		if c.Expired() {
			return
		}
		flags := append(baseFlags(up.URL()), "--email-domain=*")
		var nets []*net.IPNet
		for _, s := range set {
			flags = append(flags, "--trusted-ip="+s)
			str := s
			if !strings.Contains(str, "/") {
				if strings.Contains(str, ":") {
					str += "/128"
				} else {
					str += "/32"
				}
			}
			_, n, err := net.ParseCIDR(str)
			if err != nil {
				c.Error("bad net %q: %v", s, err)
				return
			}
			nets = append(nets, n)
		}
		px := mustProxy(&ProxyCfg{Flags: flags})
		req, _ := http.NewRequest("GET", "http://app.example.com/x", nil)
		check := func(remote string, ip net.IP, full bool) {
			want := c15RefTrusted(nets, ip)
			c.Inc("evaluations")
			c.Inc("address_checks")
			var got bool
			var pan any
			func() {
				defer func() {
					if r := recover(); r != nil {
						pan = r
					}
				}()
				req.RemoteAddr = remote
				got = verifIsTrustedIP(px.P, req)
			}()
			cs := c15IPCase{Nets: set, Remote: remote, Expected: want, Observed: fmt.Sprintf("trusted=%v panic=%v", got, pan)}
			if want {
				c.Distinct("distinct_nontrivial", fmt.Sprintf("%d|%s", si, remote))
			}
			if pan != nil {
				c.Violate("C15/trusted-ip-panic", fmt.Sprintf("trusted-ip %v: remote %s panics: %v", set, remote, pan), len(remote), cs)
				return
			}
			if got != want {
				c.confirm("C15/trusted-ip-decision", fmt.Sprintf("trusted-ip %v: remote %s: expected trusted=%v, observed %v", set, remote, want, got), len(remote), cs,
					func() (string, bool) {
						req.RemoteAddr = remote
						return "C15/trusted-ip-decision", verifIsTrustedIP(px.P, req) != want
					})
			}
			if full {
				c.Inc("full_proxy_address_requests")
				up.Take()
				resp := world.Serve(px.H, &world.Req{Method: "GET", Target: "/x", Host: "app.example.com", Remote: remote})
				hit := len(up.Take()) > 0
				if resp.Panic != nil {
					c.Violate("C15/trusted-ip-panic", fmt.Sprintf("trusted-ip %v: remote %s panics: %v", set, remote, resp.Panic), len(remote), cs)
				} else if hit != want {
					c.Violate("C15/trusted-ip-decision-full", fmt.Sprintf("trusted-ip %v: remote %s through ServeHTTP: expected upstream hit=%v, observed %v (status %d)", set, remote, want, hit, resp.Status), len(remote), cs)
				}
			}
		}
		// boundary addresses of every network (first, last, the ones just outside) through the full proxy
		boundary := map[string]bool{}
		for _, n := range nets {
			first := append(net.IP{}, n.IP...)
			last := append(net.IP{}, n.IP...)
			for i := range last {
				last[i] |= ^n.Mask[i]
			}
			for _, ip := range []net.IP{first, last, ipAdd(first, -1), ipAdd(last, 1)} {
				boundary[ip.String()] = true
			}
		}
		// every address of 10.1.0.0/16 in three notations
		step := 1
		if !verifHasIsTrustedIP {
			// the decision function could not be located in the source (renamed away): every decision goes
			// through the whole handler, the universe is thinned out and the run is not exhaustive
			step = 97
			c.Exhaustive = false
			if si == 0 {
				c.Note("no method (*OAuthProxy) ..trusted..(*http.Request) bool found: trusted-IP decisions are read off the handler, every 97th address only")
			}
		}
		for x := 0; x < 65536; x += step {
			a, b := byte(x>>8), byte(x)
			ip := net.IPv4(10, 1, a, b)
			dotted := fmt.Sprintf("10.1.%d.%d", a, b)
			full := boundary[dotted]
			check(dotted+":1234", ip, full)
			check(fmt.Sprintf("[::ffff:%s]:1234", dotted), ip, full)
			check(fmt.Sprintf("[::ffff:a01:%x]:1234", x), ip, false)
		}
		// the same universe as the client address a front proxy reports (reverse-proxy mode with a
		// real-client-IP header; the peer itself is an address outside every network): the notations a
		// header can carry — bare, with port, IPv4-mapped dotted (bare, bracketed with port, long form),
		// IPv4-mapped hex, and as first element of a list
		for _, hdrName := range []string{"X-Forwarded-For", "X-Real-IP"} {
			pxH := mustProxy(&ProxyCfg{Flags: append(append([]string{}, flags...), "--reverse-proxy=true", "--real-client-ip-header="+hdrName)})
			reqH, _ := http.NewRequest("GET", "http://app.example.com/x", nil)
			reqH.RemoteAddr = "198.51.100.77:40000"
			checkH := func(value string, ip net.IP) {
				want := c15RefTrusted(nets, ip)
				c.Inc("evaluations")
				c.Inc("address_checks_header_borne")
				var got bool
				var pan any
				func() {
					defer func() {
						if r := recover(); r != nil {
							pan = r
						}
					}()
					reqH.Header.Set(hdrName, value)
					got = verifIsTrustedIP(pxH.P, reqH)
				}()
				cs := c15IPCase{Nets: set, Remote: hdrName + ": " + value, Expected: want, Observed: fmt.Sprintf("trusted=%v panic=%v", got, pan)}
				if want {
					c.Distinct("distinct_nontrivial", fmt.Sprintf("%d|%s|%s", si, hdrName, value))
				}
				if pan != nil {
					c.Violate("C15/trusted-ip-panic", fmt.Sprintf("trusted-ip %v: %s: %s panics: %v", set, hdrName, value, pan), len(value), cs)
				} else if got != want {
					c.confirm("C15/trusted-ip-decision-header", fmt.Sprintf("trusted-ip %v, client address reported in %s: %q: expected trusted=%v, observed %v", set, hdrName, value, want, got), len(value), cs,
						func() (string, bool) {
							reqH.Header.Set(hdrName, value)
							return "C15/trusted-ip-decision-header", verifIsTrustedIP(pxH.P, reqH) != want
						})
				}
			}
			hstep := 1
			if c.Quick() {
				hstep = 7 // every 7th address of the /16 (all boundary addresses are added below)
			}
			if !verifHasIsTrustedIP {
				hstep = 97 * 7
			}
			probe := func(x int) {
				a, b := byte(x>>8), byte(x)
				ip := net.IPv4(10, 1, a, b)
				dotted := fmt.Sprintf("10.1.%d.%d", a, b)
				checkH(dotted, ip)
				checkH(dotted+":4711", ip)
				checkH("::ffff:"+dotted, ip)
				checkH("[::ffff:"+dotted+"]:4711", ip)
				checkH(fmt.Sprintf("::ffff:a01:%x", x), ip)
				checkH("0:0:0:0:0:ffff:"+dotted, ip)
				checkH(dotted+", 203.0.113.9", ip)
				checkH(" ::ffff:"+dotted+" , 10.1.0.1", ip)
			}
			for x := 0; x < 65536; x += hstep {
				probe(x)
			}
			for d := range boundary {
				if ip := net.ParseIP(d).To4(); ip != nil && ip[0] == 10 && ip[1] == 1 {
					probe(int(ip[2])<<8 | int(ip[3]))
				}
			}
			// a header that is present but names no address: the client address is unknown, so it lies in
			// no network — whatever the address of the peer (here a peer INSIDE the first network, which is
			// what a front proxy on the trusted side looks like)
			if len(nets) > 0 {
				inside := append(net.IP{}, nets[0].IP...)
				peer := net.JoinHostPort(inside.String(), "40000")
				reqH.RemoteAddr = peer
				for _, bad := range []string{"unknown", "_hidden", "-", ", 203.0.113.7", " , 10.1.2.3", "unknown, 10.1.2.3", "10.1.2.3.4", "[10.1.2.3]", "10.1.2.300", "fd00::zz", "::ffff:10.1.2", "localhost"} {
					c.Inc("evaluations")
					c.Inc("address_checks_header_unparseable")
					reqH.Header.Set(hdrName, bad)
					var got bool
					var pan any
					func() {
						defer func() {
							if r := recover(); r != nil {
								pan = r
							}
						}()
						got = verifIsTrustedIP(pxH.P, reqH)
					}()
					cs := c15IPCase{Nets: set, Remote: fmt.Sprintf("%s: %q (peer %s)", hdrName, bad, peer), Expected: false, Observed: fmt.Sprintf("trusted=%v panic=%v", got, pan)}
					if pan != nil {
						c.Violate("C15/trusted-ip-panic", fmt.Sprintf("trusted-ip %v: %s: %q panics: %v", set, hdrName, bad, pan), len(bad), cs)
					} else if got {
						c.Violate("C15/trusted-ip-decision-header-unparseable", fmt.Sprintf("trusted-ip %v, reverse-proxy mode: %s: %q names no address, yet the request is exempt (the peer %s lies inside %s)", set, hdrName, bad, peer, nets[0]), len(bad), cs)
					}
				}
				reqH.RemoteAddr = "198.51.100.77:40000"
			}
			for x := 0; x < 65536; x += hstep {
				ip := net.ParseIP(fmt.Sprintf("fd00::%x", x))
				checkH(fmt.Sprintf("fd00::%x", x), ip)
				checkH(fmt.Sprintf("[fd00::%x]:443", x), ip)
				checkH(fmt.Sprintf("fd00:0:0:0:0:0:0:%x", x), ip)
			}
		}
		// every address of fd00::/112
		for x := 0; x < 65536; x += step {
			ip := net.ParseIP(fmt.Sprintf("fd00::%x", x))
			check(fmt.Sprintf("[fd00::%x]:443", x), ip, boundary[ip.String()])
		}
		// neighbours of the universes and unrelated addresses
		for _, s := range []string{"10.0.255.255", "10.2.0.0", "9.1.0.0", "11.1.2.3", "127.0.0.1", "0.0.0.0", "255.255.255.255", "192.0.2.1"} {
			check(s+":1", net.ParseIP(s), true)
			check("[::ffff:"+s+"]:1", net.ParseIP(s), true)
		}
		for _, s := range []string{"fd00::1:0", "fcff:ffff:ffff:ffff:ffff:ffff:ffff:ffff", "::1", "::", "fe80::1", "::a01:203", "2001:db8::a01:203"} {
			check("["+s+"]:1", net.ParseIP(s), true)
		}
		// malformed remote addresses are never trusted
		for _, s := range []string{"", "10.1.2.3", "[10.1.2.3]", "10.1.2.3:", "10.1.2.3.4:1", "[fd00::1", "fd00::1:443", "@", "10.1.2.3%eth0:1", "010.001.002.003:1"} {
			c.Inc("evaluations")
			var got bool
			var pan any
			func() {
				defer func() { pan = recover() }()
				req.RemoteAddr = s
				got = verifIsTrustedIP(px.P, req)
			}()
			host, _, err := net.SplitHostPort(s)
			var want bool
			if err == nil {
				if ip := net.ParseIP(host); ip != nil {
					want = c15RefTrusted(nets, ip)
				}
			}
			if pan != nil {
				c.Violate("C15/trusted-ip-panic", fmt.Sprintf("remote %q panics: %v", s, pan), len(s), c15IPCase{Nets: set, Remote: s})
			} else if got != want {
				c.Violate("C15/trusted-ip-malformed", fmt.Sprintf("trusted-ip %v: malformed remote %q trusted=%v want %v", set, s, got, want), len(s), c15IPCase{Nets: set, Remote: s, Expected: want})
			}
		}
	}
	// networks with host bits set must be refused at validation
	if c.Shard == 0 {
		for _, bad := range []string{"10.1.2.3/24", "10.1.0.1/16", "fd00::1/112", "::ffff:10.1.2.3/120", "10.1.0.0/33", "10.1.0/24", "nonsense"} {
			c.Inc("evaluations")
			_, err := buildProxy(&ProxyCfg{Flags: append(baseFlags(up.URL()), "--email-domain=*", "--trusted-ip="+bad)})
			if err == nil {
				c.Violate("C15/host-bits-accepted", fmt.Sprintf("trusted-ip %q (host bits set / malformed) passed validation", bad), len(bad), bad)
			}
		}
	}
}

func ipAdd(ip net.IP, d int) net.IP {
	if v4 := ip.To4(); v4 != nil {
		n := binary.BigEndian.Uint32(v4)
		out := make(net.IP, 4)
		binary.BigEndian.PutUint32(out, n+uint32(d))
		return out
	}
	out := append(net.IP{}, ip.To16()...)
	lo := binary.BigEndian.Uint64(out[8:])
	hi := binary.BigEndian.Uint64(out[:8])
	nlo := lo + uint64(int64(d))
	if d > 0 && nlo < lo {
		hi++
	}
	if d < 0 && nlo > lo {
		hi--
	}
	binary.BigEndian.PutUint64(out[8:], nlo)
	binary.BigEndian.PutUint64(out[:8], hi)
	return out
}

func init() {
	register(&checkDef{
		id:          "C15",
		level:       "exploration",
		rule:        "full product methods x paths x queries x rule-sets x preflight through ServeHTTP (reference: regex on the path only, decoded and escaped readings; relational: outcome independent of the query) + every address of 10.1.0.0/16 (dotted, IPv4-mapped, hex-mapped) and of fd00::/112 per network set through isTrustedIP against net.IPNet.Contains, boundary addresses through ServeHTTP; non-trivial = case whose expected outcome is 'exempt'/'trusted'",
		assumptions: []string{"path reading: URL.Path and EscapedPath both admissible; cases where they differ are counted as ambiguous", "exempt is observed as: status is neither 401 nor 403, or the upstream was hit"},
		shards:      func(tier string) int { return 16 },
		run: func(c *Ctx) {
			world.NewIdP()
			up := world.NewUpstream("u")
			defer up.Close()
			c.Info["alphabet"] = map[string]int{"methods": len(c15Methods), "paths": len(c15Paths), "queries": len(c15Queries), "rule_sets": len(c15RuleSets), "net_sets": len(c15NetSets)}
			c15Routes(c, up)
			c15TrustedIPs(c, up)
		},
		replay: func(c *Ctx, raw json.RawMessage) string {
			var cs c15Case
			if err := json.Unmarshal(raw, &cs); err != nil || cs.Method == "" {
				return "not a route case"
			}
			world.NewIdP()
			up := world.NewUpstream("u")
			defer up.Close()
			px := c15BuildRoutes(cs.Rules, cs.Preflight, up)
			observe := c15Observe
			if cs.Via == "x-forwarded-uri" {
				px, observe = c15BuildRoutes(cs.Rules, cs.Preflight, up, "--reverse-proxy=true"), c15ObserveForwarded
			}
			if len(cs.Headers) > 0 {
				a, _, _ := observe(px, up, cs.Method, cs.Target)
				c15Extra = cs.Headers
				b, st, _ := observe(px, up, cs.Method, cs.Target)
				c15Extra = nil
				if a != b {
					c.Violate("C15/route-decision-depends-on-header:replayed", fmt.Sprintf("exempt=%v without, exempt=%v (status %d) with %s", a, b, st, c15Short(cs.Headers)), 1, cs)
				}
				return fmt.Sprintf("without the headers exempt=%v, with them exempt=%v", a, b)
			}
			got, status, pan := observe(px, up, cs.Method, cs.Target)
			base, _, _ := observe(px, up, cs.Method, pathOf(cs.Target))
			if base != got {
				c.Violate("C15/route-regex-sees-query", "query changes the decision", 1, cs)
			}
			if u, err := url.ParseRequestURI(pathOf(cs.Target)); err == nil {
				rules := c15ParseRules(cs.Rules)
				e1, e2 := c15Exempt(rules, cs.Preflight, cs.Method, u.Path), c15Exempt(rules, cs.Preflight, cs.Method, c15NormalizeUnreserved(u.EscapedPath()))
				if e1 == e2 && got != e1 && pan == nil {
					c.Violate("C15/route-decision", fmt.Sprintf("expected exempt=%v, observed exempt=%v (status %d)", e1, got, status), 1, cs)
				}
			}
			return fmt.Sprintf("exempt=%v status=%d panic=%v; same path without query: exempt=%v", got, status, pan, base)
		},
	})
}
