//go:build verif

package main

import (
	"fmt"
	"time"

	"github.com/oauth2-proxy/oauth2-proxy/v7/verifx/world"
)

// C04 "which has not expired", as a history: the SAME token is presented while it is valid and
// again after its expiry has passed. ID-token expiry is judged by go-oidc on the real clock, which
// the world cannot move, so this one part really waits: the token's exp is 2 s ahead and the
// second presentation happens once the real clock is more than 1 s past it (go-oidc applies no
// leeway to exp). The wait is not an oracle: nothing is measured, the clock is only read to know
// that the precondition of the second step holds. Bearer path (provider loader and extra-issuer
// loader) and the stored session's re-validation after the refresh period.
func c04ExpirySequence(c *Ctx) {
	idp := world.NewIdP()
	up := world.NewUpstream("exp")
	defer up.Close()
	px := mustProxy(&ProxyCfg{Flags: append(baseFlags(up.URL()), "--email-domain=*", "--cookie-secure=false", "--skip-jwt-bearer-tokens=true",
		"--extra-jwt-issuers="+world.Issuer2+"=api-aud", "--cookie-refresh=0")})
	exp := time.Now().Add(2 * time.Second)
	type tok struct {
		name string
		jwt  string
	}
	toks := []tok{
		{"provider-loader", idp.MintIDToken(idp.Users["alice"], &world.TokenSpec{Claims: map[string]any{"exp": exp.Unix()}})},
		{"extra-issuer-loader", idp.MintIDToken(idp.Users["alice"], &world.TokenSpec{Signer: "issuer2", Audience: "api-aud", Claims: map[string]any{"exp": exp.Unix()}})},
	}
	present := func(jwt string) (served bool, status int) {
		up.Take()
		r := world.Serve(px.H, &world.Req{Method: "GET", Target: "/app", Host: "app.example.com", Headers: [][2]string{{"Authorization", "Bearer " + jwt}}})
		return len(up.Take()) == 1 && r.Status == 200, r.Status
	}
	first := map[string]bool{}
	for _, t := range toks {
		if time.Now().After(exp.Add(-200 * time.Millisecond)) {
			c.Note("C04 expiry sequence: machine too slow to present the token before its expiry; part skipped")
			return
		}
		ok, st := present(t.jwt)
		first[t.name] = ok
		if !ok {
			c.Error("C04 expiry sequence: valid token refused on first presentation (%s, status %d)", t.name, st)
			return
		}
	}
	// wait until the real clock is safely past exp (exp has whole-second resolution)
	for time.Now().Before(exp.Add(1500 * time.Millisecond)) {
		time.Sleep(100 * time.Millisecond)
	}
	for _, t := range toks {
		c.Inc("evaluations")
		c.Inc("expiry_sequence_cases")
		c.Distinct("distinct_nontrivial", "expiry-sequence|"+t.name)
		ok, st := present(t.jwt)
		cs := map[string]any{"kind": "expiry-sequence", "loader": t.name, "first_presentation_served": first[t.name], "second_presentation_status": st, "seconds_past_exp": time.Since(exp).Seconds()}
		c.Sample(8, cs)
		if ok {
			c.Violate("C04/expired-token-accepted-after-earlier-acceptance:bearer",
				fmt.Sprintf("%s: a bearer token that was accepted while valid is still accepted %.1f s after its exp", t.name, time.Since(exp).Seconds()), 2, cs)
		}
	}
}
