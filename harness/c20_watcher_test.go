//go:build verif

package main

import (
	"fmt"
	"os"
	"path/filepath"
	"strings"
	"time"

	"github.com/oauth2-proxy/oauth2-proxy/v7/pkg/authentication/basic"
	"github.com/oauth2-proxy/oauth2-proxy/v7/verifx/vfsnotify"
)

// C20, what sets a reload off. "Once a reload has completed every later validation reflects the new
// contents" presupposes that rewriting the file leads to a reload at all. The file watcher's event
// handling (pkg/watcher) decides that: the production wiring (NewUserMap / the htpasswd validator ->
// watcher.WatchFileForUpdates -> reload) is driven with every sequence of up to 3 file-system events
// from the alphabet below, delivered through the fake of fsnotify the build substitutes; the file
// has been replaced (new contents in place, as after a rename-over, a remove-and-create or an
// in-place rewrite) before the first event arrives. Oracle: if the sequence contains an event that
// reports the watched file written, created or removed — what the watcher's own documentation
// names as the triggers, and what the three ways of replacing a file produce — validations after
// the last event has been handled answer from the new contents. Sequences of attribute changes and
// renames only are measured, not judged.

type c20WatchCase struct {
	Kind   string   `json:"kind"`
	File   string   `json:"file"` // emails | htpasswd
	Events []string `json:"events"`
}

var c20WatchOps = []struct {
	Name    string
	Op      vfsnotify.Op
	Trigger bool
}{
	{"WRITE", vfsnotify.Write, true},
	{"CREATE", vfsnotify.Create, true},
	{"REMOVE", vfsnotify.Remove, true},
	{"REMOVE|CHMOD", vfsnotify.Remove | vfsnotify.Chmod, true},
	{"WRITE|CHMOD", vfsnotify.Write | vfsnotify.Chmod, true},
	{"CHMOD", vfsnotify.Chmod, false},
	{"RENAME", vfsnotify.Rename, false},
}

func c20WatchRun(c *Ctx, cs c20WatchCase) (key, msg string) {
	dir, err := os.MkdirTemp(scratch(), "c20w-")
	if err != nil {
		panic(err)
	}
	// (the directory stays until the process ends: an implementation may reload later than the event
	// handler returns — a debounce, a goroutine — and would find the file gone; the emails loader
	// then calls Fatalf, i.e. os.Exit)
	path := filepath.Join(dir, "list")
	var oldC, newC string
	var valid func(old bool) bool // does a validation answer from the old (true) / new (false) contents?
	done := make(chan bool)
	defer close(done)
	switch cs.File {
	case "emails":
		oldC, newC = "old@x.org\nboth@x.org\n", "new@x.org\nboth@x.org\n"
		if err := os.WriteFile(path, []byte(oldC), 0o600); err != nil {
			panic(err)
		}
		um := NewUserMap(path, done, func() {})
		valid = func(old bool) bool {
			if old {
				return um.IsValid("old@x.org") && !um.IsValid("new@x.org")
			}
			return um.IsValid("new@x.org") && !um.IsValid("old@x.org")
		}
	case "htpasswd":
		oldC, newC = "old:"+shaEntry("pw")+"\nboth:"+shaEntry("pw")+"\n", "new:"+shaEntry("pw")+"\nboth:"+shaEntry("pw")+"\n"
		if err := os.WriteFile(path, []byte(oldC), 0o600); err != nil {
			panic(err)
		}
		v, err := basic.NewHTPasswdValidator(path)
		if err != nil {
			return "", "HARNESS htpasswd validator: " + err.Error()
		}
		valid = func(old bool) bool {
			if old {
				return v.Validate("old", "pw") && !v.Validate("new", "pw")
			}
			return v.Validate("new", "pw") && !v.Validate("old", "pw")
		}
	}
	w := vfsnotify.Last()
	if w == nil {
		return "", "HARNESS no watcher was created"
	}
	if !valid(true) {
		return "", "HARNESS initial contents not loaded"
	}
	// the file is replaced: new contents under the same name (rename over it)
	tmp := path + ".new"
	if err := os.WriteFile(tmp, []byte(newC), 0o600); err != nil {
		panic(err)
	}
	if err := os.Rename(tmp, path); err != nil {
		panic(err)
	}
	trigger := false
	for _, name := range cs.Events {
		for _, o := range c20WatchOps {
			if o.Name == name {
				trigger = trigger || o.Trigger
				if !w.Deliver(vfsnotify.Event{Name: path, Op: o.Op}, 30) {
					return "C20/watcher/stops-handling-events", fmt.Sprintf("%s file: after events %v the watcher no longer takes events (30 s)", cs.File, cs.Events)
				}
			}
		}
	}
	// barrier: an attribute change is ignored by the handler; once it has been taken, everything
	// before it has been handled completely (events are handled one at a time)
	if !w.Deliver(vfsnotify.Event{Name: path, Op: vfsnotify.Chmod}, 30) {
		return "C20/watcher/stops-handling-events", fmt.Sprintf("%s file: after events %v the watcher no longer takes events (30 s)", cs.File, cs.Events)
	}
	// the reload may be asynchronous to the event handler (settle time, goroutine): new contents have to
	// be in force eventually — within 5 s of real time, the one generous wait of this part, only ever
	// spent in full when the reload does not come
	if trigger && !valid(false) {
		for i := 0; i < 100 && !valid(false); i++ {
			time.Sleep(50 * time.Millisecond)
		}
		if valid(false) {
			c.Inc("watcher_sequences_with_delayed_reload")
		}
	}
	switch {
	case valid(false):
		c.Inc("watcher_sequences_after_which_new_contents_answer")
		return "", ""
	case !trigger:
		c.Inc("watcher_info_rename_or_attribute_events_only_old_contents_kept")
		return "", ""
	case valid(true):
		return "C20/watcher/replaced-file-not-reloaded", fmt.Sprintf("%s file replaced (new contents in place), events %v handled, and validations still answer from the old contents", cs.File, cs.Events)
	default:
		return "C20/watcher/neither-old-nor-new", fmt.Sprintf("%s file replaced, events %v handled: validations answer from neither the old nor the new contents", cs.File, cs.Events)
	}
}

func c20WatcherEvents(c *Ctx) {
	if c.Shard != 0 {
		return
	}
	var seqs [][]string
	var rec func(prefix []string, d int)
	rec = func(prefix []string, d int) {
		if len(prefix) > 0 {
			seqs = append(seqs, append([]string{}, prefix...))
		}
		if d == 0 {
			return
		}
		for _, o := range c20WatchOps {
			if c.Quick() && len(prefix) == 2 && strings.Contains(o.Name, "|") {
				continue // quick: combined flags not in third position
			}
			rec(append(prefix, o.Name), d-1)
		}
	}
	rec(nil, 3)
	c.Info["watcher_event_sequences"] = len(seqs)
	for _, file := range []string{"emails", "htpasswd"} {
		for _, ev := range seqs {
			if c.Expired() {
				return
			}
			cs := c20WatchCase{Kind: "watcher-events", File: file, Events: ev}
			key, msg := c20WatchRun(c, cs)
			c.Inc("evaluations")
			c.Inc("watcher_sequences")
			c.Inc("traces_validated_against_impl")
			if strings.HasPrefix(msg, "HARNESS") {
				c.Error("watcher part: %s", msg)
				return
			}
			if key != "" {
				c.confirm(key, msg, len(ev), cs, func() (string, bool) {
					k, _ := c20WatchRun(c, cs)
					return k, k != ""
				})
				return // one confirmed case is enough (each costs the full wait)
			}
		}
	}
}
