//go:build verif

package main

import (
	"bytes"
	"context"
	"crypto/sha256"
	"encoding/base64"
	"encoding/json"
	"errors"
	"fmt"
	"io"
	"net/http"
	"net/url"
	"os"
	"runtime"
	"strings"
	"sync"
	"sync/atomic"
	"time"

	jose "github.com/go-jose/go-jose/v3"
	"github.com/oauth2-proxy/oauth2-proxy/v7/verifx/explore"
	"github.com/oauth2-proxy/oauth2-proxy/v7/verifx/world"
)

// C14 — identity-provider failures and malformed responses fail closed (ENV).
//
// Every request the proxy sends to its provider is a choice point of the explorer: alternative
// 0 is the well-formed answer, every other alternative is one response kind of the alphabet
// below (one deviation each). Each execution builds a fresh world (clock, randomness, provider,
// proxy, browser), drives one flow through the real handlers with the chosen answers, and is
// then judged:
//
//   * a session the browser holds after a request may differ from the one it held before only
//     if every provider endpoint that kind of session depends on gave at least one well-formed
//     successful answer during that request (x/oauth2 retries a failed token request once, so
//     "no fault at all" would be the wrong criterion);
//   * a request is not passed to the upstream if a provider call its validation depends on
//     failed in that very request;
//   * nothing panics, and afterwards a well-formed login on the same proxy succeeds.
//
// Response kinds whose acceptance the statement leaves open (a value the decoder can coerce, a
// well-formed but oversized document, a 200 from a status-only endpoint) are counted as
// `ambiguous` when accepted and can never fail.

const (
	c14Host     = "app.example.com"
	c14Cookie   = "_oauth2_proxy"
	c14ExtraAud = "extra-aud"
	c14RotKid   = "key-unknown" // kid the provider signs with after its key "rotation" (world.SignJWT "unknown-kid")
)

// ---- scenarios

type c14Scenario struct {
	Name  string   `json:"name"`
	Flow  string   `json:"flow"` // login | bearer | refresh | revalidate
	Flags []string `json:"flags"`
	// Needs: endpoints a created/extended session depends on in any case; every further endpoint the
	// proxy consults during the request (profile endpoint for a claim the token lacks, key set for an
	// unknown key id) is needed as well
	Needs []string `json:"needs"`
	// ServeNeeds: endpoints whose failure inside a request forbids serving that request
	ServeNeeds  []string `json:"serve_needs,omitempty"`
	Discovery   bool     `json:"discovery_is_choice_point,omitempty"`
	Profile     bool     `json:"id_token_without_email,omitempty"`
	ProfileOpt  bool     `json:"id_token_without_groups_and_preferred_username,omitempty"`
	CustomAud   bool     `json:"custom_audience_claim,omitempty"`
	Rotated     bool     `json:"refresh_signed_with_new_key,omitempty"`
	BigLogin    bool     `json:"login_id_token_padded,omitempty"`
	ExtraIssuer bool     `json:"bearer_token_of_extra_issuer,omitempty"`
	Lenient     bool     `json:"profile_and_validate_endpoints_accept_any_token,omitempty"`
	PastExpiry  bool     `json:"session_past_its_expiry_when_refreshed,omitempty"`
	OIDC        bool     `json:"oidc"`
	// claim-shape scenarios (c14_shapes_test.go): the ID tokens of the flow lack these claims, so the
	// profile endpoint is consulted for each of them (in the order the proxy needs them)
	Shape bool     `json:"claim_shape_scenario,omitempty"`
	Lacks []string `json:"id_token_lacks,omitempty"`
	// Only: choice points at these endpoints only (the other endpoints answer well-formed; their
	// positions are enumerated by the scenarios above)
	Only []string `json:"choice_points_only_at,omitempty"`
	// ProfileUnverified: the profile endpoint's well-formed answer says email_verified=false during
	// the explored requests (the healthy lookup ends in a refusal)
	ProfileUnverified bool `json:"profile_says_email_unverified,omitempty"`
}

func (sc *c14Scenario) lacks(claim string) bool {
	for _, l := range sc.Lacks {
		if l == claim {
			return true
		}
	}
	return false
}

func (sc *c14Scenario) choicePointAt(endpoint string) bool {
	if len(sc.Only) == 0 {
		return true
	}
	for _, o := range sc.Only {
		if o == endpoint {
			return true
		}
	}
	return false
}

func c14Scenarios() []*c14Scenario {
	oidc := c14OIDCFlags()
	kc := []string{
		"--provider=keycloak", "--client-id=" + world.ClientID, "--client-secret=" + world.ClientSecret,
		"--cookie-secret=" + cookieSecret32, "--http-address=-",
		"--login-url=" + world.Issuer + "/authorize", "--redeem-url=" + world.Issuer + "/token",
		"--profile-url=" + world.Issuer + "/userinfo", "--validate-url=" + world.Issuer + "/validate",
		"--email-domain=*", "--cookie-secure=false", "--cookie-refresh=1m", "--cookie-expire=1h",
	}
	with := func(base []string, more ...string) []string { return append(append([]string{}, base...), more...) }
	return []*c14Scenario{
		{Name: "login", Flow: "login", OIDC: true, Flags: oidc, Needs: []string{"discovery", "token", "jwks"}, Discovery: true},
		{Name: "login-profile", Flow: "login", OIDC: true, Flags: oidc, Needs: []string{"token", "jwks"}, Profile: true},
		// the ID token carries the e-mail but not groups / preferred_username: the profile endpoint is
		// consulted for claims a session could do without
		{Name: "login-profile-optional-claims", Flow: "login", OIDC: true, Flags: oidc, Needs: []string{"token", "jwks"}, ProfileOpt: true},
		{Name: "login-custom-aud", Flow: "login", OIDC: true, Flags: with(oidc, "--oidc-audience-claim=azp", "--oidc-extra-audience="+c14ExtraAud),
			Needs: []string{"token", "jwks"}, CustomAud: true},
		{Name: "bearer", Flow: "bearer", OIDC: true, Flags: with(oidc, "--skip-jwt-bearer-tokens=true"), Needs: []string{"jwks"}, ServeNeeds: []string{"jwks"}},
		// a bearer token of a second issuer the operator trusts (--extra-jwt-issuers): it is turned into a
		// session by the generic token-to-session function, not by the provider
		{Name: "bearer-extra-issuer", Flow: "bearer", OIDC: true, Flags: with(oidc, "--skip-jwt-bearer-tokens=true", "--extra-jwt-issuers="+world.Issuer2+"="+c14ExtraAud),
			Needs: []string{"jwks"}, ServeNeeds: []string{"jwks"}, ExtraIssuer: true},
		{Name: "bearer-custom-aud", Flow: "bearer", OIDC: true, Flags: with(oidc, "--skip-jwt-bearer-tokens=true", "--oidc-audience-claim=azp", "--oidc-extra-audience="+c14ExtraAud),
			Needs: []string{"jwks"}, ServeNeeds: []string{"jwks"}, CustomAud: true},
		{Name: "refresh", Flow: "refresh", OIDC: true, Flags: with(oidc, "--cookie-refresh=1m", "--cookie-expire=1h"), Needs: []string{"token"}},
		{Name: "refresh-rotated-key", Flow: "refresh", OIDC: true, Flags: with(oidc, "--cookie-refresh=1m", "--cookie-expire=1h"),
			Needs: []string{"token"}, Rotated: true},
		{Name: "refresh-custom-aud", Flow: "refresh", OIDC: true, Flags: with(oidc, "--cookie-refresh=1m", "--cookie-expire=1h", "--oidc-audience-claim=azp", "--oidc-extra-audience="+c14ExtraAud),
			Needs: []string{"token"}, CustomAud: true},
		// the session is split over several cookies from the start; a refreshed one fits a single cookie again
		{Name: "refresh-split-session", Flow: "refresh", OIDC: true, Flags: with(oidc, "--cookie-refresh=1m", "--cookie-expire=1h"), Needs: []string{"token"}, BigLogin: true},
		// the request arrives after the session's own expiry (the cookie itself lives longer): only a
		// refresh that succeeds may let it through
		{Name: "refresh-past-session-expiry", Flow: "refresh", OIDC: true, Flags: with(oidc, "--cookie-refresh=1m", "--cookie-expire=24h"), Needs: []string{"token"}, PastExpiry: true},
		{Name: "validate-url-login", Flow: "login", Flags: kc, Needs: []string{"token", "validate"}},
		{Name: "validate-url-revalidate", Flow: "revalidate", Flags: kc, Needs: []string{"validate"}, ServeNeeds: []string{"validate"}},
		// a provider whose profile / validation endpoints answer 200 whatever bearer token they are shown
		// (they exist): the proxy's own handling of the token answer is then all that stands between a
		// token response without access_token and a session
		{Name: "validate-url-login-lenient-endpoints", Flow: "login", Flags: kc, Needs: []string{"token", "validate"}, Lenient: true},
	}
}

func (sc *c14Scenario) flags(upURL string) []string {
	if sc.OIDC {
		return append(baseFlags(upURL), sc.Flags...)
	}
	return append([]string{"--upstream=" + upURL}, sc.Flags...)
}

// ---- response kinds

const (
	c14Decisive  = 0 // a failure or malformed answer under every reading: nothing may be built on it
	c14Ambiguous = 1 // acceptance is admissible (coercible value, well-formed oversize, status-only endpoint)
	c14Benign    = 2 // a well-formed answer (deviation from the default, not a fault)
)

var c14Common = []string{"500", "400-oauth-error", "reset", "hang", "200-empty", "truncated-json", "text-plain", "oversized-8MiB", "401-empty-body", "502-empty-body", "503-whitespace-body"}

var c14ClaimFaults = map[string]map[string]any{
	"claims:aud-number":            {"aud": 42},
	"claims:aud-object":            {"aud": map[string]any{"aud": world.ClientID}},
	"claims:aud-list-of-numbers":   {"aud": []int{1, 2}},
	"claims:azp-number":            {"azp": 42},
	"claims:azp-list-of-numbers":   {"azp": []int{1, 2}},
	"claims:azp-object":            {"azp": map[string]any{"azp": world.ClientID}},
	"claims:groups-object":         {"groups": map[string]any{"staff": true}},
	"claims:email-number":          {"email": 42},
	"claims:exp-string":            {"exp": "@valid-exp-as-string"},
	"claims:exp-garbage":           {"exp": "tomorrow"},
	"claims:email-verified-string": {"email_verified": "true"},
	"claims:nonce-number":          {"nonce": 12345},
	"claims:nonce-mismatch":        {"nonce": "bm9uY2Utb2YtYW5vdGhlci1sb2dpbg"},
}

// c14BearerKinds: bearer tokens with one claim of the wrong JSON type. A proxy that refuses such a
// token satisfies the statement literally. One that accepts it is given the benefit of the doubt only
// where it demonstrably read the claim (the identity header the upstream sees carries the value in
// coerced form); accepting the token while treating the claim as absent, or as another claim's
// value, builds a session "from" an answer the statement excludes. Kinds without a header have no
// coerced reading at all.
type c14BearerKind struct {
	Name    string
	Claims  map[string]any
	Header  string // upstream header that shows how the claim was read ("" = no reading is admissible)
	Carries string
	// CustomAud: only in scenarios where the operator made "azp" the audience claim
	CustomAud bool
}

func c14BearerKindsFor(sc *c14Scenario) []c14BearerKind {
	var out []c14BearerKind
	for _, k := range c14BearerKinds {
		if k.CustomAud && !sc.CustomAud {
			continue
		}
		if sc.CustomAud && strings.HasPrefix(k.Name, "aud-") {
			continue // "aud" is not the audience claim there
		}
		out = append(out, k)
	}
	return out
}

func (k *c14BearerKind) class() int {
	if k.Header == "" {
		return c14Decisive
	}
	return c14Ambiguous
}

var c14BearerKinds = []c14BearerKind{
	{Name: "aud-number", Claims: map[string]any{"aud": 42}},
	{Name: "aud-object", Claims: map[string]any{"aud": map[string]any{"aud": world.ClientID}}},
	{Name: "aud-absent", Claims: map[string]any{"aud": nil}},
	{Name: "azp-number", Claims: map[string]any{"azp": 42}, CustomAud: true},
	{Name: "azp-object", Claims: map[string]any{"azp": map[string]any{"azp": world.ClientID}}, CustomAud: true},
	{Name: "azp-absent", Claims: map[string]any{"azp": nil}, CustomAud: true},
	{Name: "exp-garbage", Claims: map[string]any{"exp": "tomorrow"}},
	{Name: "email-verified-string-false", Claims: map[string]any{"email_verified": "false"}},
	{Name: "email-number", Claims: map[string]any{"email": 42}, Header: "X-Forwarded-Email", Carries: "42"},
	{Name: "email-object", Claims: map[string]any{"email": map[string]any{"address": "root@corp.example"}}, Header: "X-Forwarded-Email", Carries: "root@corp.example"},
	{Name: "sub-number", Claims: map[string]any{"sub": 777001}, Header: "X-Forwarded-User", Carries: "777001"},
	{Name: "groups-string", Claims: map[string]any{"groups": "wheel"}, Header: "X-Forwarded-Groups", Carries: "wheel"},
	{Name: "groups-object", Claims: map[string]any{"groups": map[string]any{"wheel": true}}, Header: "X-Forwarded-Groups", Carries: "wheel"},
	{Name: "preferred-username-array", Claims: map[string]any{"preferred_username": []string{"root"}}, Header: "X-Forwarded-Preferred-Username", Carries: "root"},
}

// c14Alphabet: the non-default alternatives at a call to `endpoint`.
func c14Alphabet(sc *c14Scenario, endpoint, grant string) []string {
	out := append([]string{}, c14Common...)
	switch endpoint {
	case "discovery":
		out = append(out, "discovery-issuer-mismatch", "discovery-no-endpoints")
	case "jwks":
		out = append(out, "jwks-no-keys", "jwks-garbage-keys", "jwks-wrong-key")
	case "userinfo":
		out = append(out, "401-invalid-token", "userinfo-no-email", "userinfo-email-number", "userinfo-json-array")
		if sc.Shape {
			// (the 8 MiB document — a kind that can never alarm — is delivered at the profile endpoint by the
			// login-profile scenarios; not once more at each of the shapes' lookups)
			kept := out[:0]
			for _, k := range out {
				if k != "oversized-8MiB" {
					kept = append(kept, k)
				}
			}
			out = append(kept, c14ShapeUserinfoKinds...)
		}
	case "validate":
		out = append(out, "401-invalid-token")
	case "token":
		if !sc.OIDC {
			return append(out, "no-access-token", "access-token-number")
		}
		out = append(out, "no-id-token", "no-access-token", "no-expires-in", "no-id-token+no-expires-in", "expires-in-zero", "expires-in-string", "expires-in-garbage",
			"claims:aud-number", "claims:aud-object", "claims:aud-list-of-numbers", "claims:groups-object", "claims:email-number",
			"claims:exp-string", "claims:exp-garbage", "claims:email-verified-string", "claims:nonce-number", "claims:nonce-mismatch")
		if sc.CustomAud {
			out = append(out, "claims:azp-number", "claims:azp-list-of-numbers", "claims:azp-object")
		}
		if grant == "refresh_token" {
			// slow-500: the provider takes 3 s (of the world's time) before it fails
			out = append(out, "bigger-tokens", "bigger-tokens+nonce-mismatch", "slow-500")
		}
	default:
		return nil
	}
	return out
}

func c14Class(sc *c14Scenario, endpoint, grant, kind string) int {
	if sc.Shape && endpoint == "userinfo" {
		if cl, ok := c14ShapeClass(sc, kind); ok {
			return cl
		}
	}
	if sc.ProfileOpt && endpoint == "userinfo" {
		switch kind {
		case "userinfo-no-email":
			// the e-mail is in the ID token here; a profile answer without it is a well-formed answer
			return c14Benign
		case "userinfo-json-array":
			// well-formed JSON that simply holds no claim: the session is built from the verified
			// ID token alone; whether the login has to fail is not pinned down by the statement
			return c14Ambiguous
		}
	}
	switch kind {
	case "bigger-tokens":
		return c14Benign
	case "oversized-8MiB", "expires-in-string", "claims:groups-object", "claims:email-number", "claims:exp-string",
		"claims:email-verified-string", "userinfo-email-number":
		return c14Ambiguous
	case "no-expires-in", "expires-in-zero":
		return c14Benign // RFC 6749 5.1: expires_in is RECOMMENDED, not required
	case "no-id-token", "no-id-token+no-expires-in":
		if grant == "refresh_token" { // OIDC Core 12.2: a refresh response need not carry an ID token
			return c14Ambiguous
		}
	case "claims:nonce-mismatch", "bigger-tokens+nonce-mismatch":
		if grant == "refresh_token" { // OIDC Core 12.2 does not require the nonce of the original login in refreshed ID tokens
			return c14Ambiguous
		}
	case "claims:aud-number", "claims:aud-object", "claims:aud-list-of-numbers":
		if sc.CustomAud { // the operator declared another claim to be the audience
			return c14Ambiguous
		}
	case "200-empty", "truncated-json", "text-plain":
		if endpoint == "validate" { // the validation endpoint's contract is its status code
			return c14Ambiguous
		}
	}
	return c14Decisive
}

func c14Family(kind string) string {
	switch kind {
	case "500", "400-oauth-error", "401-invalid-token", "401-empty-body", "502-empty-body", "503-whitespace-body":
		return "http-error"
	case "reset", "hang":
		return "transport-failure"
	case "slow-500":
		return "slow-answer"
	case "200-empty", "truncated-json", "text-plain", "oversized-8MiB", "userinfo-json-array", "jwks-garbage-keys", "expires-in-garbage", "userinfo-json-null", "userinfo-json-string":
		return "malformed-body"
	case "userinfo-empty-object":
		return "missing-field"
	case "no-id-token", "no-access-token", "userinfo-no-email", "jwks-no-keys", "discovery-no-endpoints", "no-expires-in", "no-id-token+no-expires-in", "expires-in-zero":
		return "missing-field"
	case "jwks-wrong-key", "discovery-issuer-mismatch", "claims:nonce-mismatch", "bigger-tokens+nonce-mismatch":
		return "wrong-value"
	}
	return "wrong-type"
}

var (
	c14PadOnce sync.Once
	c14Pad     string
)

func c14ReadBody(h *http.Response) []byte {
	if h == nil || h.Body == nil {
		return nil
	}
	b, _ := io.ReadAll(h.Body)
	h.Body.Close()
	return b
}

func c14EditJSON(body []byte, f func(m map[string]any)) []byte {
	var m map[string]any
	dec := json.NewDecoder(bytes.NewReader(body))
	dec.UseNumber()
	if dec.Decode(&m) != nil {
		return body
	}
	f(m)
	out, _ := json.Marshal(m)
	return out
}

func c14JWKS(key any, kids ...string) []byte {
	ks := jose.JSONWebKeySet{}
	for _, kid := range kids {
		ks.Keys = append(ks.Keys, jose.JSONWebKey{Key: key, KeyID: kid, Algorithm: "RS256", Use: "sig"})
	}
	b, _ := json.Marshal(ks)
	return b
}

func c14Incompressible(n int) string {
	var b strings.Builder
	h := sha256.Sum256([]byte("c14-padding"))
	for b.Len() < n {
		b.WriteString(base64.RawURLEncoding.EncodeToString(h[:]))
		h = sha256.Sum256(h[:])
	}
	return b.String()[:n]
}

func c14GoID() string {
	var buf [64]byte
	n := runtime.Stack(buf[:], false)
	f := strings.Fields(string(buf[:n]))
	if len(f) > 1 {
		return f[1]
	}
	return "?"
}

// ---- one execution

type c14Call struct {
	Step     string
	Label    string
	Endpoint string
	Grant    string
	Kind     string // "" = well-formed answer
	Class    int
	cl       *world.Call
}

// ok: this call was answered with a well-formed (or admissibly accepted) successful response
func (k *c14Call) ok() (ok, ambiguous bool) {
	if k.Kind != "" && k.Class == c14Decisive {
		return false, false
	}
	if k.cl.Status != 200 {
		return false, false
	}
	if k.Endpoint == "token" && !strings.HasSuffix(k.cl.Note, "-ok") {
		return false, false
	}
	return true, k.Kind != "" && k.Class == c14Ambiguous
}

type c14Fault struct {
	Label    string `json:"at"`
	Kind     string `json:"kind"`
	Endpoint string `json:"-"`
	Class    int    `json:"-"`
}

type c14Step struct {
	Name      string   `json:"step"`
	Status    int      `json:"status"`
	Served    bool     `json:"served_by_upstream"`
	UpAT      string   `json:"access_token_seen_by_upstream,omitempty"`
	Before    string   `json:"-"`
	After     string   `json:"-"`
	Change    string   `json:"session"` // none | unchanged | created | changed | gone
	ClearSent bool     `json:"clear_cookie_sent,omitempty"`
	SetNames  []string `json:"cookies_set,omitempty"`
	Calls     []string `json:"provider_calls,omitempty"`
	Panic     string   `json:"panic,omitempty"`
	PanicSite string   `json:"panic_site,omitempty"`
	calls     []*c14Call
	loc       string
	upHdr     http.Header
}

// unauthClass: the response is one of the answers the statement names for a signed-out user
// (sign-in page, 401, 403, redirect into the login flow), not an error page of its own
func (st *c14Step) unauthClass() bool {
	switch st.Status {
	case 401, 403:
		return true
	case 302:
		return strings.HasPrefix(st.loc, world.Issuer+"/authorize") || strings.Contains(st.loc, "/oauth2/sign_in") || strings.Contains(st.loc, "/oauth2/start")
	}
	return false
}

func c14Describe(calls []*c14Call) []string {
	var out []string
	for _, k := range calls {
		d := k.Endpoint
		switch {
		case k.Kind != "":
			d += "=" + k.Kind
		case k.cl.Status == 200:
			d += ":well-formed"
		default:
			d += fmt.Sprintf(":well-formed refusal(%d %s)", k.cl.Status, k.cl.Note)
		}
		out = append(out, d)
	}
	return out
}

type c14Viol struct{ Key, Msg string }

type c14Result struct {
	Scenario                               string     `json:"scenario"`
	Faults                                 []c14Fault `json:"faults"`
	BuildErr                               string     `json:"build_error,omitempty"`
	Steps                                  []*c14Step `json:"steps,omitempty"`
	Outcome                                string     `json:"outcome"`
	Ambiguous                              bool       `json:"ambiguous,omitempty"`
	Followup                               string     `json:"followup,omitempty"`
	Violations                             []c14Viol  `json:"-"`
	HarnessErr                             string     `json:"-"`
	hangBound, hangUnbound                 []string
	pastExpiryRefused, pastExpiryRefreshed int
	split                                  bool
	arities                                []int
}

func (r *c14Result) observation() string {
	b, _ := json.Marshal(r)
	var v []string
	for _, x := range r.Violations {
		v = append(v, x.Key)
	}
	return string(b) + " violations=" + strings.Join(v, ",")
}

type c14Env struct {
	up   *world.Upstream
	seed int64
}

type c14Exec struct {
	env *c14Env
	sc  *c14Scenario
	x   *explore.Exec
	idp *world.IdP
	px  *Proxy
	res *c14Result

	mu             sync.Mutex
	choosing       bool
	step           string
	ord            map[string]int
	calls          []*c14Call
	delivered      []c14Fault
	claims         map[string]any
	cancel         context.CancelFunc
	release        chan struct{}
	held           sync.WaitGroup
	mainG          string
	discoveryFault bool
	rotated        bool // the provider has switched to a new signing key id (after the setup login)
}

func (e *c14Exec) intercept(cl *world.Call, req *http.Request) *world.Fault {
	e.mu.Lock()
	defer e.mu.Unlock()
	rec := &c14Call{Step: e.step, Endpoint: cl.Endpoint, Grant: cl.Grant, cl: cl}
	e.calls = append(e.calls, rec)
	healthy := func() *world.Fault {
		if e.sc.Lenient && (cl.Endpoint == "validate" || cl.Endpoint == "userinfo") {
			return &world.Fault{Kind: "well-formed(lenient endpoint)", Respond: func(req *http.Request, _ func() *http.Response) (*http.Response, error) {
				return world.RawResponse(req, 200, "application/json", []byte(`{"sub":"alice-sub","email":"alice@example.com","email_verified":true,"preferred_username":"alice","groups":["staff"]}`)), nil
			}}
		}
		if e.rotated && cl.Endpoint == "jwks" {
			// the provider's well-formed key set after the rotation: both key ids
			body := c14JWKS(&world.KeyMain.PublicKey, "key-main", c14RotKid)
			return &world.Fault{Kind: "well-formed(rotated key set)", Respond: func(req *http.Request, _ func() *http.Response) (*http.Response, error) {
				return world.RawResponse(req, 200, "application/json", body), nil
			}}
		}
		return nil
	}
	if !e.choosing {
		return healthy()
	}
	if err := req.Context().Err(); err != nil {
		// the client has already gone (an earlier call of this request hung): a real transport
		// does not send anything on a cancelled context
		rec.Kind, rec.Class = "not-sent(context cancelled)", c14Decisive
		return &world.Fault{Kind: rec.Kind, Respond: func(*http.Request, func() *http.Response) (*http.Response, error) { return nil, err }}
	}
	alpha := c14Alphabet(e.sc, cl.Endpoint, cl.Grant)
	if len(alpha) == 0 || !e.sc.choicePointAt(cl.Endpoint) {
		return healthy()
	}
	e.ord[e.step+":"+cl.Endpoint]++
	rec.Label = fmt.Sprintf("%s:%s#%d", e.step, cl.Endpoint, e.ord[e.step+":"+cl.Endpoint])
	e.res.arities = append(e.res.arities, 1+len(alpha))
	k := e.x.Choose(rec.Label, 1+len(alpha))
	if k == 0 {
		return healthy()
	}
	rec.Kind = alpha[k-1]
	rec.Class = c14Class(e.sc, cl.Endpoint, cl.Grant, rec.Kind)
	e.delivered = append(e.delivered, c14Fault{Label: rec.Label, Kind: rec.Kind, Endpoint: cl.Endpoint, Class: rec.Class})
	if cl.Endpoint == "discovery" {
		e.discoveryFault = true
	}
	return &world.Fault{Kind: rec.Kind, Respond: e.respond(rec.Kind, cl.Endpoint)}
}

func (e *c14Exec) respond(kind, endpoint string) func(req *http.Request, healthy func() *http.Response) (*http.Response, error) {
	raw := func(req *http.Request, status int, ctype, body string) (*http.Response, error) {
		return world.RawResponse(req, status, ctype, []byte(body)), nil
	}
	edit := func(f func(m map[string]any)) func(*http.Request, func() *http.Response) (*http.Response, error) {
		return func(req *http.Request, healthy func() *http.Response) (*http.Response, error) {
			h := healthy()
			return world.RawResponse(req, h.StatusCode, h.Header.Get("Content-Type"), c14EditJSON(c14ReadBody(h), f)), nil
		}
	}
	if cf, ok := c14ClaimFaults[kind]; ok {
		return func(req *http.Request, healthy func() *http.Response) (*http.Response, error) {
			e.claims = cf
			defer func() { e.claims = nil }()
			return healthy(), nil
		}
	}
	switch kind {
	case "401-empty-body":
		return func(req *http.Request, _ func() *http.Response) (*http.Response, error) {
			r, err := raw(req, 401, "text/plain", "")
			if r != nil {
				r.Header.Set("WWW-Authenticate", `Bearer error="invalid_token"`)
			}
			return r, err
		}
	case "502-empty-body":
		return func(req *http.Request, _ func() *http.Response) (*http.Response, error) {
			return raw(req, 502, "text/html", "")
		}
	case "503-whitespace-body":
		return func(req *http.Request, _ func() *http.Response) (*http.Response, error) {
			return raw(req, 503, "text/plain", " \n")
		}
	case "500":
		return func(req *http.Request, _ func() *http.Response) (*http.Response, error) {
			return raw(req, 500, "application/json", `{"error":"server_error"}`)
		}
	case "slow-500":
		return func(req *http.Request, _ func() *http.Response) (*http.Response, error) {
			// time passes while the provider thinks (deadlines the proxy has set on the virtual clock fire);
			// a caller that has given up by then sees its own context's error, as with a real transport
			world.Advance(3 * time.Second)
			if err := req.Context().Err(); err != nil {
				return nil, err
			}
			return raw(req, 500, "application/json", `{"error":"server_error"}`)
		}
	case "400-oauth-error":
		return func(req *http.Request, _ func() *http.Response) (*http.Response, error) {
			return raw(req, 400, "application/json", `{"error":"invalid_grant","error_description":"injected failure"}`)
		}
	case "401-invalid-token":
		return func(req *http.Request, _ func() *http.Response) (*http.Response, error) {
			return raw(req, 401, "application/json", `{"error":"invalid_token"}`)
		}
	case "reset":
		return func(*http.Request, func() *http.Response) (*http.Response, error) {
			return nil, errors.New("read tcp 192.0.2.10:443: read: connection reset by peer")
		}
	case "hang":
		return func(req *http.Request, _ func() *http.Response) (*http.Response, error) {
			// the provider never answers; the browser gives up, which cancels the proxy's request
			other := c14GoID() != e.mainG && e.release != nil
			if other {
				e.held.Add(1)
				defer e.held.Done()
			}
			if e.cancel != nil {
				e.cancel()
			}
			select {
			case <-req.Context().Done():
				e.res.hangBound = append(e.res.hangBound, endpoint)
				return nil, req.Context().Err()
			default:
			}
			// this provider call is not bound to the client's request. If it runs on a goroutine of
			// its own (go-oidc key fetch) it stays blocked until the client's request has returned;
			// otherwise it can only end with the network-level timeout, which is delivered at once.
			e.res.hangUnbound = append(e.res.hangUnbound, endpoint)
			if other {
				select {
				case <-e.release:
				case <-time.After(20 * time.Second): // safety net only; never decides anything
					e.res.HarnessErr = "hung provider call was never released"
				}
			}
			return nil, errors.New("read tcp 192.0.2.10:443: i/o timeout")
		}
	case "200-empty":
		return func(req *http.Request, _ func() *http.Response) (*http.Response, error) {
			return raw(req, 200, "application/json", "")
		}
	case "text-plain":
		return func(req *http.Request, _ func() *http.Response) (*http.Response, error) {
			return raw(req, 200, "text/plain; charset=utf-8", "upstream temporarily unavailable, please retry later\n")
		}
	case "truncated-json":
		return func(req *http.Request, healthy func() *http.Response) (*http.Response, error) {
			h := healthy()
			b := c14ReadBody(h)
			return world.RawResponse(req, h.StatusCode, h.Header.Get("Content-Type"), b[:len(b)/2]), nil
		}
	case "oversized-8MiB":
		return func(req *http.Request, healthy func() *http.Response) (*http.Response, error) {
			c14PadOnce.Do(func() { c14Pad = strings.Repeat("x", 8<<20) })
			h := healthy()
			b := c14ReadBody(h)
			if len(b) > 0 && b[0] == '{' {
				b = []byte(`{"padding":"` + c14Pad + `",` + string(b[1:]))
			} else {
				b = append(b, c14Pad...)
			}
			return world.RawResponse(req, h.StatusCode, h.Header.Get("Content-Type"), b), nil
		}
	case "no-id-token":
		return edit(func(m map[string]any) { delete(m, "id_token") })
	case "no-expires-in":
		return edit(func(m map[string]any) { delete(m, "expires_in") })
	case "expires-in-zero":
		return edit(func(m map[string]any) { m["expires_in"] = 0 })
	case "no-id-token+no-expires-in":
		return edit(func(m map[string]any) { delete(m, "id_token"); delete(m, "expires_in") })
	case "no-access-token":
		return edit(func(m map[string]any) { delete(m, "access_token") })
	case "access-token-number":
		return edit(func(m map[string]any) { m["access_token"] = 42 })
	case "expires-in-string":
		return edit(func(m map[string]any) { m["expires_in"] = fmt.Sprint(m["expires_in"]) })
	case "expires-in-garbage":
		return edit(func(m map[string]any) { m["expires_in"] = "soon" })
	case "bigger-tokens", "bigger-tokens+nonce-mismatch":
		return func(req *http.Request, healthy func() *http.Response) (*http.Response, error) {
			// an ID token that carries 3000 more (incompressible) bytes: the cookie session no longer fits one cookie
			e.claims = map[string]any{"padding": c14Incompressible(3000)}
			if kind != "bigger-tokens" {
				e.claims["nonce"] = c14ClaimFaults["claims:nonce-mismatch"]["nonce"]
			}
			defer func() { e.claims = nil }()
			return healthy(), nil
		}
	case "jwks-no-keys":
		return func(req *http.Request, _ func() *http.Response) (*http.Response, error) {
			return raw(req, 200, "application/json", `{"keys":[]}`)
		}
	case "jwks-garbage-keys":
		return func(req *http.Request, _ func() *http.Response) (*http.Response, error) {
			return raw(req, 200, "application/json", `{"keys":[{"kty":"RSA","kid":"key-main","use":"sig","alg":"RS256","n":"@@not base64@@","e":"AQAB"},{"kty":"EC","kid":"`+c14RotKid+`","crv":"P-256","x":7,"y":[]}]}`)
		}
	case "jwks-wrong-key":
		return func(req *http.Request, _ func() *http.Response) (*http.Response, error) {
			return world.RawResponse(req, 200, "application/json", c14JWKS(&world.KeyOther.PublicKey, "key-main", c14RotKid)), nil
		}
	case "userinfo-no-email":
		return edit(func(m map[string]any) { delete(m, "email") })
	case "userinfo-email-number":
		return edit(func(m map[string]any) { m["email"] = 42 })
	case "userinfo-json-array":
		return func(req *http.Request, _ func() *http.Response) (*http.Response, error) {
			return raw(req, 200, "application/json", `["alice@example.com",1,2]`)
		}
	case "userinfo-json-null":
		return func(req *http.Request, _ func() *http.Response) (*http.Response, error) {
			return raw(req, 200, "application/json", `null`)
		}
	case "userinfo-json-string":
		return func(req *http.Request, _ func() *http.Response) (*http.Response, error) {
			return raw(req, 200, "application/json", `"alice@example.com"`)
		}
	case "userinfo-empty-object":
		return func(req *http.Request, _ func() *http.Response) (*http.Response, error) {
			return raw(req, 200, "application/json", `{}`)
		}
	case "discovery-issuer-mismatch":
		return edit(func(m map[string]any) { m["issuer"] = "https://evil.example" })
	case "discovery-no-endpoints":
		return edit(func(m map[string]any) {
			for k := range m {
				if k != "issuer" {
					delete(m, k)
				}
			}
		})
	}
	panic("c14: unknown response kind " + kind)
}

func (e *c14Exec) tokenSpec(_ *world.AuthRequest, _ *world.User, refresh bool) *world.TokenSpec {
	spec := &world.TokenSpec{Claims: map[string]any{}}
	if e.sc.CustomAud {
		spec.Claims["azp"] = world.ClientID
	}
	if e.sc.Profile {
		spec.Claims["email"] = nil // the e-mail has to come from the profile endpoint
	}
	if e.sc.ProfileOpt {
		spec.Claims["groups"] = nil
		spec.Claims["preferred_username"] = nil
	}
	for _, l := range e.sc.Lacks {
		spec.Claims[l] = nil
	}
	if e.rotated && refresh {
		spec.Signer = "unknown-kid"
	}
	if e.sc.BigLogin && !refresh {
		spec.Claims["padding"] = c14Incompressible(3000)
	}
	for k, v := range e.claims {
		if v == "@valid-exp-as-string" {
			v = fmt.Sprint(world.Epoch.Add(1000 * time.Hour).Unix())
		}
		spec.Claims[k] = v
	}
	return spec
}

// stored renders the session the browser's cookies load to ("" = none): tokens, issue time as
// offset from the virtual epoch, expiry, identity.
func (e *c14Exec) stored(b *Browser) string { return c14Stored(e.px, b) }

func c14Stored(px *Proxy, b *Browser) string {
	hdr := b.Jar.Header(b.Scheme, b.Host, "/page")
	if hdr == "" || px == nil {
		return ""
	}
	req, err := (&world.Req{Method: "GET", Target: "/page", Host: b.Host, Headers: [][2]string{{"Cookie", hdr}}}).Parse()
	if err != nil {
		return ""
	}
	var out string
	func() {
		defer func() {
			if recover() != nil {
				out = ""
			}
		}()
		s, err := verifSessionStore(px.P).Load(req)
		if err != nil || s == nil {
			return
		}
		created, expires := "-", "-"
		if s.CreatedAt != nil {
			created = s.CreatedAt.Sub(world.Epoch).String()
		}
		if s.ExpiresOn != nil {
			expires = "+" + s.ExpiresOn.Sub(world.Epoch).Round(time.Minute).String()
		}
		short := func(t string) string {
			if len(t) > 40 {
				return fmt.Sprintf("%s..(%d bytes)..%s", t[:16], len(t), t[len(t)-12:])
			}
			return t
		}
		out = fmt.Sprintf("access=%s refresh=%s id_token=%s issued=+%s expires=%s email=%s user=%s groups=%v",
			short(s.AccessToken), s.RefreshToken, short(s.IDToken), created, expires, s.Email, s.User, s.Groups)
	}()
	return out
}

func c14IsSessionCookie(name string) bool {
	if name == c14Cookie {
		return true
	}
	if strings.HasPrefix(name, c14Cookie+"_") {
		rest := name[len(c14Cookie)+1:]
		if rest == "" {
			return false
		}
		for _, ch := range rest {
			if ch < '0' || ch > '9' {
				return false
			}
		}
		return true
	}
	return false
}

// serve sends one browser request. Its context is cancellable so that a hanging provider call
// can be ended by "the client gives up"; the response is applied to the jar all the same (the
// more demanding reading: whatever the proxy wrote counts).
func (e *c14Exec) serve(b *Browser, step, target string, hdr ...[2]string) *c14Step {
	e.step = step
	st := &c14Step{Name: step, Before: e.stored(b)}
	n0 := len(e.calls)
	r := b.Req("GET", target, hdr...)
	req, err := r.Parse()
	if err != nil {
		panic(err)
	}
	ctx, cancel := context.WithCancel(context.Background())
	e.cancel, e.release = cancel, make(chan struct{})
	e.env.up.Take()
	// a request that does not come back within 30 s of real time has wedged (a provider call that never
	// completes although the provider answered or failed): it is abandoned, reported, and this process
	// explores no further — whatever it waits for is process-wide
	var resp *world.Resp
	if c14Wedged.Load() {
		resp = &world.Resp{Status: 599, Header: http.Header{}}
	} else {
		ch := make(chan *world.Resp, 1)
		go func() {
			// (the handler's goroutine is "the request's goroutine" for the hang kinds)
			e.mu.Lock()
			e.mainG = c14GoID()
			e.mu.Unlock()
			ch <- world.ServeHTTP(b.Px.H, req.WithContext(ctx))
		}()
		select {
		case resp = <-ch:
		case <-time.After(30 * time.Second):
			c14Wedged.Store(true)
			cancel()
			resp = &world.Resp{Status: 599, Header: http.Header{}}
			e.violate("C14/request-never-returns", "%s: request %q did not return within 30 s although every provider call had been answered or had failed (provider calls %v)", e.sc.Name, step, c14Describe(e.calls[n0:]))
		}
	}
	close(e.release)
	e.held.Wait()
	for i := 0; i < 4; i++ {
		runtime.Gosched()
	}
	cancel()
	e.cancel, e.release = nil, nil
	ups := e.env.up.Take()
	st.Served = len(ups) > 0
	if st.Served {
		st.UpAT = ups[0].Header.Get("X-Forwarded-Access-Token")
		st.upHdr = ups[0].Header
	}
	st.Status = resp.Status
	st.loc = resp.Location()
	if resp.Panic != nil {
		st.Panic, st.PanicSite = fmt.Sprint(resp.Panic), resp.PanicSite()
	}
	for _, ck := range resp.Cookies() {
		if c14IsSessionCookie(ck.Name) {
			if ck.MaxAge < 0 || ck.Value == "" {
				st.ClearSent = true
				st.SetNames = append(st.SetNames, "-"+ck.Name)
			} else {
				st.SetNames = append(st.SetNames, "+"+ck.Name)
				if ck.Name != c14Cookie {
					e.res.split = true
				}
			}
		}
	}
	b.Jar.SetCookies(b.Scheme, b.Host, pathOf(target), resp.Header)
	st.After = e.stored(b)
	switch {
	case st.Before == "" && st.After == "":
		st.Change = "none"
	case st.Before == st.After:
		st.Change = "unchanged"
	case st.Before == "":
		st.Change = "created"
	case st.After == "":
		st.Change = "gone"
	default:
		st.Change = "changed"
	}
	e.mu.Lock()
	st.calls = append(st.calls, e.calls[n0:]...)
	e.mu.Unlock()
	st.Calls = c14Describe(st.calls)
	e.res.Steps = append(e.res.Steps, st)
	return st
}

// satisfied: did every endpoint in `needs` give at least one well-formed successful answer
// among `calls`? culprit = the first decisively faulty call to an endpoint that did not.
func c14Satisfied(must []string, calls []*c14Call, consultedToo bool) (ok, viaAmbiguous bool, culprit *c14Call) {
	ok = true
	needs := append([]string{}, must...)
	if consultedToo {
		for _, k := range calls {
			seen := false
			for _, n := range needs {
				seen = seen || n == k.Endpoint
			}
			if !seen {
				needs = append(needs, k.Endpoint)
			}
		}
	}
	for _, ep := range needs {
		good, amb := false, false
		var bad *c14Call
		for _, k := range calls {
			if k.Endpoint != ep {
				continue
			}
			o, a := k.ok()
			if o && !a {
				good, amb = true, false
				break
			}
			if o && a {
				good, amb = true, true
			}
			if !o && bad == nil {
				bad = k
			}
		}
		if !good {
			ok = false
			if culprit == nil {
				culprit = bad
			}
		} else if amb {
			viaAmbiguous = true
		}
	}
	return
}

func (e *c14Exec) violate(key, format string, a ...any) {
	e.res.Violations = append(e.res.Violations, c14Viol{Key: key, Msg: fmt.Sprintf(format, a...)})
}

func c14FaultKey(k *c14Call) string {
	if k.Kind == "" {
		return k.Endpoint + "-refusal"
	}
	return k.Endpoint + "-" + c14Family(k.Kind)
}

func (k *c14Call) where() string {
	if k.Label != "" {
		return k.Label
	}
	return k.Step + ":" + k.Endpoint
}

// what the provider answered at this call, for messages
func (k *c14Call) answer() string {
	if k.Kind == "" {
		return fmt.Sprintf("a well-formed refusal (HTTP %d %s)", k.cl.Status, k.cl.Note)
	}
	return k.Kind
}

func c14Run(env *c14Env, sc *c14Scenario, x *explore.Exec) *c14Result {
	world.ResetClock()
	world.SeedRandom(env.seed, 0)
	res := &c14Result{Scenario: sc.Name, Faults: []c14Fault{}}
	e := &c14Exec{env: env, sc: sc, x: x, res: res, ord: map[string]int{}, mainG: c14GoID()}
	idp := world.NewIdP()
	e.idp = idp
	idp.IDTokenSpec = e.tokenSpec
	idp.Intercept = e.intercept
	defer func() {
		idp.Intercept = nil
		res.Faults = append(res.Faults, e.delivered...)
		if os.Getenv("VERIF_C14_DEBUG") != "" {
			var cs []string
			for _, k := range e.calls {
				cs = append(cs, fmt.Sprintf("%s/%s:%s[%s]%d(%s)", k.Step, k.Endpoint, k.Grant, k.Kind, k.cl.Status, k.cl.Note))
			}
			if os.Getenv("VERIF_C14_DEBUG") == "2" {
				fmt.Fprintf(os.Stderr, "TABLE %s %v -> %s\n", sc.Name, res.Faults, res.Outcome)
			} else {
				fmt.Fprintf(os.Stderr, "DEBUG %s %v calls=%v\n  OBS %s\n", sc.Name, res.Faults, cs, res.observation())
			}
		}
	}()

	// ---- proxy construction (OIDC discovery happens here)
	e.step, e.choosing = "build", sc.Discovery
	px, err := buildProxy(&ProxyCfg{Flags: sc.flags(env.up.URL())})
	e.choosing = false
	var buildCalls []*c14Call
	buildCalls = append(buildCalls, e.calls...)
	if err != nil {
		res.BuildErr = err.Error()
		if len(res.BuildErr) > 160 {
			res.BuildErr = res.BuildErr[:160]
		}
		if len(e.delivered) == 0 {
			res.HarnessErr = "proxy does not build against the well-formed provider: " + res.BuildErr
		}
		res.Outcome = "startup-refused"
		return res
	}
	e.px = px
	b := newBrowser(px, "http", c14Host)
	alice := idp.Users["alice"]
	bearer := ""

	if sc.ProfileUnverified && sc.Flow == "login" {
		idp.UserinfoClaims = map[string]any{"email_verified": false}
	}
	var flow []*c14Step // the requests made under the explorer's choices
	pastExpiry := ""    // the stored session that has expired by the time of the explored requests
	switch sc.Flow {
	case "login":
		start := e.serve(b, "start", px.Opts.ProxyPrefix+"/start?rd=%2Fpage")
		cb, aerr := "", error(nil)
		if start.Status == 302 {
			cb, _, aerr = idp.Authorize(start.loc, "alice")
		}
		if start.Status != 302 || aerr != nil {
			if !e.discoveryFault {
				res.HarnessErr = fmt.Sprintf("login cannot be started: status %d, %v", start.Status, aerr)
			}
			res.Outcome = "login-not-startable"
			break
		}
		u, perr := url.Parse(cb)
		if perr != nil {
			res.HarnessErr = perr.Error()
			return res
		}
		e.choosing = true
		st := e.serve(b, "callback", u.RequestURI())
		e.choosing = false
		st.calls = append(buildCalls, st.calls...) // the session also rests on what discovery said
		st.Calls = c14Describe(st.calls)
		flow = append(flow, st)
	case "bearer":
		good := &world.TokenSpec{DropNonce: true}
		if sc.CustomAud {
			good.Claims = map[string]any{"azp": world.ClientID}
		}
		if sc.ExtraIssuer {
			good = &world.TokenSpec{DropNonce: true, Signer: "issuer2", Audience: c14ExtraAud}
		}
		bearer = "Bearer " + idp.MintIDToken(alice, good)
		if len(sc.Lacks) > 0 {
			// (the follow-up request keeps the complete token; the explored requests present one without the claims)
			lacking := *good
			lacking.Claims = map[string]any{}
			for ck, cv := range good.Claims {
				lacking.Claims[ck] = cv
			}
			for _, l := range sc.Lacks {
				lacking.Claims[l] = nil
			}
			good = &lacking
		}
		presented := "Bearer " + idp.MintIDToken(alice, good)
		// choice point: the token the provider issued to the API client is well-formed, or carries
		// a claim of the wrong JSON type (the statement's "wrongly typed claims")
		var tk *c14BearerKind
		kinds := c14BearerKindsFor(sc)
		k := 0
		if sc.choicePointAt("bearer-token") {
			res.arities = append(res.arities, 1+len(kinds))
			k = x.Choose("request:bearer-token#1", 1+len(kinds))
		}
		if k > 0 {
			tk = &kinds[k-1]
			spec := *good
			spec.Claims = map[string]any{}
			for ck, cv := range good.Claims {
				spec.Claims[ck] = cv
			}
			for ck, cv := range tk.Claims {
				spec.Claims[ck] = cv
			}
			presented = "Bearer " + idp.MintIDToken(alice, &spec)
			e.delivered = append(e.delivered, c14Fault{Label: "request:bearer-token#1", Kind: tk.Name, Endpoint: "bearer-token", Class: tk.class()})
		}
		// the same token is presented twice: whatever the proxy remembers from the first
		// presentation (keys, verified tokens) must not turn a refusal into an acceptance
		for _, name := range []string{"request", "request-again"} {
			e.choosing = name == "request"
			st := e.serve(b, name, "/page", [2]string{"Authorization", presented})
			e.choosing = false
			flow = append(flow, st)
			if tk == nil || !st.Served {
				continue
			}
			got := ""
			if tk.Header != "" {
				got = strings.Join(st.upHdr.Values(tk.Header), ",")
			}
			switch {
			case tk.Header == "":
				e.violate("C14/bearer/served-on-token-with-"+tk.Name, "%s: %q: a bearer token whose claims are %v was accepted and the request passed to the upstream", sc.Name, name, tk.Claims)
			case !strings.Contains(got, tk.Carries):
				e.violate("C14/bearer/wrongly-typed-claim-silently-replaced:"+tk.Name, "%s: %q: a bearer token with the wrongly typed claim %v was accepted, and the upstream saw %s=%q: the session was not built from a coerced reading of the claim (that would carry %q) but as if the claim were something else",
					sc.Name, name, tk.Claims, tk.Header, got, tk.Carries)
			default:
				res.Ambiguous = true
			}
		}
	case "refresh", "revalidate":
		e.step = "setup"
		resp, _, lerr := b.Login(idp, "alice", "/page")
		if lerr != nil || resp.Status != 302 {
			res.HarnessErr = fmt.Sprintf("setup login failed: %v status %d", lerr, resp.Status)
			return res
		}
		if st := e.serve(b, "setup-request", "/page"); !st.Served || st.After == "" {
			res.HarnessErr = fmt.Sprintf("setup session not served: status %d", st.Status)
			return res
		}
		res.Steps = nil
		world.Advance(2 * time.Minute)
		if sc.PastExpiry {
			world.Advance(2 * time.Hour)
			pastExpiry = e.stored(b)
		}
		e.rotated = sc.Rotated
		if sc.ProfileUnverified {
			idp.UserinfoClaims = map[string]any{"email_verified": false}
		}
		e.choosing = true
		flow = append(flow, e.serve(b, "request-1", "/page"))
		flow = append(flow, e.serve(b, "request-2", "/page"))
		e.choosing = false
	default:
		panic("c14: flow " + sc.Flow)
	}

	// ---- a session past its expiry is served only after a refresh that replaced it
	for _, st := range flow {
		if pastExpiry != "" && st.Before == pastExpiry && !st.Served {
			res.pastExpiryRefused++
		}
		if pastExpiry != "" && st.Before == pastExpiry && st.Served && st.After != st.Before {
			res.pastExpiryRefreshed++
		}
		if pastExpiry != "" && st.Panic == "" && st.Served && st.Before == pastExpiry && st.After == st.Before {
			e.violate("C14/refresh/expired-session-served-after-"+c14FirstFault(e.delivered), "%s: the session had expired; the refresh grant was answered %v; request %q was served by the upstream all the same and the stored session is unchanged (a failed answer extended the session's life)",
				sc.Name, e.delivered, st.Name)
		}
	}

	// ---- judgement of the explored requests
	tainted, taintWhy, taintKey := "", "", ""
	legit := false
	for _, st := range flow {
		if st.Panic != "" {
			e.violate("C14/panic@"+st.PanicSite, "%s: request %q panicked after provider answers %v: %s", sc.Name, st.Name, st.Calls, st.Panic)
			continue
		}
		ok, amb, culprit := c14Satisfied(sc.Needs, st.calls, true)
		if st.After != st.Before && st.After != "" {
			switch {
			case ok && amb:
				res.Ambiguous = true
				legit = true
			case ok:
				legit = true
			case culprit == nil:
				res.HarnessErr = fmt.Sprintf("session %s in step %s without the provider calls it needs and without any fault: %v", st.Change, st.Name, st.Calls)
			default:
				tainted = st.After
				taintKey = "C14/" + sc.Flow + "/session-from-" + c14FaultKey(culprit)
				if k := c14ShapeOwnKey(sc, culprit, st); k != "" {
					taintKey = k
				}
				taintWhy = fmt.Sprintf("request %q (provider answers %v; Set-Cookie %v) left the browser with a session it did not have before [%s] although %s answered %s",
					st.Name, st.Calls, st.SetNames, c14Clip(st.After), culprit.where(), culprit.answer())
			}
		}
		if st.Served && len(sc.ServeNeeds) > 0 {
			sok, samb, sculprit := c14Satisfied(sc.ServeNeeds, st.calls, false)
			if !sok && sculprit != nil {
				e.violate("C14/"+sc.Flow+"/served-despite-"+c14FaultKey(sculprit),
					"%s: request %q was passed to the upstream although %s answered %s (provider answers %v)", sc.Name, st.Name, sculprit.where(), sculprit.answer(), st.Calls)
			} else if sok && samb {
				res.Ambiguous = true
			}
		}
	}

	// a request answered as signed out (not served, session cookies cleared) must leave a jar
	// that does not authenticate: judged on the next request made with that jar
	var signedOut *c14Step
	signedOutThenServed := func(st *c14Step, nextDesc string) {
		key := "C14/" + sc.Flow + "/signed-out-but-jar-still-authenticates"
		for _, n := range st.SetNames {
			if strings.HasPrefix(n, "+") {
				key = "C14/clear-after-failed-validation-leaves-cookies-set-by-the-same-response"
			}
		}
		e.violate(key, "%s: request %q (provider answers %v) was answered as signed out (status %d, Set-Cookie %v) but the browser still holds a session [%s]; the next request with that jar: %s",
			sc.Name, st.Name, st.Calls, st.Status, st.SetNames, c14Clip(st.After), nextDesc)
	}
	for i, st := range flow {
		if st.Served || !st.ClearSent || st.After == "" || st.Panic != "" || !st.unauthClass() {
			continue
		}
		if i+1 < len(flow) {
			if flow[i+1].Served {
				signedOutThenServed(st, fmt.Sprintf("%q served by the upstream (provider answers %v)", flow[i+1].Name, flow[i+1].Calls))
				signedOut = nil
				res.Outcome = "SIGNED-OUT-BUT-AUTHENTICATED"
			}
		} else {
			signedOut = st
		}
	}

	// ---- probe: does the browser authenticate now? (well-formed provider from here on)
	authenticated := false
	if len(flow) > 0 {
		before := e.stored(b)
		probe := e.serve(b, "probe", "/page")
		ui := e.serve(b, "probe-userinfo", px.Opts.ProxyPrefix+"/userinfo")
		authenticated = probe.Served || ui.Status == 200
		for _, st := range []*c14Step{probe, ui} {
			if st.Panic != "" {
				e.violate("C14/panic@"+st.PanicSite, "%s: %s after the explored requests panicked: %s", sc.Name, st.Name, st.Panic)
			}
		}
		if tainted != "" && before == tainted && authenticated {
			e.violate(taintKey, "%s: %s; the next request with that jar was served=%v, /oauth2/userinfo=%d", sc.Name, taintWhy, probe.Served, ui.Status)
		}
		if signedOut != nil && authenticated {
			signedOutThenServed(signedOut, fmt.Sprintf("served=%v, /oauth2/userinfo=%d", probe.Served, ui.Status))
		}
		last := flow[len(flow)-1]
		switch {
		case res.Outcome == "SIGNED-OUT-BUT-AUTHENTICATED":
		case signedOut != nil && authenticated:
			res.Outcome = "SIGNED-OUT-BUT-AUTHENTICATED"
		case tainted != "" && before == tainted && authenticated:
			res.Outcome = "SESSION-FROM-FAULT"
		case legit && res.Ambiguous:
			res.Outcome = "session-accepted(ambiguous answer)"
		case legit:
			res.Outcome = "session-from-well-formed-answers"
		case sc.Flow == "bearer" && flow[0].Served:
			res.Outcome = "bearer-served"
		case sc.Flow == "bearer":
			res.Outcome = "bearer-rejected"
		case last.After == "" && sc.Flow == "login":
			res.Outcome = "no-session"
		case last.After == "":
			res.Outcome = "session-cleared"
		case flow[0].Served:
			res.Outcome = "old-session-kept-and-served"
		default:
			res.Outcome = "old-session-kept-request-not-served"
		}
	}

	// ---- a refresh answer that was rejected must not leak into the request it was fetched for:
	// "creates or extends no session from it" also holds for the in-memory session the request is
	// served with (the upstream must see the tokens the session had before)
	if sc.Flow == "refresh" && len(flow) > 0 && flow[0].Served && flow[0].UpAT != "" && flow[0].Change == "unchanged" {
		// (Change == "unchanged": the proxy itself did not adopt the answer — a retry that succeeded
		// after a failed first attempt changes the stored session and is not this case)
		decisiveToken := false
		for _, f := range e.delivered {
			if f.Endpoint == "token" && f.Class == c14Decisive {
				decisiveToken = true
			}
		}
		if i := strings.Index(flow[0].Before, "access="); decisiveToken && i >= 0 {
			before := flow[0].Before[i+len("access="):]
			if j := strings.IndexByte(before, ' '); j >= 0 {
				before = before[:j]
			}
			if before != "" && flow[0].UpAT != before {
				e.violate("C14/refresh/request-served-with-tokens-of-a-rejected-answer", "%s: the refresh grant was answered %v (rejected), the request was still served, and the upstream saw access token %q instead of the session's %q",
					sc.Name, e.delivered, clip(flow[0].UpAT), clip(before))
			}
		}
	}

	// ---- liveness: a well-formed login (bearer request) on the same proxy succeeds afterwards
	idp.UserinfoClaims = nil
	if !e.discoveryFault {
		if sc.Flow == "bearer" {
			st := e.serve(newBrowser(px, "http", c14Host), "followup", "/page", [2]string{"Authorization", bearer})
			res.Followup = fmt.Sprintf("bearer request: status %d served=%v", st.Status, st.Served)
			if st.Panic != "" {
				e.violate("C14/panic@"+st.PanicSite, "%s: follow-up bearer request panicked: %s", sc.Name, st.Panic)
			} else if !st.Served {
				e.violate("C14/"+sc.Flow+"/unusable-after-"+c14FirstFault(e.delivered), "%s: after %v a well-formed bearer request is not served any more (status %d)", sc.Name, e.delivered, st.Status)
			}
		} else {
			nb := newBrowser(px, "http", c14Host)
			e.step = "followup"
			resp, _, lerr := nb.Login(idp, "bob", "/page")
			st := &c14Step{}
			if lerr == nil && resp.Panic == nil && resp.Status == 302 {
				st = e.serve(nb, "followup", "/page")
			}
			res.Followup = fmt.Sprintf("login: err=%v callback=%d served=%v", lerr, resp.Status, st.Served)
			switch {
			case resp.Panic != nil:
				e.violate("C14/panic@"+resp.PanicSite(), "%s: follow-up login panicked: %v", sc.Name, resp.Panic)
			case st.Panic != "":
				e.violate("C14/panic@"+st.PanicSite, "%s: request after the follow-up login panicked: %s", sc.Name, st.Panic)
			case !st.Served:
				e.violate("C14/"+sc.Flow+"/unusable-after-"+c14FirstFault(e.delivered), "%s: after %v a well-formed login does not succeed any more (%s)", sc.Name, e.delivered, res.Followup)
			}
		}
	}
	// the follow-up is not part of the recorded steps (keeps samples small)
	var keep []*c14Step
	for _, st := range res.Steps {
		if st.Name != "followup" && st.Name != "start" {
			keep = append(keep, st)
		}
	}
	res.Steps = keep
	return res
}

func c14FirstFault(d []c14Fault) string {
	if len(d) == 0 {
		return "nothing"
	}
	return d[0].Endpoint + "-" + c14Family(d[0].Kind)
}

func c14Clip(s string) string {
	if len(s) > 200 {
		return s[:200] + "..."
	}
	return s
}

// ---- exploration

type c14Replay struct {
	Scenario string     `json:"scenario"`
	Choices  []int      `json:"choices"`
	Faults   []c14Fault `json:"faults"`
	Observed *c14Result `json:"observed,omitempty"`
}

func c14Find(name string) *c14Scenario {
	for _, sc := range append(c14Scenarios(), c14ShapeScenarios()...) {
		if sc.Name == name {
			return sc
		}
	}
	return nil
}

// c14Unit is what one process explores: a scenario, or one of `Of` subtrees of it (explore's
// own sharding on the first two choice levels).
type c14Unit struct {
	sc      *c14Scenario
	Sub, Of int
}

func c14Units() []c14Unit {
	var out []c14Unit
	for _, sc := range c14Scenarios() {
		n := 1
		if sc.OIDC && sc.Flow != "bearer" { // the token endpoint's alphabet makes these the big ones
			n = 2
		}
		for i := 0; i < n; i++ {
			out = append(out, c14Unit{sc: sc, Sub: i, Of: n})
		}
	}
	for _, sc := range c14ShapeScenarios() {
		out = append(out, c14Unit{sc: sc, Sub: 0, Of: 1})
	}
	return out
}

func c14Explore(c *Ctx, env *c14Env, u c14Unit, bound int) {
	sc := u.sc
	var first []int
	firstObs := ""
	stats := explore.Run(explore.Config{MaxCost: bound, Deadline: c.Deadline, Shard: u.Sub, Shards: u.Of, ShardDepth: 2, Stop: c14Wedged.Load}, func(x *explore.Exec, own bool) {
		res := c14Run(env, sc, x)
		if !own {
			return
		}
		choices := x.Choices()
		c.Inc("evaluations")
		c.Inc(fmt.Sprintf("executions_with_%d_faults", len(res.Faults)))
		c.Inc("outcome:" + res.Outcome)
		if res.HarnessErr != "" {
			c.Error("%s %v: %s", sc.Name, res.Faults, res.HarnessErr)
		}
		if x.Cost() != len(res.Faults) {
			c.Error("%s: %d deviations chosen but %d faults delivered (%v)", sc.Name, x.Cost(), len(res.Faults), res.Faults)
		}
		if len(res.Faults) > 0 {
			var k []string
			for _, f := range res.Faults {
				k = append(k, f.Label+"="+f.Kind)
				switch f.Class {
				case c14Decisive:
					c.Inc("faults_delivered_decisive")
				case c14Ambiguous:
					c.Inc("faults_delivered_ambiguous_kind")
				default:
					c.Inc("faults_delivered_benign_kind")
				}
			}
			c.Distinct("distinct_nontrivial", sc.Name+"|"+strings.Join(k, "|"))
		}
		if len(res.Faults) == 1 {
			c.Inc("single_fault_executions")
		}
		if res.Ambiguous {
			c.Inc("ambiguous")
		}
		c.Add("hang_ended_by_request_cancellation", int64(len(res.hangBound)))
		c.Add("expired_session_refused_when_refresh_fails", int64(res.pastExpiryRefused))
		c.Add("expired_session_replaced_by_successful_refresh", int64(res.pastExpiryRefreshed))
		c.Add("hang_not_bound_to_request_context", int64(len(res.hangUnbound)))
		for _, ep := range res.hangUnbound {
			c.Info["hang_not_cancelled_with_request:"+sc.Name+":"+ep] = true
		}
		if res.split {
			c.Inc("executions_with_split_session_cookie")
		}
		if sc.Shape {
			c14ShapeCount(c, sc, res)
		}
		if len(res.Faults) == 0 {
			// the well-formed run: must establish / refresh / serve, and tells how many single-fault cases exist
			okRun := false
			switch sc.Flow {
			case "bearer":
				okRun = res.Outcome == "bearer-served"
			default:
				okRun = res.Outcome == "session-from-well-formed-answers"
			}
			if sc.Shape {
				// what a well-formed run of a claim shape ends in (a token without e-mail and subject, a
				// profile that calls the address unverified) is C04's subject: recorded by c14ShapeCount
			} else if !okRun {
				c.Error("%s: the run without faults ended as %q: %s", sc.Name, res.Outcome, res.observation())
			} else {
				c.Inc("scenarios_healthy_run_ok")
			}
			n := 0
			for _, a := range res.arities {
				n += a - 1
			}
			c.Add("expected_single_fault_cases", int64(n))
			if sc.Shape {
				c.Add("shape_expected_single_fault_cases", int64(n))
			} else {
				c.Sample(8, res)
			}
		} else if len(res.Faults) == 1 && (res.Faults[0].Kind == "hang" || strings.HasPrefix(res.Faults[0].Kind, "bigger-tokens+")) {
			c.Sample(8, res)
		}
		if first == nil {
			first = choices
			firstObs = res.observation()
		}
		for _, v := range res.Violations {
			v := v
			rp := c14Replay{Scenario: sc.Name, Choices: choices, Faults: res.Faults, Observed: res}
			c.confirm(v.Key, v.Msg, len(res.Faults)*100+len(choices), rp, func() (string, bool) {
				r2 := c14Run(env, sc, explore.Replay(choices, nil))
				for _, v2 := range r2.Violations {
					if v2.Key == v.Key {
						return v.Key, true
					}
				}
				return "", false
			})
		}
	})
	c.SetMax("max_choice_points", int64(stats.MaxDepth))
	c.SetMax("fault_bound_completed", int64(stats.LevelCompleted))
	if !stats.Exhaustive {
		c.Exhaustive = false
	}
	// determinism: the first execution replayed twice must be observed identically
	if first != nil {
		for i := 0; i < 2; i++ {
			if o := c14Run(env, sc, explore.Replay(first, nil)).observation(); o != firstObs {
				c.Unstable("replay divergence in %s: %s vs %s", sc.Name, c14Clip(firstObs), c14Clip(o))
			}
		}
	}
}

func init() {
	register(&checkDef{
		id:    "C14",
		level: "fault_enumeration",
		rule: "every call the proxy makes to its identity provider (discovery, token, JWKS, userinfo, validate; positions discovered by the runs, incl. x/oauth2's retry) x every response kind of the alphabet, " +
			"one fault per execution (quick) / all pairs (thorough), over login (plain, e-mail from the profile endpoint, custom audience claim), bearer, refresh (plain, rotated signing key, custom audience claim) and validate-URL flows; " +
			"claim shapes: login, refresh and bearer flows with ID tokens lacking every subset of {sub, email, email_verified, groups, preferred_username} (and a profile endpoint that calls the address unverified) x every profile-lookup position x response kind; " +
			"audience-claim lists: every ordered list of 2 and 3 of {aud, azp, client_id} x per-claim value kind^len over bearer (len 2,3), login and refresh (len 2; thorough: len 3), judged by a reference model of the admissible readings; " +
			"each execution on a fresh proxy/provider/browser, judged on the browser's stored session before/after each request, upstream hits, panics and a follow-up well-formed login; " +
			"distinct_nontrivial = distinct (scenario, call position, response kind[, second position, kind]) combinations actually delivered",
		assumptions: []string{
			"a session may be created/extended in a request only if every endpoint it depends on gave at least one well-formed successful answer in that request (x/oauth2 retries a failed token request once with the other client-authentication style)",
			"admissible either way (counted as ambiguous, never an alarm): values the decoder can coerce (expires_in \"3600\", exp \"<number>\", email 42, email_verified \"true\", groups object), a well-formed 8 MiB JSON document, a refresh response without id_token (OIDC Core 12.2), a 200 with an odd body from the status-only validation endpoint, a wrongly typed aud when another audience claim is configured",
			"a hanging provider call is ended by cancelling the browser's request; the response the proxy then writes is still applied to the jar (the more demanding reading)",
			"provider calls not bound to the request context (go-oidc key fetch, profile fetch of the claim extractor, discovery) end with an injected network timeout instead; this is recorded, not judged",
			"cookie session store; the Redis store's failure handling is C13's subject",
			"single driver thread, GOMAXPROCS(1): go-oidc's key-fetch goroutine finishes its cache update before the waiting request continues",
		},
		shards: func(tier string) int { return len(c14Units()) },
		run: func(c *Ctx) {
			runtime.GOMAXPROCS(1)
			env := &c14Env{up: world.NewUpstream("u"), seed: c.Seed}
			defer env.up.Close()
			c14FaultBurst(c, env.up)
			if c14Wedged.Load() {
				c.Exhaustive = false
				return
			}
			scs := c14Scenarios()
			bound := 1
			if !c.Quick() {
				bound = 2
			}
			c.Info["fault_bound"] = bound
			alpha := map[string]int{}
			for _, sc := range scs {
				for _, ep := range []string{"discovery", "token", "jwks", "userinfo", "validate"} {
					for _, g := range []string{"authorization_code", "refresh_token"} {
						if n := len(c14Alphabet(sc, ep, g)); n > alpha[ep] {
							alpha[ep] = n
						}
					}
				}
			}
			names := map[string][]string{}
			for _, sc := range scs {
				for _, ep := range []string{"discovery", "token", "jwks", "userinfo", "validate"} {
					for _, g := range []string{"authorization_code", "refresh_token"} {
						for _, k := range c14Alphabet(sc, ep, g) {
							dup := false
							for _, o := range names[ep] {
								dup = dup || o == k
							}
							if !dup {
								names[ep] = append(names[ep], k)
							}
						}
					}
				}
			}
			var scNames []string
			for _, sc := range scs {
				scNames = append(scNames, sc.Name)
			}
			c.Info["alphabet"] = map[string]any{"scenarios": scNames, "max_alternatives_per_endpoint": alpha, "response_kinds": names}
			only := strings.TrimSpace(strings.ToLower(envStr("VERIF_C14_ONLY")))
			for i, u := range c14Units() {
				if !c.Mine(i) || (only != "" && only != u.sc.Name) {
					continue
				}
				if c.Expired() {
					return
				}
				c14Explore(c, env, u, bound)
			}
			c.Info["claim_shapes"] = c14ShapeInfo()
			if only == "" || only == "audience" {
				c14Audience(c, env.up)
			}
		},
		post: func(c *Ctx) {
			n := int64(len(c14Scenarios()))
			if envStr("VERIF_C14_ONLY") != "" {
				return
			}
			c14ShapePost(c)
			c14AudiencePost(c)
			if c.Counters["scenarios_healthy_run_ok"] != n {
				c.Error("vacuous: %d of %d scenarios completed their run without faults", c.Counters["scenarios_healthy_run_ok"], n)
			}
			if c.Counters["single_fault_executions"] == 0 || c.Counters["single_fault_executions"] != c.Counters["expected_single_fault_cases"] {
				c.Error("vacuous: %d single-fault executions, but the well-formed runs have %d (position, kind) cases", c.Counters["single_fault_executions"], c.Counters["expected_single_fault_cases"])
			}
			for _, k := range []string{"outcome:no-session", "outcome:session-from-well-formed-answers", "outcome:startup-refused", "outcome:session-cleared",
				"outcome:bearer-rejected", "outcome:bearer-served", "hang_ended_by_request_cancellation", "executions_with_split_session_cookie", "faults_delivered_decisive"} {
				if c.Counters[k] == 0 {
					c.Error("vacuous: %s never observed", k)
				}
			}
		},
		finish: func(c *Ctx) {
			n := 0
			for k, v := range c.Counters {
				if strings.HasPrefix(k, "outcome:") && v > 0 {
					n++
				}
			}
			c.Info["distinct_outcome_classes"] = n
		},
		replay: func(c *Ctx, raw json.RawMessage) string {
			runtime.GOMAXPROCS(1)
			var part struct {
				Part string `json:"part"`
			}
			if json.Unmarshal(raw, &part) == nil && part.Part == "audience" {
				return c14AudienceReplay(c, raw)
			}
			var rp c14Replay
			if err := json.Unmarshal(raw, &rp); err != nil {
				return err.Error()
			}
			sc := c14Find(rp.Scenario)
			if sc == nil {
				return "unknown scenario " + rp.Scenario
			}
			env := &c14Env{up: world.NewUpstream("u"), seed: c.Seed}
			defer env.up.Close()
			res := c14Run(env, sc, explore.Replay(rp.Choices, nil))
			for _, v := range res.Violations {
				c.Violate(v.Key, v.Msg, 1, rp)
			}
			return res.observation()
		},
	})
}

func envStr(name string) string {
	return strings.TrimSpace(os.Getenv(name))
}

// c14FaultBurst: "... and keeps handling other requests without crashing" after MANY failures, not only
// after one. Forty logins in a row meet a transport-level failure (connection reset) at one provider
// endpoint; then the provider is well again and a login has to succeed. A resource taken per provider call
// and given back only on the success path (a slot of a limiter, a pooled connection) runs out this way.
// The final login is given 10 s of real time — spent only if it hangs.
// c14Wedged: a request of this process never returned; nothing further is explored in it.
var c14Wedged atomic.Bool

func c14FaultBurst(c *Ctx, up *world.Upstream) {
	if c.Shards > 1 && c.Shard != c.Shards-1 {
		return
	}
	for _, name := range []string{"validate-url-login", "login"} {
		sc := c14Find(name)
		if sc == nil {
			continue
		}
		for _, ep := range []string{"token", "userinfo", "validate", "jwks"} {
			world.ResetClock()
			idp := world.NewIdP()
			px, err := buildProxy(&ProxyCfg{Flags: sc.flags(up.URL())})
			if err != nil {
				c.Error("C14 fault burst: %s does not build: %v", name, err)
				return
			}
			hit := 0
			idp.Intercept = func(cl *world.Call, _ *http.Request) *world.Fault {
				if cl.Endpoint != ep {
					return nil
				}
				hit++
				return &world.Fault{Kind: "reset", Respond: func(*http.Request, func() *http.Response) (*http.Response, error) {
					return nil, errors.New("read tcp 192.0.2.1:40000->192.0.2.2:443: read: connection reset by peer")
				}}
			}
			wedgedAt := -1
			for i := 0; i < 40 && wedgedAt < 0; i++ {
				fin := make(chan struct{})
				go func() {
					defer close(fin)
					b := newBrowser(px, "http", c14Host)
					if resp, _, lerr := b.Login(idp, "alice", "/page"); lerr == nil && resp.Panic != nil {
						c.Violate("C14/panic@"+resp.PanicSite(), fmt.Sprintf("%s: login %d of a burst of transport failures at %s panics: %v", name, i, ep, resp.Panic), 40, map[string]any{"kind": "fault-burst", "scenario": name, "endpoint": ep})
					}
				}()
				select {
				case <-fin:
				case <-time.After(10 * time.Second):
					wedgedAt = i
				}
			}
			if wedgedAt >= 0 {
				c14Wedged.Store(true)
				c.Violate("C14/"+sc.Flow+"/hangs-after-burst-of-transport-failures", fmt.Sprintf("%s: login %d of a burst of transport failures at %s does not come back within 10 s (the failures before it were answered at once)", name, wedgedAt, ep), 40,
					map[string]any{"kind": "fault-burst", "scenario": name, "endpoint": ep, "transport_failures": hit})
				return
			}
			idp.Intercept = nil
			if hit == 0 {
				continue // this flow does not call that endpoint
			}
			c.Inc("evaluations")
			c.Inc("fault_bursts")
			type fin struct {
				status int
				served bool
			}
			done := make(chan fin, 1)
			go func() {
				b := newBrowser(px, "http", c14Host)
				resp, _, lerr := b.Login(idp, "bob", "/page")
				f := fin{}
				if lerr == nil {
					f.status = resp.Status
					if resp.Status == 302 {
						up.Take()
						r := b.Get("/page")
						f.served = r.Status == 200 && len(up.Take()) > 0
					}
				}
				done <- f
			}()
			cs := map[string]any{"kind": "fault-burst", "scenario": name, "endpoint": ep, "transport_failures": hit}
			select {
			case f := <-done:
				if f.served {
					c.Inc("fault_bursts_followed_by_a_working_login")
				} else {
					c.Violate("C14/"+sc.Flow+"/unusable-after-burst-of-transport-failures", fmt.Sprintf("%s: after %d transport failures at %s in a row the provider is well again, but a login does not succeed (callback status %d)", name, hit, ep, f.status), 40, cs)
				}
			case <-time.After(10 * time.Second):
				c14Wedged.Store(true)
				c.Violate("C14/"+sc.Flow+"/hangs-after-burst-of-transport-failures", fmt.Sprintf("%s: after %d transport failures at %s in a row the provider is well again, but a login does not come back within 10 s (provider calls no longer complete)", name, hit, ep), 40, cs)
				return
			}
		}
	}
	world.NewIdP()
}
