//go:build verif

package main

import (
	"fmt"
	"os"
	"path/filepath"
	"strings"

	"github.com/oauth2-proxy/oauth2-proxy/v7/pkg/authentication/basic"
	"github.com/oauth2-proxy/oauth2-proxy/v7/verifx/explore"
	"github.com/oauth2-proxy/oauth2-proxy/v7/verifx/sched"
	"github.com/oauth2-proxy/oauth2-proxy/v7/verifx/vfsnotify"
	"github.com/oauth2-proxy/oauth2-proxy/v7/verifx/vrt"
)

// C20, the event loop under the scheduler. "Once a reload has completed every later validation
// reflects the new contents" also has to survive the way reloads are *started*: the watcher's
// event loop (pkg/watcher), whatever it hands to other goroutines or timers, and the reload
// itself. Here the production wiring is built by a controlled thread, so the goroutine of the
// event loop — and every goroutine or timer the code under test starts from it (`go` statements
// and channel waits are rewritten by overlaygen, timers are modelled by the vtime shim) — is a
// controlled thread too. A driver thread changes the file k times (k = 2 quick, 3 thorough), each
// change followed by the file-system events that way of changing a file produces; all
// interleavings of driver, event loop and whatever else was spawned are explored up to a
// preemption bound. Oracle, after everything has come to rest (all threads finished or waiting for
// events, no timer outstanding): validations answer from the last contents written. On a tree
// where the loop handles events one at a time and reloads inline this is one thread's work and
// holds trivially — the part exists for trees where it is not.

type c20LoopStep struct {
	How    string   `json:"how"` // rename | inplace
	Events []string `json:"events"`
}

type c20LoopCase struct {
	Kind    string        `json:"kind"` // "event-loop"
	File    string        `json:"file"` // emails | htpasswd
	Steps   []c20LoopStep `json:"steps"`
	Choices []int         `json:"choices,omitempty"`
	Order   string        `json:"order,omitempty"`
}

var c20LoopStepAlphabet = []c20LoopStep{
	{How: "rename", Events: []string{"REMOVE"}},
	{How: "inplace", Events: []string{"WRITE"}},
	{How: "inplace", Events: []string{"WRITE", "WRITE"}},
	{How: "rename", Events: []string{"REMOVE|CHMOD"}},
	{How: "rename", Events: []string{"CREATE"}},
}

func c20LoopContent(file string, i int) string {
	if file == "emails" {
		return fmt.Sprintf("u%d@x.org\nboth@x.org\n", i)
	}
	return fmt.Sprintf("u%d:%s\nboth:%s\n", i, shaEntry("pw"), shaEntry("pw"))
}

type c20LoopResult struct {
	out      *sched.Outcome
	threads  int
	inForce  []int // versions whose marker validates at rest
	harness  string
	lastStep int
}

var c20LoopDir string

// c20LoopExec runs one execution under the chooser x.
func c20LoopExec(cs c20LoopCase, x *explore.Exec) *c20LoopResult {
	res := &c20LoopResult{}
	if c20LoopDir == "" {
		d, err := os.MkdirTemp(scratch(), "c20l-")
		if err != nil {
			panic(err)
		}
		c20LoopDir = d
	}
	path := filepath.Join(c20LoopDir, cs.File)
	if err := os.WriteFile(path+".v0", []byte(c20LoopContent(cs.File, 0)), 0o600); err != nil {
		panic(err)
	}
	if err := os.Rename(path+".v0", path); err != nil {
		panic(err)
	}
	var valid func(i int) bool
	done := make(chan bool)
	s := sched.New(x, sched.Options{})
	s.Go("driver", func() {
		switch cs.File {
		case "emails":
			um := NewUserMap(path, done, func() {})
			valid = func(i int) bool { return um.IsValid(fmt.Sprintf("u%d@x.org", i)) }
		case "htpasswd":
			v, err := basic.NewHTPasswdValidator(path)
			if err != nil {
				res.harness = "htpasswd validator: " + err.Error()
				return
			}
			valid = func(i int) bool { return v.Validate(fmt.Sprintf("u%d", i), "pw") }
		}
		w := vfsnotify.Last()
		if w == nil {
			res.harness = "no watcher was created"
			return
		}
		for i, st := range cs.Steps {
			ver := i + 1
			sched.Point("change")
			switch st.How {
			case "rename":
				if err := os.WriteFile(path+".new", []byte(c20LoopContent(cs.File, ver)), 0o600); err != nil {
					panic(err)
				}
				if err := os.Rename(path+".new", path); err != nil {
					panic(err)
				}
			default:
				if err := os.WriteFile(path, []byte(c20LoopContent(cs.File, ver)), 0o600); err != nil {
					panic(err)
				}
			}
			res.lastStep = ver
			for _, name := range st.Events {
				for _, o := range c20WatchOps {
					if o.Name == name {
						if !w.Push(vfsnotify.Event{Name: path, Op: o.Op}) {
							res.harness = "event queue full"
							return
						}
					}
				}
			}
		}
	})
	res.out = s.Run()
	res.threads = len(s.Threads())
	if valid != nil && res.out.Aborted == "" {
		for i := 0; i <= len(cs.Steps); i++ {
			if valid(i) {
				res.inForce = append(res.inForce, i)
			}
		}
	}
	return res
}

// c20LoopJudge returns the finding of one execution ("" = none).
func c20LoopJudge(cs c20LoopCase, r *c20LoopResult) (key, msg string) {
	switch {
	case r.harness != "":
		return "", "HARNESS " + r.harness
	case len(r.out.Panics) > 0:
		return "C20/event-loop/panic", fmt.Sprintf("%s: %v", cs.File, r.out.Panics)
	case r.out.Aborted == "deadlock":
		return "C20/event-loop/deadlock", fmt.Sprintf("%s: no thread enabled, blocked %v", cs.File, r.out.Blocked)
	case r.out.Aborted == "livelock" || r.out.Aborted == "horizon":
		return "C20/event-loop/" + r.out.Aborted, fmt.Sprintf("%s: the reload machinery did not come to rest within the horizon", cs.File)
	case r.out.Aborted != "":
		return "", "" // pruned / given up: inconclusive
	}
	want := len(cs.Steps)
	if len(r.inForce) == 1 && r.inForce[0] == want {
		return "", ""
	}
	return "C20/event-loop/stale-contents-at-rest", fmt.Sprintf("%s file changed %d times (%v), every event handled, nothing outstanding — validations answer from version(s) %v, the file holds version %d",
		cs.File, want, cs.Steps, r.inForce, want)
}

func c20EventLoop(c *Ctx) {
	if os.Getenv("VERIF_PLAIN") != "" {
		c.Note("event-loop part skipped: build without rewriting (go statements are not adopted)")
		c.Inc("event_loop_part_skipped")
		return
	}
	k := 2
	bound := 2
	if !c.Quick() {
		k, bound = 3, 3
	}
	var cases []c20LoopCase
	var rec func(prefix []c20LoopStep)
	rec = func(prefix []c20LoopStep) {
		if len(prefix) > 0 {
			for _, f := range []string{"emails", "htpasswd"} {
				cases = append(cases, c20LoopCase{Kind: "event-loop", File: f, Steps: append([]c20LoopStep{}, prefix...)})
			}
		}
		if len(prefix) == k {
			return
		}
		for _, st := range c20LoopStepAlphabet {
			rec(append(prefix, st))
		}
	}
	rec(nil)
	c.Info["event_loop_cases"] = len(cases)
	c.Info["event_loop_preemption_bound"] = bound
	adopted := false
	for i, cs := range cases {
		if !c.Mine(i) {
			continue
		}
		if c.Expired() {
			return
		}
		cs := cs
		reported := false
		stats := explore.Run(explore.Config{Stop: schedStuck, MaxCost: bound, Deadline: c.Deadline, TolerateDivergence: true}, func(x *explore.Exec, own bool) {
			r := c20LoopExec(cs, x)
			c.Inc("evaluations")
			c.Inc("traces_validated_against_impl")
			c.Inc("event_loop_executions")
			c.Add("transitions", int64(r.out.Steps))
			if r.threads >= 2 {
				adopted = true
			}
			if r.threads > 2 {
				c.Inc("event_loop_executions_with_further_spawned_threads")
			}
			if r.out.Switches > 2 {
				c.Inc("executions_with_interleaving")
			}
			c.Distinct("distinct_nontrivial", fmt.Sprint(cs.File, cs.Steps, sched.DescribeOrder(r.out.Order)))
			key, msg := c20LoopJudge(cs, r)
			if strings.HasPrefix(msg, "HARNESS") {
				c.Error("event-loop part: %s", msg)
				return
			}
			if key == "" || reported {
				return
			}
			reported = true
			rp := cs
			rp.Choices = x.Choices()
			rp.Order = sched.DescribeOrder(r.out.Order)
			c.confirm(key, msg+" [schedule "+rp.Order+"]", len(rp.Choices)*10+len(cs.Steps), rp, func() (string, bool) {
				k2, _ := c20LoopJudge(cs, c20LoopExec(cs, explore.Replay(rp.Choices, nil)))
				return k2, k2 != ""
			})
		})
		c.Add("states", int64(stats.States))
		if !stats.Exhaustive {
			c.Exhaustive = false
		}
	}
	if c.Counters["event_loop_executions"] > 0 && !adopted {
		c.Error("event-loop part vacuous: the watcher's goroutine was never adopted by the scheduler")
	}
}

var _ = vrt.Enabled
