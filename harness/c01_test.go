//go:build verif

package main

import (
	"crypto/sha256"
	"encoding/hex"
	"encoding/json"
	"fmt"
	"golang.org/x/crypto/bcrypt"
	"net"
	"regexp"
	"sort"
	"strconv"
	"strings"
	"time"

	"github.com/oauth2-proxy/oauth2-proxy/v7/verifx/world"
)

// C01 — no upstream access or identity disclosure without a valid credential or bypass (PROD).
//
// Product: configurations (store x bypass x credential sources x authorisation x unauthenticated
// mode) x endpoint classes x methods x remote addresses x Accept x credential states, every
// request through the real ServeHTTP, judged by an access-decision function written from the
// property statement and DESIGN Appendix B. The truth about every credential is known by
// construction: the harness obtained it through a real login (and then aged, deleted, tampered
// or mis-addressed it) or forged it itself.

// ---------------------------------------------------------------------------------------------
// configuration alphabet

type c01Cfg struct {
	Store   string `json:"store"`
	Bypass  string `json:"bypass"`
	Sources string `json:"sources"`
	Authz   string `json:"authz"`
	Mode    string `json:"mode"`
}

func (k c01Cfg) String() string {
	return k.Store + "/" + k.Bypass + "/" + k.Sources + "/" + k.Authz + "/" + k.Mode
}

var (
	c01Stores   = []string{"cookie", "redis"}
	c01Bypasses = []string{"none", "route-method", "route-any", "route-negated", "legacy-regex", "trusted-ip", "preflight", "all"}
	c01Sources  = []string{"cookie-only", "jwt", "htpasswd", "both"}
	c01Authzs   = []string{"any", "domain", "file", "groups"}
	c01Modes    = []string{"sign-in-page", "skip-provider-button", "force-json-errors", "api-route"}
)

const (
	c01Host        = "app.example.com"
	c01Trusted     = "10.1.2.3:4444"
	c01Untrusted   = "192.0.2.1:40000"
	c01TrustedNet  = "10.1.0.0/16"
	c01Expire      = 2 * time.Hour
	c01HtUser      = "ht.hugo"
	c01HtPass      = "pw-1"
	c01OtherSecret = "fedcba9876543210fedcba9876543210"
	c01CookieName  = "_oauth2_proxy"
	c01ExtraAud    = "extra-aud" // audience of the extra bearer issuer configured in the "both" source variant
)

type c01CfgRef struct {
	Idx int
	K   c01Cfg
}

// c01Configs lists the configurations of a tier. Thorough: the full product. Quick: an
// orthogonal sub-product of 64 configurations in which every PAIR of values of two different
// dimensions occurs (checked by c01PairCoverage, asserted in the run), in particular every value
// of every dimension with every store. Idx is the position in the full product (stable across
// tiers; it seeds the deterministic random stream of the configuration).
func c01Configs(quick bool) []c01CfgRef {
	var out []c01CfgRef
	for s := range c01Stores {
		for b := range c01Bypasses {
			for src := range c01Sources {
				for az := range c01Authzs {
					for md := range c01Modes {
						if quick && (az != (src+b)%4 || md != (src+3*b+s)%4) {
							continue
						}
						idx := (((s*len(c01Bypasses)+b)*len(c01Sources)+src)*len(c01Authzs)+az)*len(c01Modes) + md
						out = append(out, c01CfgRef{idx, c01Cfg{c01Stores[s], c01Bypasses[b], c01Sources[src], c01Authzs[az], c01Modes[md]}})
					}
				}
			}
		}
	}
	return out
}

func c01PairCoverage(cfgs []c01CfgRef) (covered, total int) {
	dims := func(k c01Cfg) []string { return []string{k.Store, k.Bypass, k.Sources, k.Authz, k.Mode} }
	sizes := []int{len(c01Stores), len(c01Bypasses), len(c01Sources), len(c01Authzs), len(c01Modes)}
	seen := map[string]bool{}
	for _, c := range cfgs {
		d := dims(c.K)
		for i := range d {
			for j := i + 1; j < len(d); j++ {
				seen[fmt.Sprintf("%d=%s|%d=%s", i, d[i], j, d[j])] = true
			}
		}
	}
	for i := range sizes {
		for j := i + 1; j < len(sizes); j++ {
			total += sizes[i] * sizes[j]
		}
	}
	return len(seen), total
}

// c01BypassSpec is the operator's bypass configuration of a bypass kind, in the documented
// syntax; flags and reference model are both derived from it.
func c01BypassSpec(kind string) (rs c15RuleSet, nets []string, preflight bool) {
	switch kind {
	case "route-method":
		rs.Routes = []string{"GET=^/skip"}
	case "route-any":
		rs.Routes = []string{"^/skip"}
	case "route-negated":
		// everything but /page, /api and /oauth2/<not starting with a> for GET: exempts /skip/x, /oauth2/auth
		rs.Routes = []string{"GET!=^/(page|api|oauth2/[^a])"}
	case "legacy-regex":
		rs.Legacy = []string{"^/skip"}
	case "trusted-ip":
		nets = []string{c01TrustedNet}
	case "preflight":
		preflight = true
	case "all":
		rs.Routes = []string{"POST=^/skip"}
		rs.Legacy = []string{"^/skip/x$"}
		nets = []string{c01TrustedNet}
		preflight = true
	}
	return
}

// ---------------------------------------------------------------------------------------------
// reference model (DESIGN Appendix B "Access decision"; written from the statement and the docs)

type c01Ident struct {
	User   string   `json:"user,omitempty"`
	Email  string   `json:"email,omitempty"`
	Groups []string `json:"groups,omitempty"`
}

// one credential carried by a request, with the truth about it
type c01Part struct {
	Source   string    `json:"source"`   // cookie | bearer | basic
	Verifies bool      `json:"verifies"` // by construction: issued/verifiable for THIS proxy and valid at evaluation time
	Ident    *c01Ident `json:"identity,omitempty"`
	Why      string    `json:"why,omitempty"` // what is wrong with it
}

type c01Cred struct {
	Name       string    `json:"name"`
	Family     string    `json:"family"` // none | session-cookie | forged-cookie | stale-cookie | bearer | bearer-invalid | basic | basic-invalid | malformed | combination
	Cookie     string    `json:"-"`
	Authz      string    `json:"-"`
	Parts      []c01Part `json:"parts"`
	Ambiguous  bool      `json:"ambiguous,omitempty"`  // the statement does not pin down whether it is valid
	Producible bool      `json:"producible,omitempty"` // a real browser / API client produces exactly this request: the converse is asserted
	Complexity int       `json:"-"`
	Ext        bool      `json:"-"` // added by the second part (c01_ext_test.go)
}

type c01Model struct {
	k         c01Cfg
	rules     []c15Rule
	preflight bool
	nets      []*net.IPNet
	file      map[string]bool
}

const (
	c01AllowedDomain = "example.com"
	c01AllowedGroup  = "staff"
)

var c01EmailFile = []string{"alice@example.com"}

func newC01Model(k c01Cfg) *c01Model {
	rs, nets, pre := c01BypassSpec(k.Bypass)
	m := &c01Model{k: k, rules: c15ParseRules(rs), preflight: pre, file: map[string]bool{}}
	for _, n := range nets {
		_, ipn, err := net.ParseCIDR(n)
		if err != nil {
			panic(err)
		}
		m.nets = append(m.nets, ipn)
	}
	for _, e := range c01EmailFile {
		m.file[strings.ToLower(e)] = true
	}
	return m
}

// bypass = preflight-enabled and method OPTIONS, or a skip rule matches, or client address in a trusted network
func (m *c01Model) bypass(method, path, remote string) bool {
	if c15Exempt(m.rules, m.preflight, method, path) {
		return true
	}
	host, _, err := net.SplitHostPort(remote)
	if err != nil {
		return false
	}
	ip := net.ParseIP(host)
	if ip == nil {
		return false
	}
	for _, n := range m.nets {
		if n.Contains(ip) {
			return true
		}
	}
	return false
}

// sources: session cookie always; bearer only with skip-jwt-bearer-tokens (tokens of a second
// issuer only if it is listed as extra issuer with their audience); Basic only with an htpasswd file
func (m *c01Model) enabled(source string) bool {
	switch source {
	case "cookie":
		return true
	case "bearer":
		return m.k.Sources == "jwt" || m.k.Sources == "both"
	case "bearer-extra-issuer": // tokens of the issuer configured with --extra-jwt-issuers
		return m.k.Sources == "both"
	case "basic":
		return m.k.Sources == "htpasswd" || m.k.Sources == "both"
	}
	return false
}

// authorised = e-mail empty (htpasswd session) or e-mail rules pass, and allowed-groups empty or intersecting
func (m *c01Model) authorised(id *c01Ident) bool {
	if id == nil {
		return false
	}
	if id.Email != "" {
		email := strings.ToLower(id.Email)
		switch m.k.Authz {
		case "domain":
			at := strings.LastIndex(email, "@")
			if at < 0 || email[at+1:] != c01AllowedDomain {
				return false
			}
		case "file":
			if !m.file[email] {
				return false
			}
		}
	}
	if m.k.Authz == "groups" {
		ok := false
		for _, g := range id.Groups {
			if g == c01AllowedGroup {
				ok = true
			}
		}
		if !ok {
			return false
		}
	}
	return true
}

// access: served <=> bypass or (credential valid and source enabled and authorised);
// valid+enabled but not authorised => denied; everything else => login prompt.
//
// With several credentials on one request the statement does not say which one counts: served is
// admissible as soon as one of them is valid, enabled and authorised (and passes the restriction the
// auth-only endpoint was given in its query); if none is, the request must not be served.
func (m *c01Model) access(method, path, remote string, cred *c01Cred, ep *c01Endpoint) (decision string, viaBypass bool, ident *c01Ident) {
	decision = "login"
	for i := range cred.Parts {
		p := &cred.Parts[i]
		if !p.Verifies || !m.enabled(p.Source) {
			continue
		}
		if m.authorised(p.Ident) && ep.restricted(p.Ident) == "" {
			decision, ident = "served", p.Ident
			break
		}
		decision = "denied"
	}
	if m.bypass(method, path, remote) {
		return "served", true, ident
	}
	return decision, false, ident
}

// htpasswd identity as the documentation describes it: user name, no e-mail, the configured htpasswd-user-groups
func (m *c01Model) htIdent() *c01Ident {
	id := &c01Ident{User: c01HtUser}
	if m.k.Sources == "both" {
		id.Groups = []string{c01AllowedGroup}
	}
	return id
}

// formLogin: does this request legitimately establish a session (POST of the right password to
// the sign-in form of a proxy with an htpasswd file, identity authorised)?
func (m *c01Model) formLogin(method string, ep *c01Endpoint) bool {
	return ep.Form == "good" && method == "POST" && m.enabled("basic") && m.authorised(m.htIdent())
}

// ---------------------------------------------------------------------------------------------
// request alphabet

type c01Endpoint struct {
	Name   string `json:"name"`
	Target string `json:"target"`
	Form   string `json:"form,omitempty"` // "", good, bad
	// Kind: proxied (upstream resource), auth (auth-only endpoint), userinfo, own (any other
	// endpoint the proxy answers itself; only the negative observables apply)
	Kind string `json:"kind"`
	// the documented query parameters of the auth-only endpoint that narrow who is let through
	// (docs/features/endpoints.md): comma separated lists of allowed groups / e-mails / e-mail domains
	Groups  []string `json:"allowed_groups,omitempty"`
	Emails  []string `json:"allowed_emails,omitempty"`
	Domains []string `json:"allowed_email_domains,omitempty"`
}

var c01Endpoints = []c01Endpoint{
	{Name: "protected", Target: "/page", Kind: "proxied"},
	{Name: "skip-path", Target: "/skip/x", Kind: "proxied"},
	{Name: "api-path", Target: "/api/data", Kind: "proxied"},
	{Name: "auth", Target: "/oauth2/auth", Kind: "auth"},
	// auth-only endpoint with the documented restrictions in the query (see c01_ext_test.go: restricted)
	{Name: "auth-groups-staff", Target: "/oauth2/auth?allowed_groups=staff", Kind: "auth", Groups: []string{"staff"}},
	{Name: "auth-groups-guests-or-nosuch", Target: "/oauth2/auth?allowed_groups=nosuch,guests", Kind: "auth", Groups: []string{"nosuch", "guests"}},
	{Name: "auth-emails-bob", Target: "/oauth2/auth?allowed_emails=bob@other.org", Kind: "auth", Emails: []string{"bob@other.org"}},
	{Name: "auth-domains-example.com", Target: "/oauth2/auth?allowed_email_domains=example.com", Kind: "auth", Domains: []string{"example.com"}},
	{Name: "userinfo", Target: "/oauth2/userinfo", Kind: "userinfo"},
	{Name: "sign_out", Target: "/oauth2/sign_out", Kind: "own"},
	{Name: "start", Target: "/oauth2/start", Kind: "own"},
	{Name: "sign_in", Target: "/oauth2/sign_in", Kind: "own"},
	{Name: "sign_in-good-form", Target: "/oauth2/sign_in", Form: "good", Kind: "own"},
	{Name: "sign_in-bad-form", Target: "/oauth2/sign_in", Form: "bad", Kind: "own"},
	{Name: "callback-bare", Target: "/oauth2/callback", Kind: "own"},
	{Name: "callback-garbage", Target: "/oauth2/callback?code=zzz&state=abc%3A%2Fpage", Kind: "own"},
	{Name: "static", Target: "/oauth2/static/css/bulma.min.css", Kind: "own"},
	// the documentation does not say whether unknown paths under the proxy prefix are proxied: own
	{Name: "unknown-under-prefix", Target: "/oauth2/nosuch", Kind: "own"},
	{Name: "robots", Target: "/robots.txt", Kind: "own"},
	{Name: "ping", Target: "/ping", Kind: "own"},
	{Name: "ready", Target: "/ready", Kind: "own"},
}

var (
	c01Methods = []string{"GET", "POST", "OPTIONS"}
	c01Remotes = []string{c01Untrusted, c01Trusted}
	c01Accepts = []string{"text/html", "application/json"}
)

type c01Req struct {
	EP     *c01Endpoint
	Method string
	Remote string
	Accept string
}

func (r *c01Req) build(cred *c01Cred) *world.Req {
	q := &world.Req{Method: r.Method, Target: r.EP.Target, Host: c01Host, Remote: r.Remote}
	q.Headers = append(q.Headers, [2]string{"Accept", r.Accept})
	if cred.Cookie != "" {
		q.Headers = append(q.Headers, [2]string{"Cookie", cred.Cookie})
	}
	if cred.Authz != "" {
		q.Headers = append(q.Headers, [2]string{"Authorization", cred.Authz})
	}
	switch r.EP.Form {
	case "good":
		q.Headers = append(q.Headers, [2]string{"Content-Type", "application/x-www-form-urlencoded"})
		q.Body = "username=" + c01HtUser + "&password=" + c01HtPass
	case "bad":
		q.Headers = append(q.Headers, [2]string{"Content-Type", "application/x-www-form-urlencoded"})
		q.Body = "username=" + c01HtUser + "&password=wrong"
	}
	return q
}

// ---------------------------------------------------------------------------------------------
// the world of one shard / one configuration

type c01Snap struct {
	v   string
	ttl time.Duration
}

type c01Env struct {
	c      *Ctx
	idp    *world.IdP
	up     *world.Upstream
	redis  *world.Redis
	htfile string
	emfile string
	sib    map[string]*Proxy
	tokens map[string]string
	// Redis contents at evaluation time (restored after every request that changed the store,
	// so that all requests of a configuration see the same store)
	snapKeys []string
	snap     map[string]c01Snap
}

const (
	c01BcUser = "bcuser"
	c01BcPass = "bcpw"
)

func newC01Env(c *Ctx) *c01Env {
	e := &c01Env{c: c, up: world.NewUpstream("u"), sib: map[string]*Proxy{}, tokens: map[string]string{}}
	e.idp = world.NewIdP()
	// one {SHA} entry, one intact bcrypt entry, and two entries that carry a bcrypt prefix but cannot be
	// evaluated (a truncated hash — a common way to lock an account — and an impossible cost): nothing
	// verifies against those
	bc, berr := bcrypt.GenerateFromPassword([]byte(c01BcPass), bcrypt.MinCost)
	if berr != nil {
		panic(berr)
	}
	e.htfile = tempFile(scratch(), "htpasswd-*", fmt.Sprintf("%s:%s\n%s:%s\nlocked:$2y$05$SXWrNM7ldtbRzBvUC3VXyO\nweird:$2y$99$SXWrNM7ldtbRzBvUC3VXyOvUeiKNT8rxVDRLGCLoBB9mwLNzwt3Ga\n", c01HtUser, shaEntry(c01HtPass), c01BcUser, bc))
	e.emfile = writeEmails(c01EmailFile...)
	world.ClearAdvanceHooks()
	world.ResetClock()
	e.redis = world.NewRedis()
	return e
}

func (e *c01Env) close() {
	e.up.Close()
	e.redis.Close()
	world.ClearAdvanceHooks()
}

func (e *c01Env) newIdP() {
	e.idp = world.NewIdP()
	e.idp.Users["alice"].Sub, e.idp.Users["bob"].Sub = "alice.subject", "bob.subject"
	e.idp.Users["alice"].PreferredUsername = "alice.pref"
	e.idp.Users["bob"].PreferredUsername = "bob.pref"
	e.idp.Users["carol"] = &world.User{Sub: "carol.subject", Email: "carol@example.com", EmailVerified: true, Groups: []string{"guests"}, PreferredUsername: "carol.pref"}
	e.idp.Users["dave"] = &world.User{Sub: "dave.subject", Email: "dave@example.com", EmailVerified: false, Groups: []string{"staff"}, PreferredUsername: "dave.pref"}
}

var c01Idents = map[string]*c01Ident{
	"alice": {User: "alice.subject", Email: "alice@example.com", Groups: []string{"staff", "admins"}},
	"bob":   {User: "bob.subject", Email: "bob@other.org", Groups: []string{"guests"}},
	"carol": {User: "carol.subject", Email: "carol@example.com", Groups: []string{"guests"}},
}

// identity strings that must never appear in the answer to a request without a valid credential
// (each contains a character outside the base64url alphabet: no chance hit inside a random state,
// nonce or ciphertext)
var c01Needles = []string{"alice@example.com", "bob@other.org", "carol@example.com", "dave@example.com", "alice.subject", "bob.subject", "carol.subject", "dave.subject", "alice.pref", "bob.pref", "carol.pref", "dave.pref"}

func (e *c01Env) flags(k c01Cfg, secret string) []string {
	f := []string{
		"--provider=oidc", "--oidc-issuer-url=" + world.Issuer, "--client-id=" + world.ClientID, "--client-secret=" + world.ClientSecret,
		"--cookie-secret=" + secret, "--http-address=-", "--upstream=" + e.up.URL(),
		"--cookie-secure=false", "--cookie-refresh=0", fmt.Sprintf("--cookie-expire=%s", c01Expire), "--set-xauthrequest=true",
	}
	rs, nets, pre := c01BypassSpec(k.Bypass)
	for _, r := range rs.Routes {
		f = append(f, "--skip-auth-route="+r)
	}
	for _, r := range rs.Legacy {
		f = append(f, "--skip-auth-regex="+r)
	}
	for _, n := range nets {
		f = append(f, "--trusted-ip="+n)
	}
	if pre {
		f = append(f, "--skip-auth-preflight=true")
	}
	switch k.Sources {
	case "jwt":
		f = append(f, "--skip-jwt-bearer-tokens=true")
	case "htpasswd":
		f = append(f, "--htpasswd-file="+e.htfile)
	case "both":
		f = append(f, "--skip-jwt-bearer-tokens=true", "--htpasswd-file="+e.htfile, "--htpasswd-user-group="+c01AllowedGroup,
			"--extra-jwt-issuers="+world.Issuer2+"="+c01ExtraAud)
	}
	switch k.Authz {
	case "any":
		f = append(f, "--email-domain=*")
	case "domain":
		f = append(f, "--email-domain="+c01AllowedDomain)
	case "file":
		f = append(f, "--authenticated-emails-file="+e.emfile)
	case "groups":
		f = append(f, "--email-domain=*", "--allowed-group="+c01AllowedGroup)
	}
	switch k.Mode {
	case "skip-provider-button":
		f = append(f, "--skip-provider-button=true")
	case "force-json-errors":
		f = append(f, "--force-json-errors=true")
	case "api-route":
		f = append(f, "--api-route=^/api")
	}
	return f
}

func (e *c01Env) proxy(k c01Cfg, secret string) (*Proxy, error) {
	cfg := &ProxyCfg{Flags: e.flags(k, secret)}
	if k.Store == "redis" {
		cfg.Redis = e.redis
	}
	return buildProxy(cfg)
}

// sibling returns a per-shard helper proxy: kind "open" shares the cookie secret (and, for
// Redis, the store) with the proxy under test but has no authorisation rules; kind "other"
// uses another cookie secret.
func (e *c01Env) sibling(kind, store string) (*Proxy, error) {
	key := kind + "-" + store
	if p := e.sib[key]; p != nil {
		return p, nil
	}
	secret := cookieSecret32
	if kind == "other" {
		secret = c01OtherSecret
	}
	p, err := e.proxy(c01Cfg{Store: store, Bypass: "none", Sources: "cookie-only", Authz: "any", Mode: "sign-in-page"}, secret)
	if err != nil {
		return nil, err
	}
	e.sib[key] = p
	return p, nil
}

var c01SessionCookieRE = regexp.MustCompile(`^` + regexp.QuoteMeta(c01CookieName) + `(_\d+)?$`)

type c01CK struct{ Name, Value string }

func c01SessionCookies(b *Browser) []c01CK {
	var out []c01CK
	for _, ck := range b.Jar.For("http", c01Host, "/page") {
		if c01SessionCookieRE.MatchString(ck.Name) {
			out = append(out, c01CK{ck.Name, ck.Value})
		}
	}
	sort.SliceStable(out, func(i, j int) bool { return c01PartIndex(out[i].Name) < c01PartIndex(out[j].Name) })
	return out
}

func c01PartIndex(name string) int {
	if i := strings.LastIndex(name, "_"); i >= len(c01CookieName) {
		n, _ := strconv.Atoi(name[i+1:])
		return n
	}
	return -1
}

func c01Header(cks []c01CK) string {
	var parts []string
	for _, c := range cks {
		parts = append(parts, c.Name+"="+c.Value)
	}
	return strings.Join(parts, "; ")
}

// login runs the full browser flow on px and returns the session cookies the browser holds.
func (e *c01Env) login(px *Proxy, user string) ([]c01CK, error) {
	b := newBrowser(px, "http", c01Host)
	resp, _, err := b.Login(e.idp, user, "/page")
	if err != nil {
		return nil, fmt.Errorf("login %s: %v", user, err)
	}
	if resp.Status != 302 {
		return nil, fmt.Errorf("login %s: callback status %d", user, resp.Status)
	}
	cks := c01SessionCookies(b)
	if len(cks) == 0 {
		return nil, fmt.Errorf("login %s: no session cookie in the jar", user)
	}
	return cks, nil
}

// accepted: is this Cookie header honoured by px right now on at least one of the three
// observables (202 on the auth-only endpoint, upstream reached, userinfo answered)? A login that
// is honoured nowhere cannot serve as the origin of aged / deleted / mis-addressed credentials.
func (e *c01Env) accepted(px *Proxy, cookie string) bool {
	hdr := [][2]string{{"Cookie", cookie}}
	if world.Serve(px.H, &world.Req{Method: "GET", Target: "/oauth2/auth", Host: c01Host, Remote: c01Untrusted, Headers: hdr}).Status == 202 {
		return true
	}
	e.up.Take()
	world.Serve(px.H, &world.Req{Method: "GET", Target: "/page", Host: c01Host, Remote: c01Untrusted, Headers: hdr})
	if len(e.up.Take()) > 0 {
		return true
	}
	return world.Serve(px.H, &world.Req{Method: "GET", Target: "/oauth2/userinfo", Host: c01Host, Remote: c01Untrusted, Headers: hdr}).Status == 200
}

// c01Tamper substitutes one character in part `part` (0 value, 1 timestamp, 2 signature) of the
// signed cookie value, which may be split over several cookies. The last characters of the
// base64 parts are avoided: their low bits are padding and do not change the decoded bytes.
func c01Tamper(cks []c01CK, part int, where string) ([]c01CK, bool) {
	var joined strings.Builder
	for _, c := range cks {
		joined.WriteString(c.Value)
	}
	v := joined.String()
	segs := strings.Split(v, "|")
	if len(segs) != 3 {
		return nil, false
	}
	start := 0
	for i := 0; i < part; i++ {
		start += len(segs[i]) + 1
	}
	n := len(segs[part])
	if n < 8 {
		return nil, false
	}
	var off int
	switch where {
	case "first":
		off = 0
	case "middle":
		off = n / 2
	case "late":
		off = n - 4
	}
	class := "b64"
	if part == 1 {
		class = "digit"
	}
	mv, ok := substituteAt(v, start+off, class)
	if !ok {
		return nil, false
	}
	out := make([]c01CK, len(cks))
	pos := 0
	for i, c := range cks {
		out[i] = c01CK{c.Name, mv[pos : pos+len(c.Value)]}
		pos += len(c.Value)
	}
	return out, true
}

func (e *c01Env) token(name string, user string, spec *world.TokenSpec) string {
	if t, ok := e.tokens[name]; ok {
		return t
	}
	t := e.idp.MintIDToken(e.idp.Users[user], spec)
	e.tokens[name] = t
	return t
}

func (e *c01Env) snapshot() {
	e.snapKeys = e.redis.Keys()
	e.snap = map[string]c01Snap{}
	for _, k := range e.snapKeys {
		v, _ := e.redis.M.Get(k)
		e.snap[k] = c01Snap{v, e.redis.M.TTL(k)}
	}
}

func (e *c01Env) restore() bool {
	keys := e.redis.Keys()
	same := len(keys) == len(e.snapKeys)
	for i := 0; same && i < len(keys); i++ {
		same = keys[i] == e.snapKeys[i]
		if same {
			// (a form login or a refresh by a request that carries a valid ticket overwrites the entry
			// under that ticket's key: same keys, another session)
			v, _ := e.redis.M.Get(keys[i])
			same = v == e.snap[keys[i]].v
		}
	}
	if same {
		return false
	}
	e.redis.M.FlushAll()
	for k, s := range e.snap {
		e.redis.M.Set(k, s.v)
		if s.ttl > 0 {
			e.redis.M.SetTTL(k, s.ttl)
		}
	}
	return true
}

type c01World struct {
	ref   c01CfgRef
	k     c01Cfg
	m     *c01Model
	px    *Proxy
	creds []*c01Cred
	// oddFull: the further methods run on the full request alphabet and the auth-only endpoint with a
	// query under both Accept values (thorough tier, configurations of the orthogonal sub-product);
	// elsewhere on the reduced alphabet
	oddFull bool
}

func c01Str(s string) *string { return &s }

// build constructs the proxy under test and every credential state. The virtual clock ends at
// the evaluation time T = cookie-expire + 1 s after the epoch.
func (e *c01Env) build(ref c01CfgRef) (w *c01World, err error) {
	k := ref.K
	world.ResetClock()
	e.redis.M.FlushAll()
	e.redis.Calls = nil
	e.newIdP()
	e.up.Take()
	px, err := e.proxy(k, cookieSecret32)
	if err != nil {
		return nil, fmt.Errorf("configuration rejected: %v", err)
	}
	w = &c01World{ref: ref, k: k, m: newC01Model(k), px: px}
	other := "redis"
	if k.Store == "redis" {
		other = "cookie"
	}
	open, err := e.sibling("open", k.Store)
	if err != nil {
		return nil, err
	}
	otherSecret, err := e.sibling("other", k.Store)
	if err != nil {
		return nil, err
	}
	otherKind, err := e.sibling("open", other)
	if err != nil {
		return nil, err
	}
	// every proxy exists now: from here on the random stream is a function of (seed, configuration)
	world.SeedRandom(e.c.Seed, uint64(ref.Idx)+1)
	// the proxy on which a user can log in although the proxy under test would refuse the login
	issuer := func(user string) *Proxy {
		if w.m.authorised(c01Idents[user]) {
			return px
		}
		return open
	}
	add := func(c *c01Cred) { c.Complexity = len(w.creds); w.creds = append(w.creds, c) }
	cookieCred := func(name, family string, cks []c01CK, verifies bool, id *c01Ident, why string) *c01Cred {
		return &c01Cred{Name: name, Family: family, Cookie: c01Header(cks), Parts: []c01Part{{Source: "cookie", Verifies: verifies, Ident: id, Why: why}}}
	}
	fixture := func(what string, px *Proxy, cks []c01CK) error {
		if !e.accepted(px, c01Header(cks)) {
			return fmt.Errorf("not-honoured: %s is honoured by its own issuer on none of auth-only / upstream / userinfo right after the login", what)
		}
		return nil
	}

	add(&c01Cred{Name: "none", Family: "none", Producible: true})
	add(cookieCred("cookie-garbage", "forged-cookie", []c01CK{{c01CookieName, "x"}}, false, nil, "not a signed value at all"))

	// t = 0: the cookie that will have expired at T
	expired, err := e.login(px, "alice")
	if err != nil {
		return nil, err
	}
	if err = fixture("expired(alice)", px, expired); err != nil {
		return nil, err
	}
	// Redis: a second old ticket whose store entry is put back after the clock moved
	var kept map[string]string
	var expiredKept []c01CK
	if k.Store == "redis" {
		before := map[string]bool{}
		for _, key := range e.redis.Keys() {
			before[key] = true
		}
		if expiredKept, err = e.login(px, "alice"); err != nil {
			return nil, err
		}
		kept = map[string]string{}
		for _, key := range e.redis.Keys() {
			if !before[key] {
				kept[key], _ = e.redis.M.Get(key)
			}
		}
		if len(kept) == 0 {
			return nil, fmt.Errorf("harness: the Redis login stored nothing")
		}
	}
	world.Advance(c01Expire + time.Second)
	// T: a ticket whose store entry is deleted afterwards (Redis only)
	var gone []c01CK
	if k.Store == "redis" {
		if gone, err = e.login(px, "alice"); err != nil {
			return nil, err
		}
		if err = fixture("gone(alice)", px, gone); err != nil {
			return nil, err
		}
		e.redis.M.FlushAll()
		for key, v := range kept {
			e.redis.M.Set(key, v) // no TTL: only the cookie's own timestamp says it is too old
		}
	}
	// T + 10 min: a cookie whose issue time lies in the future at T
	world.Advance(10 * time.Minute)
	future, err := e.login(px, "alice")
	if err != nil {
		return nil, err
	}
	if err = fixture("future(alice)", px, future); err != nil {
		return nil, err
	}
	world.Advance(-10 * time.Minute)

	// T: everything else
	valid, err := e.login(px, "alice")
	if err != nil {
		return nil, err
	}
	c := cookieCred("cookie-valid-alice", "session-cookie", valid, true, c01Idents["alice"], "")
	c.Producible = true
	add(c)
	for _, u := range []string{"bob", "carol"} {
		ipx := issuer(u)
		cks, err := e.login(ipx, u)
		if err != nil {
			return nil, err
		}
		if err = fixture("valid("+u+")", ipx, cks); err != nil {
			return nil, err
		}
		c := cookieCred("cookie-valid-"+u, "session-cookie", cks, true, c01Idents[u], "")
		c.Producible = true
		add(c)
	}
	if w.m.enabled("basic") {
		// a session established through the sign-in form (htpasswd identity)
		b := newBrowser(px, "http", c01Host)
		r := b.Req("POST", "/oauth2/sign_in", [2]string{"Content-Type", "application/x-www-form-urlencoded"})
		r.Body = "username=" + c01HtUser + "&password=" + c01HtPass
		b.Do(r)
		if cks := c01SessionCookies(b); len(cks) > 0 {
			c := cookieCred("cookie-form-login", "session-cookie", cks, true, w.m.htIdent(), "")
			c.Producible = true
			add(c)
		} else if w.m.authorised(w.m.htIdent()) {
			return nil, fmt.Errorf("fixture: form login of an authorised htpasswd user left no session cookie")
		}
	}
	add(cookieCred("cookie-expired", "stale-cookie", expired, false, c01Idents["alice"], "issued cookie-expire+1s ago"))
	if gone != nil {
		add(cookieCred("cookie-expired-store-entry-kept", "stale-cookie", expiredKept, false, c01Idents["alice"], "issued cookie-expire+1s ago, store entry still present"))
		add(cookieCred("cookie-store-entry-gone", "stale-cookie", gone, false, c01Idents["alice"], "store entry deleted"))
	}
	fc := cookieCred("cookie-issued-in-future", "stale-cookie", future, false, c01Idents["alice"], "issue time 10 min in the future")
	fc.Ambiguous = true
	add(fc)
	for part, pn := range []string{"value", "timestamp", "signature"} {
		for _, where := range []string{"first", "middle", "late"} {
			t, ok := c01Tamper(valid, part, where)
			if !ok {
				return nil, fmt.Errorf("fixture: cannot tamper %s/%s of the session cookie", pn, where)
			}
			add(cookieCred("cookie-tampered-"+pn+"-"+where, "forged-cookie", t, false, c01Idents["alice"], "one character substituted"))
		}
	}
	osck, err := e.login(otherSecret, "alice")
	if err != nil {
		return nil, err
	}
	if err = fixture("other-secret(alice)", otherSecret, osck); err != nil {
		return nil, err
	}
	add(cookieCred("cookie-other-secret", "forged-cookie", osck, false, c01Idents["alice"], "signed with another cookie secret"))
	{
		b := newBrowser(px, "http", c01Host)
		if _, _, err := b.Start("/page"); err != nil {
			return nil, fmt.Errorf("fixture: %v", err)
		}
		var csrf string
		for _, ck := range b.Jar.Cookies {
			if strings.HasPrefix(ck.Name, c01CookieName+"_csrf") {
				csrf = ck.Value
			}
		}
		if csrf == "" {
			return nil, fmt.Errorf("fixture: login start left no CSRF cookie")
		}
		add(cookieCred("cookie-csrf-as-session", "forged-cookie", []c01CK{{c01CookieName, csrf}}, false, nil, "CSRF cookie value under the session cookie name"))
	}
	ok2, err := e.login(otherKind, "alice")
	if err != nil {
		return nil, err
	}
	if err = fixture("other-store-kind(alice)", otherKind, ok2); err != nil {
		return nil, err
	}
	add(cookieCred("cookie-of-other-store-kind", "forged-cookie", ok2, false, c01Idents["alice"], "cookie of a "+other+"-store proxy with the same secret"))

	// bearer tokens
	bearer := func(name, family, token string, verifies bool, id *c01Ident, why string) *c01Cred {
		return &c01Cred{Name: name, Family: family, Authz: token, Parts: []c01Part{{Source: "bearer", Verifies: verifies, Ident: id, Why: why}}}
	}
	ta := e.token("alice", "alice", nil)
	for _, u := range []string{"alice", "bob", "carol"} {
		c := bearer("bearer-valid-"+u, "bearer", "Bearer "+e.token(u, u, nil), true, c01Idents[u], "")
		c.Producible = true
		add(c)
	}
	add(bearer("bearer-other-key", "bearer-invalid", "Bearer "+e.token("other-key", "alice", &world.TokenSpec{Signer: "other"}), false, c01Idents["alice"], "signed with another key"))
	add(bearer("bearer-alg-none", "bearer-invalid", "Bearer "+e.token("alg-none", "alice", &world.TokenSpec{Signer: "none"}), false, c01Idents["alice"], "alg none"))
	add(bearer("bearer-hs256-public-key", "bearer-invalid", "Bearer "+e.token("hs256", "alice", &world.TokenSpec{Signer: "hs256-pem"}), false, c01Idents["alice"], "HS256 keyed with the public key"))
	add(bearer("bearer-wrong-issuer", "bearer-invalid", "Bearer "+e.token("wrong-iss", "alice", &world.TokenSpec{Issuer: c01Str("https://evil.example")}), false, c01Idents["alice"], "iss is not the configured issuer"))
	add(bearer("bearer-second-issuer", "bearer-invalid", "Bearer "+e.token("issuer2", "alice", &world.TokenSpec{Signer: "issuer2"}), false, c01Idents["alice"], "second issuer with the main client's audience: the issuer is not configured, or configured for another audience"))
	xc := bearer("bearer-extra-issuer-valid", "bearer", "Bearer "+e.token("extra-valid", "alice", &world.TokenSpec{Signer: "issuer2", Audience: c01ExtraAud}), true, c01Idents["alice"], "")
	xc.Parts[0].Source = "bearer-extra-issuer"
	xc.Producible = true
	add(xc)
	xc = bearer("bearer-extra-issuer-bob", "bearer", "Bearer "+e.token("extra-bob", "bob", &world.TokenSpec{Signer: "issuer2", Audience: c01ExtraAud}), true, c01Idents["bob"], "")
	xc.Parts[0].Source = "bearer-extra-issuer"
	xc.Producible = true
	add(xc)
	add(bearer("bearer-extra-issuer-main-key", "bearer-invalid", "Bearer "+e.token("extra-main-key", "alice", &world.TokenSpec{Issuer: c01Str(world.Issuer2), Audience: c01ExtraAud}), false, c01Idents["alice"], "names the extra issuer but is signed with the main issuer's key"))
	add(bearer("bearer-main-issuer-extra-audience", "bearer-invalid", "Bearer "+e.token("main-extra-aud", "alice", &world.TokenSpec{Audience: c01ExtraAud}), false, c01Idents["alice"], "main issuer, audience of the extra issuer"))
	add(bearer("bearer-wrong-audience", "bearer-invalid", "Bearer "+e.token("wrong-aud", "alice", &world.TokenSpec{Audience: "another-client"}), false, c01Idents["alice"], "aud is another client"))
	add(bearer("bearer-expired", "bearer-invalid", "Bearer "+e.token("expired", "alice", &world.TokenSpec{Expiry: "expired"}), false, c01Idents["alice"], "exp in the past"))
	add(bearer("bearer-unverified-email", "bearer-invalid", "Bearer "+e.token("dave", "dave", nil), false, &c01Ident{User: "dave.subject", Email: "dave@example.com", Groups: []string{"staff"}}, "email_verified=false"))
	c = bearer("bearer-in-basic-user", "bearer", "Basic "+b64Std([]byte(ta+":x-oauth-basic")), true, c01Idents["alice"], "")
	c.Producible = true
	add(c)
	c = bearer("bearer-in-basic-password", "bearer", "Basic "+b64Std([]byte("x:"+ta)), true, c01Idents["alice"], "")
	add(c) // documented form is token-as-user; token-as-password is accepted too, converse not demanded
	add(bearer("bearer-other-key-in-basic", "bearer-invalid", "Basic "+b64Std([]byte(e.tokens["other-key"]+":x-oauth-basic")), false, c01Idents["alice"], "signed with another key, inside Basic"))

	// htpasswd Basic
	basic := func(name, family, hdr string, verifies bool, why string) *c01Cred {
		var id *c01Ident
		if verifies {
			id = w.m.htIdent()
		}
		return &c01Cred{Name: name, Family: family, Authz: hdr, Parts: []c01Part{{Source: "basic", Verifies: verifies, Ident: id, Why: why}}}
	}
	c = basic("basic-valid", "basic", basicAuth(c01HtUser, c01HtPass), true, "")
	c.Producible = true
	add(c)
	c = basic("basic-bcrypt-valid", "basic", basicAuth(c01BcUser, c01BcPass), true, "")
	if id := c.Parts[0].Ident; id != nil {
		cp := *id
		cp.User = c01BcUser
		c.Parts[0].Ident = &cp
	}
	add(c)
	add(basic("basic-bcrypt-wrong-password", "basic-invalid", basicAuth(c01BcUser, c01HtPass), false, "wrong password"))
	add(basic("basic-entry-with-truncated-bcrypt-hash", "basic-invalid", basicAuth("locked", "anything"), false, "the htpasswd entry cannot be evaluated"))
	add(basic("basic-entry-with-impossible-bcrypt-cost", "basic-invalid", basicAuth("weird", c01HtPass), false, "the htpasswd entry cannot be evaluated"))
	add(basic("basic-wrong-password", "basic-invalid", basicAuth(c01HtUser, "wrong"), false, "wrong password"))
	add(basic("basic-empty-password", "basic-invalid", basicAuth(c01HtUser, ""), false, "empty password"))
	add(basic("basic-unknown-user", "basic-invalid", basicAuth("nobody", c01HtPass), false, "unknown user"))
	add(basic("basic-user-is-email", "basic-invalid", basicAuth("alice@example.com", c01HtPass), false, "unknown user"))

	// malformed Authorization
	for _, mf := range [][2]string{{"bearer-bare", "Bearer"}, {"bearer-not-jwt", "Bearer abc.def"}, {"basic-not-base64", "Basic !!!"}, {"basic-no-colon", "Basic " + b64Std([]byte(c01HtUser))}, {"scheme-unknown", "Negotiate " + ta}, {"bearer-lowercase-scheme", "bearer " + ta}} {
		cr := &c01Cred{Name: "authz-" + mf[0], Family: "malformed", Authz: mf[1], Parts: []c01Part{{Source: "bearer", Verifies: false, Why: "malformed Authorization header"}}}
		if mf[0] == "bearer-lowercase-scheme" {
			// RFC 7235 schemes are case-insensitive: whether "bearer <valid token>" verifies is open
			cr.Ambiguous = true
		}
		add(cr)
	}

	// combinations (only-if direction only): allowed iff any carried credential is
	validPart := c01Part{Source: "cookie", Verifies: true, Ident: c01Idents["alice"]}
	bobHdr := ""
	for _, cr := range w.creds {
		if cr.Name == "cookie-valid-bob" {
			bobHdr = cr.Cookie
		}
	}
	tampered, _ := c01Tamper(valid, 2, "middle")
	add(&c01Cred{Name: "combo-bad-bearer+valid-cookie", Family: "combination", Cookie: c01Header(valid), Authz: "Bearer " + e.tokens["other-key"],
		Parts: []c01Part{{Source: "bearer", Verifies: false, Ident: c01Idents["alice"], Why: "signed with another key"}, validPart}})
	add(&c01Cred{Name: "combo-wrong-basic+valid-cookie", Family: "combination", Cookie: c01Header(valid), Authz: basicAuth(c01HtUser, "wrong"),
		Parts: []c01Part{{Source: "basic", Verifies: false, Why: "wrong password"}, validPart}})
	add(&c01Cred{Name: "combo-bob-bearer+tampered-cookie", Family: "combination", Cookie: c01Header(tampered), Authz: "Bearer " + e.tokens["bob"],
		Parts: []c01Part{{Source: "bearer", Verifies: true, Ident: c01Idents["bob"]}, {Source: "cookie", Verifies: false, Ident: c01Idents["alice"], Why: "one character substituted"}}})
	add(&c01Cred{Name: "combo-wrong-basic+bob-cookie", Family: "combination", Cookie: bobHdr, Authz: basicAuth(c01HtUser, "wrong"),
		Parts: []c01Part{{Source: "basic", Verifies: false, Why: "wrong password"}, {Source: "cookie", Verifies: true, Ident: c01Idents["bob"]}}})
	add(&c01Cred{Name: "combo-expired-bearer+expired-cookie", Family: "combination", Cookie: c01Header(expired), Authz: "Bearer " + e.tokens["expired"],
		Parts: []c01Part{{Source: "bearer", Verifies: false, Ident: c01Idents["alice"], Why: "exp in the past"}, {Source: "cookie", Verifies: false, Ident: c01Idents["alice"], Why: "expired"}}})
	add(&c01Cred{Name: "combo-duplicate-cookie-tampered-first", Family: "combination", Cookie: c01Header(tampered) + "; " + c01Header(valid),
		Parts: []c01Part{{Source: "cookie", Verifies: false, Ident: c01Idents["alice"], Why: "one character substituted"}, validPart}})

	// further combinations and the ticket whose store entry belongs to another session (c01_ext_test.go)
	if err := e.extraCreds(w, add, open, valid, expired); err != nil {
		return nil, err
	}

	if k.Store == "redis" {
		e.snapshot()
	}
	e.up.Take()
	return w, nil
}

// ---------------------------------------------------------------------------------------------
// observation and judgement

type c01Obs struct {
	Status        int      `json:"status"`
	Hits          int      `json:"upstream_hits"`
	Class         string   `json:"class"`
	SessionCookie bool     `json:"session_cookie_issued"`
	Ident         string   `json:"userinfo_identity,omitempty"`
	Leaks         []string `json:"identity_strings,omitempty"`
	Panic         string   `json:"panic,omitempty"`
}

func (o c01Obs) String() string {
	return fmt.Sprintf("status=%d class=%s upstream_hits=%d session_cookie_issued=%v identity=%q identity_strings=%v", o.Status, o.Class, o.Hits, o.SessionCookie, o.Ident, o.Leaks)
}

// the sign-in page offers the provider login (form to <prefix>/start) and, with an htpasswd file,
// the password form (POST to <prefix>/sign_in); the error page only links to <prefix>/sign_in by GET
var c01SignInRE = regexp.MustCompile(`<form[^>]*action="/oauth2/start"|<form[^>]*method="POST"[^>]*action="/oauth2/sign_in"`)

func (e *c01Env) observe(w *c01World, r *c01Req, cred *c01Cred) c01Obs {
	e.up.Take()
	resp := world.Serve(w.px.H, r.build(cred))
	hits := len(e.up.Take())
	if w.k.Store == "redis" {
		e.restore()
	}
	return c01Classify(resp, hits)
}

// c01Classify turns a response (and the number of requests the upstream saw meanwhile) into the
// observables of the property.
func c01Classify(resp *world.Resp, hits int) c01Obs {
	o := c01Obs{Status: resp.Status, Hits: hits}
	if resp.Panic != nil {
		o.Panic = fmt.Sprint(resp.Panic)
	}
	// response class
	loc := resp.Location()
	signin := c01SignInRE.MatchString(resp.Body)
	switch {
	case resp.Status >= 300 && resp.Status < 400 && strings.HasPrefix(loc, world.Issuer+"/authorize?"):
		o.Class = "idp-redirect"
	case signin:
		o.Class = "sign-in-page"
	case resp.Status == 401:
		o.Class = "401"
	case resp.Status == 403:
		o.Class = "403"
	default:
		o.Class = fmt.Sprintf("other:%d", resp.Status)
	}
	// session cookie issued?
	for _, ck := range resp.Cookies() {
		if !c01SessionCookieRE.MatchString(ck.Name) {
			continue
		}
		if ck.Value == "" || ck.MaxAge < 0 || (!ck.Expires.IsZero() && !ck.Expires.After(world.Now())) {
			continue
		}
		o.SessionCookie = true
	}
	// identity: userinfo-shaped JSON, and known identity strings anywhere in the response
	if strings.HasPrefix(strings.TrimSpace(resp.Body), "{") {
		var ui struct {
			User  string `json:"user"`
			Email string `json:"email"`
		}
		if json.Unmarshal([]byte(resp.Body), &ui) == nil && (ui.User != "" || ui.Email != "") {
			o.Ident = ui.User + "|" + ui.Email
		}
	}
	hay := resp.Body
	for name, vs := range resp.Header {
		if name == "Set-Cookie" {
			continue
		}
		hay += "\n" + strings.Join(vs, "\n")
	}
	for _, n := range append(c01Needles, c01HtUser) {
		if strings.Contains(hay, n) {
			o.Leaks = append(o.Leaks, n)
		}
	}
	return o
}

type c01Case struct {
	CfgIdx   int      `json:"config_index"`
	Cfg      c01Cfg   `json:"config"`
	Flags    []string `json:"flags,omitempty"`
	Endpoint string   `json:"endpoint"`
	Target   string   `json:"target"`
	Method   string   `json:"method"`
	Remote   string   `json:"remote_addr"`
	Accept   string   `json:"accept"`
	Cred     *c01Cred `json:"credential"`
	Expected string   `json:"expected"`
	Observed c01Obs   `json:"observed"`
}

type c01Verdict struct {
	Decision string
	Bypass   bool
	Ident    *c01Ident // identity of the valid, enabled, authorised credential the request carries (nil if none)
	Fail     string    // failing observable ("" = conforms)
	Msg      string
	// Open: the statement leaves the expectation of this case open (both answers admissible): counted
	// as ambiguous, never an alarm
	Open string
}

// judge compares one observation with the reference decision.
func (w *c01World) judge(r *c01Req, cred *c01Cred, o c01Obs) c01Verdict {
	path := pathOf(r.EP.Target)
	dec, via, ident := w.m.access(r.Method, path, r.Remote, cred, r.EP)
	v := c01Verdict{Decision: dec, Bypass: via, Ident: ident}
	if cred.Ambiguous && !via {
		return v
	}
	if up := strings.ToUpper(r.Method); up != r.Method && w.m.bypass(up, path, r.Remote) != via {
		// method tokens are case-sensitive (RFC 9110 9.1), but whether a rule bound to GET covers a
		// request whose method is spelled "get" is not said anywhere
		v.Open = "method-case-vs-bypass-rule"
		return v
	}
	allowed := dec == "served"
	if !allowed {
		switch {
		case o.Hits > 0:
			v.Fail, v.Msg = "upstream-reached", "the upstream saw the request"
		case o.Status == 202:
			v.Fail, v.Msg = "auth-202", "answered 202"
		case o.Ident != "" || (len(o.Leaks) > 0 && dec == "login"):
			// (a refusal that tells the holder of a valid but unauthorised credential who he is
			// would not contradict the statement: identity strings are only checked for "login")
			v.Fail, v.Msg = "identity-disclosed", fmt.Sprintf("the response discloses identity (userinfo %q, strings %v)", o.Ident, o.Leaks)
		case o.SessionCookie && !w.m.formLogin(r.Method, r.EP):
			v.Fail, v.Msg = "session-cookie-issued", "a session cookie was issued"
		case r.EP.Kind != "own" && o.Class != "sign-in-page" && o.Class != "idp-redirect" && o.Class != "401" && o.Class != "403":
			v.Fail, v.Msg = "response-class", "the answer is neither a sign-in page, a redirect to the identity provider, 401 nor 403"
		}
		return v
	}
	// allowed: a session cookie may only be (re-)issued to a request that carries a credential
	if via && ident == nil && o.SessionCookie && !w.m.formLogin(r.Method, r.EP) {
		v.Fail, v.Msg = "session-cookie-issued", "a session cookie was issued to a request that only matched a bypass"
		return v
	}
	// converse, for requests real clients produce
	if !cred.Producible || !c01Producible(r.Method) {
		return v
	}
	if via && w.m.restrictedOut(r.EP, cred) {
		// the request matches a bypass AND carries a valid credential that the restriction in the
		// auth-only endpoint's query excludes: which of the two prevails is open
		v.Open = "bypass-vs-auth-query-restriction"
		return v
	}
	switch r.EP.Kind {
	case "proxied":
		if o.Hits == 0 {
			v.Fail, v.Msg = "not-served", "no upstream saw the request"
		}
	case "auth":
		if o.Status != 202 {
			v.Fail, v.Msg = "not-served", "the auth-only endpoint did not answer 202"
		}
	case "userinfo":
		if o.Status < 200 || o.Status > 299 {
			v.Fail, v.Msg = "not-served", "userinfo was refused"
		} else if ident != nil {
			// the identity of the credential: e-mail for provider sessions, user name for htpasswd ones
			want := ident.Email
			if want == "" {
				want = ident.User
			}
			if !strings.Contains(o.Ident, want) {
				v.Fail, v.Msg = "wrong-identity", fmt.Sprintf("userinfo does not return the identity of the credential (%s)", want)
			}
		}
	}
	return v
}

func c01CredGroup(cred *c01Cred) string {
	switch cred.Family {
	case "none":
		return "no-credential"
	case "session-cookie":
		return "unauthorised-or-valid-cookie"
	case "bearer", "basic":
		return "unauthorised-or-disabled-" + cred.Family
	}
	return cred.Family
}

// ---------------------------------------------------------------------------------------------
// the exploration

func (e *c01Env) runConfig(w *c01World, only *c01Case) (lines []string) {
	c := e.c
	for ei := range c01Endpoints {
		ep := &c01Endpoints[ei]
		for _, method := range c01AllMethods() {
			// the methods beyond GET/POST/OPTIONS run on a reduced request alphabet in the quick tier
			// (c01_ext_test.go); the credential-less request of every cell is always there
			odd := c01OddMethod(method)
			for _, remote := range c01Remotes {
				for _, accept := range c01Accepts {
					r := &c01Req{EP: ep, Method: method, Remote: remote, Accept: accept}
					if only != nil && (only.Endpoint != ep.Name || only.Method != method || only.Remote != remote || only.Accept != accept) {
						continue
					}
					if only == nil && ((odd && !w.oddFull && w.skipOddCell(remote, accept)) || (!w.oddFull && ep.hasRestriction() && accept != c01Accepts[0])) {
						continue
					}
					baseline := "" // failing observable of the credential-less request of this cell
					for ci, cred := range w.creds {
						if only != nil && ci != 0 && only.Cred != nil && only.Cred.Name != cred.Name {
							continue
						}
						if odd && only == nil && !w.oddFull && ci != 0 && !c01OddCred(cred) {
							continue
						}
						o := e.observe(w, r, cred)
						v := w.judge(r, cred, o)
						if ci == 0 {
							baseline = v.Fail
						}
						if only != nil {
							if only.Cred == nil || only.Cred.Name == cred.Name {
								lines = append(lines, fmt.Sprintf("%s %s remote=%s accept=%s credential=%s: expected %s (bypass=%v), observed %s", method, ep.Target, remote, accept, cred.Name, v.Decision, v.Bypass, o))
								if v.Fail != "" {
									c.Violate(w.m.key(v.Fail, ep, cred, baseline, o, v.Decision), v.Msg, 1, only)
								}
							}
							continue
						}
						e.record(w, r, cred, o, v, baseline)
					}
				}
			}
		}
	}
	return lines
}

// c01Key builds the finding key: one key per mechanism, as far as it can be told from outside.
//   - the same cell also fails without any credential: the endpoint is the mechanism
//   - a credential was honoured that should not have been: the credential state is the mechanism
//     (ticket cookies and cookie-store cookies are different kinds of credential)
//   - wrong response class: what was answered instead and what provoked it
//   - converse: endpoint kind and credential family
func (m *c01Model) key(fail string, ep *c01Endpoint, cred *c01Cred, baseline string, o c01Obs, decision string) string {
	store := ""
	if cred.Cookie != "" {
		store = ":" + m.k.Store + "-store"
	}
	switch {
	case baseline == fail:
		return "C01/" + fail + "@" + ep.Name + ":no-credential"
	case fail == "response-class":
		group := c01CredGroup(cred)
		for _, p := range cred.Parts {
			if p.Source == "cookie" && !p.Verifies && cred.Cookie != "" {
				group = "invalid-session-cookie"
				if m.k.Store == "redis" {
					group = "invalid-ticket-cookie"
				}
			}
		}
		return "C01/response-class:" + strings.TrimPrefix(o.Class, "other:") + "@" + ep.Kind + ":" + group
	case fail == "not-served" || fail == "wrong-identity":
		return "C01/" + fail + "@" + ep.Kind + ":" + cred.Family + store
	}
	if fail == "session-cookie-issued" {
		return "C01/session-cookie-issued@" + ep.Name + ":" + cred.Name + store
	}
	// a credential was honoured: which step let it through?
	disabled := ""
	for _, p := range cred.Parts {
		if p.Verifies && m.enabled(p.Source) && m.authorised(p.Ident) {
			if why := ep.restricted(p.Ident); why != "" {
				// it passes the proxy's own rules: the restriction in the endpoint's query is what failed
				return "C01/honoured-despite-auth-query:" + why + ":" + p.Source
			}
		}
	}
	for _, p := range cred.Parts {
		if p.Verifies && m.enabled(p.Source) {
			// it verifies and its source is on: the authorisation rule is what failed
			return "C01/honoured-unauthorised:" + m.k.Authz + "-rule:" + p.Source
		}
		if p.Verifies && disabled == "" {
			disabled = p.Source
		}
	}
	if disabled != "" {
		return "C01/honoured-source-disabled:" + disabled
	}
	return "C01/honoured-invalid:" + cred.Name + store
}

func (e *c01Env) record(w *c01World, r *c01Req, cred *c01Cred, o c01Obs, v c01Verdict, baseline string) {
	c := e.c
	c.Inc("evaluations")
	caseKey := fmt.Sprintf("%d|%s|%s|%s|%s|%s", w.ref.Idx, r.EP.Name, r.Method, r.Remote, r.Accept, cred.Name)
	if cred.Family != "none" || v.Bypass {
		c.Distinct("distinct_nontrivial", caseKey)
	}
	e.recordExt(w, r, cred, o, v)
	switch {
	case v.Open != "":
		c.Inc("ambiguous")
		c.Inc("ambiguous:" + v.Open)
	case cred.Ambiguous && !v.Bypass:
		c.Inc("ambiguous")
		if o.Hits > 0 || o.Status == 202 || o.Ident != "" {
			c.Inc("ambiguous_served:" + cred.Name)
		} else {
			c.Inc("ambiguous_refused:" + cred.Name)
		}
	case v.Bypass:
		c.Inc("expect_served_by_bypass")
		c.Inc("bypass_kind:" + w.k.Bypass)
		if o.Ident != "" && v.Ident == nil {
			// statement-admissible (the request matches a bypass) but worth knowing
			c.Inc("bypass_identity_without_authorised_credential")
		}
	case v.Decision == "served":
		c.Inc("expect_served_by_credential")
		c.Inc("served_family:" + cred.Family)
	case v.Decision == "denied":
		c.Inc("expect_denied")
	default:
		c.Inc("expect_login")
		c.Inc("refused_family:" + cred.Family)
	}
	if o.Hits > 0 {
		c.Inc("observed_upstream_hit")
	}
	if o.Status == 202 {
		c.Inc("observed_auth_202")
	}
	if o.Ident != "" {
		c.Inc("observed_userinfo_identity")
	}
	if o.SessionCookie {
		c.Inc("observed_session_cookie_issued")
	}
	if o.Panic != "" {
		c.Inc("panics")
		c.Note("panic (C19's subject, counted only): %s on %s %s credential %s", o.Panic, r.Method, r.EP.Target, cred.Name)
	}
	if cred.Producible && c01Producible(r.Method) && v.Open == "" && v.Decision == "served" && r.EP.Kind != "own" {
		c.Inc("converse_checked")
	}
	c.Distinct("distinct_outcomes", fmt.Sprintf("%s|%s|%v|%s|%v|%v|%v", r.EP.Kind, v.Decision, v.Bypass, o.Class, o.Hits > 0, o.SessionCookie, o.Ident != ""))
	cs := &c01Case{CfgIdx: w.ref.Idx, Cfg: w.k, Endpoint: r.EP.Name, Target: r.EP.Target, Method: r.Method, Remote: r.Remote, Accept: r.Accept, Cred: cred,
		Expected: fmt.Sprintf("%s (bypass=%v)", v.Decision, v.Bypass), Observed: o}
	if v.Fail == "" {
		if cred.Family != "none" && (w.ref.Idx+cred.Complexity)%97 == 0 {
			c.Sample(4, cs)
		}
		return
	}
	cs.Flags = w.px.Cfg.Flags
	key := w.m.key(v.Fail, r.EP, cred, baseline, o, v.Decision)
	nonDefault := 0
	for i, d := range []string{w.k.Store, w.k.Bypass, w.k.Sources, w.k.Authz, w.k.Mode} {
		if d != [][]string{c01Stores, c01Bypasses, c01Sources, c01Authzs, c01Modes}[i][0] {
			nonDefault++
		}
	}
	size := nonDefault*1000 + cred.Complexity*10
	if r.Method != "GET" {
		size += 3
	}
	if r.Remote != c01Untrusted {
		size += 2
	}
	if r.Accept != c01Accepts[0] {
		size++
	}
	msg := fmt.Sprintf("config %s: %s %s (remote %s, Accept %s) with credential %s [%s]: expected %s, but %s; observed %s",
		w.k, r.Method, r.EP.Target, r.Remote, r.Accept, cred.Name, c01Why(cred), v.Decision, v.Msg, o)
	if old := c.Violations[key]; old != nil && old.Size <= size {
		c.Violate(key, msg, size, cs) // already confirmed with a simpler case: count only
		return
	}
	c.confirm(key, msg, size, cs, func() (string, bool) {
		o2 := e.observe(w, r, cred)
		v2 := w.judge(r, cred, o2)
		return w.m.key(v2.Fail, r.EP, cred, baseline, o2, v2.Decision), v2.Fail != ""
	})
}

func c01Why(cred *c01Cred) string {
	var parts []string
	for _, p := range cred.Parts {
		s := p.Source + ":"
		if p.Verifies {
			s += "verifies"
			if p.Ident != nil {
				if p.Ident.Email != "" {
					s += " as " + p.Ident.Email
				} else {
					s += " as " + p.Ident.User
				}
			}
		} else {
			s += "invalid (" + p.Why + ")"
		}
		parts = append(parts, s)
	}
	if len(parts) == 0 {
		return "no credential"
	}
	return strings.Join(parts, ", ")
}

// signature hashes the credential list (names and lengths; the bytes contain an expiry the fake
// provider computes against the real clock) and the observations of all credentials on the
// three identity-bearing endpoints.
func (e *c01Env) signature(w *c01World) string {
	h := sha256.New()
	for _, cred := range w.creds {
		fmt.Fprintf(h, "%s|%d|%d\n", cred.Name, len(cred.Cookie), len(cred.Authz))
		for _, name := range []string{"protected", "auth", "userinfo"} {
			for i := range c01Endpoints {
				if c01Endpoints[i].Name == name {
					o := e.observe(w, &c01Req{EP: &c01Endpoints[i], Method: "GET", Remote: c01Untrusted, Accept: c01Accepts[0]}, cred)
					fmt.Fprintf(h, "%s\n", o)
				}
			}
		}
	}
	return hex.EncodeToString(h.Sum(nil)[:8])
}

func c01Run(c *Ctx) {
	cfgs := c01Configs(c.Quick())
	cov, total := c01PairCoverage(cfgs)
	if cov != total {
		c.Error("configuration sub-product covers only %d of %d value pairs", cov, total)
	}
	c01Concurrent(c)
	e := newC01Env(c)
	defer e.close()
	var credNames []string
	selfTested := false
	subProduct := map[int]bool{}
	for _, ref := range c01Configs(true) {
		subProduct[ref.Idx] = true
	}
	for i, ref := range cfgs {
		if !c.Mine(i) {
			continue
		}
		if c.Expired() {
			break
		}
		w, err := e.build(ref)
		if err != nil {
			if strings.HasPrefix(err.Error(), "not-honoured:") {
				// a session the harness obtained through a real login is not honoured by its own
				// issuer: the converse of the property fails before the product even starts
				c.Violate("C01/not-served@fresh-login", fmt.Sprintf("config %s: %v", ref.K, err), 0, &c01Case{CfgIdx: ref.Idx, Cfg: ref.K})
			} else {
				c.Error("config %s: %v", ref.K, err)
			}
			continue
		}
		if !selfTested {
			// determinism: the same configuration built twice from the same seed yields the same
			// credentials and the same observations
			selfTested = true
			sig1 := e.signature(w)
			w2, err2 := e.build(ref)
			if err2 != nil {
				c.Error("config %s: second build failed: %v", ref.K, err2)
				continue
			}
			if sig2 := e.signature(w2); sig1 != sig2 {
				c.Unstable("config %s built twice from the same seed gives different credentials or observations (%s vs %s)", ref.K, sig1, sig2)
			}
			w = w2
			c.Inc("determinism_selftests")
		}
		w.oddFull = !c.Quick() && subProduct[ref.Idx]
		if w.oddFull {
			c.Inc("configurations_with_further_methods_on_full_alphabet")
		}
		c.Inc("configurations")
		c.Inc("store:" + ref.K.Store)
		if len(w.creds) > len(credNames) {
			credNames = credNames[:0]
			for _, cr := range w.creds {
				credNames = append(credNames, cr.Name)
			}
		}
		e.runConfig(w, nil)
	}
	// credential states around refresh (own configurations, one fresh world per request)
	c01Refresh(c, e)
	world.ResetClock()
	if c.Shard == 0 {
		c.Info["alphabet"] = map[string]any{
			"stores": c01Stores, "bypass": c01Bypasses, "credential_sources": c01Sources, "authorisation": c01Authzs, "unauthenticated_mode": c01Modes,
			"configurations_in_tier": len(cfgs), "configuration_value_pairs_covered": fmt.Sprintf("%d/%d", cov, total),
			"endpoints": len(c01Endpoints), "methods": c01Methods, "further_methods": c01OddMethods, "further_methods_quick_credentials": len(c01OddCreds), "remote_addresses": c01Remotes, "accept": c01Accepts,
			"credential_states": credNames, "requests_per_configuration_max": len(c01Endpoints) * len(c01AllMethods()) * len(c01Remotes) * len(c01Accepts) * len(credNames),
		}
	}
}

var c01MustSee = []string{
	"expect_served_by_bypass", "expect_served_by_credential", "expect_denied", "expect_login", "converse_checked",
	"observed_upstream_hit", "observed_auth_202", "observed_userinfo_identity", "observed_session_cookie_issued",
	"store:cookie", "store:redis", "determinism_selftests",
	"served_family:session-cookie", "served_family:bearer", "served_family:basic", "served_family:combination",
	"refused_family:none", "refused_family:forged-cookie", "refused_family:stale-cookie", "refused_family:bearer-invalid", "refused_family:basic-invalid",
	"refused_family:malformed", "refused_family:bearer", "refused_family:basic", "refused_family:combination",
	"bypass_kind:route-method", "bypass_kind:route-any", "bypass_kind:route-negated", "bypass_kind:legacy-regex", "bypass_kind:trusted-ip", "bypass_kind:preflight", "bypass_kind:all",
}

func init() {
	register(&checkDef{
		id:    "C01",
		level: "exploration",
		rule:  "product configurations (store x bypass kind x credential sources x authorisation rule x unauthenticated mode; thorough: full product, quick: orthogonal sub-product covering every pair of values) x 21 endpoint classes (incl. the auth-only endpoint with an allowed_groups / allowed_emails / allowed_email_domains query) x {GET,POST,OPTIONS} and 9 further methods (HEAD, PUT, DELETE, PATCH, TRACE, CONNECT, PROPFIND, M-SEARCH, lower-case get; on the full request alphabet in the thorough tier for the configurations of the orthogonal sub-product, elsewhere with 12 credential states, Accept html, the trusted address only where trusted networks are configured) x {trusted,untrusted} remote address x Accept {html,json} x credential states (none; sessions obtained by real logins: valid, valid-but-unauthorised, form login, expired by advancing the clock, expired with the store entry kept, store entry deleted, issued in the future; forged: one character substituted in value/timestamp/signature, other cookie secret, CSRF cookie under the session name, cookie of the other store kind; bearer tokens valid / other key / alg none / HS256-with-public-key / wrong issuer / second issuer (valid only where listed as extra issuer with its audience; main-key and audience mix-ups) / wrong audience / expired / unverified e-mail / inside Basic; htpasswd Basic valid / wrong / empty password / unknown user; malformed Authorization; a ticket whose store entry holds another user's session; combinations of two credentials on one request: invalid cookie + valid bearer, cookie and bearer of differently authorised users both ways, valid cookie + malformed Authorization, cookie + htpasswd Basic, two session cookies of one name in both orders), every request through ServeHTTP against an access-decision function written from the statement; observables: upstream log, 202, userinfo identity and identity strings anywhere in the response, session Set-Cookie, response class; non-trivial = the request carries a credential or matches a bypass. Second product (one fresh world per request): session cookie of a real login x {cookie, Redis} x {OIDC, provider with validate-url} x {younger than cookie-refresh, older, older and past the session's own expiry} x refresh grant {succeeds, invalid_grant, 500, no refresh token, ID token signed with another key, not implemented} x 4 endpoints x methods; a session whose refresh failed and that no longer validates must be refused (also when the same cookie, the browser's jar after the refusal, or the cookie lines of the refusal itself are presented next), a refreshed one served",
		assumptions: []string{
			"'valid' is read as in DESIGN Appendix B: verifies, its source is enabled and the identity passes the e-mail / group rules of the proxy (the proxy itself calls a session failing them invalid); serving a verified but unauthorised credential is reported here although C08 owns the rules themselves",
			"a session cookie issued by a proxy with the same cookie secret and the same store counts as issued by this proxy (that is how a user who is no longer authorised holds a valid session after a rule change)",
			"valid = verifies now: signature under this proxy's secret, not older than cookie-expire (2h), store entry present; a cookie issued 10 min in the future and a lower-case 'bearer' scheme are counted as ambiguous and never alarm",
			"response classes: sign-in page = body with the sign-in/login form of the proxy (any status), redirect to the identity provider = 3xx to the authorisation endpoint, 401, 403; checked on upstream paths, /oauth2/auth and /oauth2/userinfo; on the proxy's other endpoints (start, sign_in, sign_out, callback, static, robots, ping, ready, unknown path under the prefix) only the negative observables apply",
			"a request matching a bypass may show the identity of whatever session it carries (the statement allows it); counted as bypass_identity_without_authorised_credential when the request carries no valid, authorised credential",
			"the converse (served) is asserted only for requests a browser or API client produces: no credential with a bypass, cookies obtained by login, bearer token as Bearer or as Basic user name, htpasswd Basic",
			"in the first product cookie-refresh is 0; the states around refresh have their own product (interleavings of refreshing requests are C12's subject, the provider's answers C14's); bypass matching details are C15's subject: bypass paths carry no query string",
			"several credentials on one request: the statement does not say which one counts; served is admissible iff one of them verifies, its source is enabled and it is authorised (counted as combination_precedence_open where the credentials alone would fare differently), never demanded",
			"the query of the auth-only endpoint (docs/features/endpoints.md) narrows 'authorised': 202 for an identity the query excludes is reported; a request that matches a bypass and carries an excluded identity is open (counted), so is a lower-case 'get' against a rule bound to GET",
			"the converse is asserted for the methods browsers send (GET, POST, OPTIONS, HEAD, PUT, DELETE, PATCH), not for TRACE, CONNECT, WebDAV methods or 'get'",
			"refresh failed but the old tokens still validate (invalid_grant, 500, unverifiable ID token in the answer): open, counted; no refresh token / refresh not implemented and the session validates: still valid, served",
			"a refusal that carries a live session cookie line followed by its deletion is reported only if that cookie demonstrably works when presented (or survives in a browser's jar)",
			"Redis contents are restored after every request that changed them (sign-out, clear-on-denied, form login) so that all requests of a configuration see the same store",
		},
		shards: func(tier string) int { return 16 },
		run:    c01Run,
		post: func(c *Ctx) {
			for _, name := range append(append([]string{}, c01MustSee...), c01ExtMustSee()...) {
				if c.Counters[name] == 0 {
					c.Error("vacuous: %q never occurred", name)
				}
			}
			if c.Counters["panics"] > 0 {
				c.Note("%d requests panicked inside ServeHTTP (fail-closed for this property; C19's subject)", c.Counters["panics"])
			}
		},
		replay: func(c *Ctx, raw json.RawMessage) string {
			var cr0 c01ConcReplay
			if json.Unmarshal(raw, &cr0) == nil && cr0.Kind == "concurrent-requests" {
				return c01ConcReplayOne(c, cr0)
			}
			var rc c01RefCase
			if json.Unmarshal(raw, &rc) == nil && rc.State.Store != "" {
				return c01RefReplay(c, rc)
			}
			var cs c01Case
			if err := json.Unmarshal(raw, &cs); err != nil || cs.Cfg.Store == "" {
				return "not a C01 case"
			}
			e := newC01Env(c)
			defer e.close()
			w, err := e.build(c01CfgRef{Idx: cs.CfgIdx, K: cs.Cfg})
			if err != nil {
				if strings.HasPrefix(err.Error(), "not-honoured:") {
					c.Violate("C01/not-served@fresh-login", err.Error(), 0, cs)
				}
				return "building the configuration failed: " + err.Error()
			}
			if cs.Endpoint == "" {
				return "configuration builds and every login is honoured by its issuer"
			}
			lines := e.runConfig(w, &cs)
			world.ResetClock()
			if len(lines) == 0 {
				return "the recorded request is not part of the alphabet any more"
			}
			return strings.Join(lines, "\n  ")
		},
	})
}
