//go:build verif

package main

import (
	"crypto/sha256"
	"encoding/hex"
	"encoding/json"
	"fmt"
	"net/http"
	"net/url"
	"sort"
	"strconv"
	"strings"
	"time"

	"github.com/oauth2-proxy/oauth2-proxy/v7/verifx/world"
)

// C18 — every cookie the proxy sets carries the configured protection attributes (PROD).
//
// Enumerated: cookie option combinations x request hosts x cookie-emitting flows x session store;
// every Set-Cookie line of every response is compared with a reference written from the property
// statement and docs/configuration/overview.md (cookie_domains: "The longest domain matching the
// request's host will be used (or the shortest cookie domain if there is no match)").

// ---- configuration alphabet

type c18Cfg struct {
	Secure     bool     `json:"secure"`
	HTTPOnly   bool     `json:"httponly"`
	SameSite   string   `json:"samesite"`
	Path       string   `json:"path"`
	Domains    []string `json:"domains"` // as configured (order as given on the command line)
	NameLen    int      `json:"name_len"`
	Redis      bool     `json:"redis"`
	CSRFPerReq bool     `json:"csrf_per_request"`
	RevProxy   bool     `json:"reverse_proxy"`
}

var c18SameSites = []string{"", "lax", "strict", "none"}
var c18Paths = []string{"/", "/app"}
var c18DomainSets = [][]string{
	nil,
	{"app.example.com"},
	{".app.example.com"},
	{"example.com", "app.example.com"}, // two nested, shortest first
	{"app.example.com", "example.com"}, // two nested, longest first
	{"example.com", "x.app.example.com", "app.example.com"}, // three nested, scrambled
	{"app.example.com", "other.org"},                        // two unrelated
	{"other.org", ".app.example.com"},                       // two unrelated, other order, leading dot
	{"example.org", "a.b.c.io"},                             // neither matches any host; the shortest STRING has the most labels
}

func c18Name(n int) string {
	const def = "_oauth2_proxy"
	if n <= len(def) {
		return def[:n]
	}
	return def + strings.Repeat("n", n-len(def))
}

func (k c18Cfg) name() string { return c18Name(k.NameLen) }

func (k c18Cfg) prefix() string {
	if k.Path == "/" {
		return "/oauth2"
	}
	return k.Path + "/oauth2"
}

func (k c18Cfg) page() string {
	if k.Path == "/" {
		return "/page"
	}
	return k.Path + "/page"
}

func (k c18Cfg) nonDefault() int {
	n := 0
	for _, b := range []bool{!k.Secure, !k.HTTPOnly, k.SameSite != "", k.Path != "/", k.NameLen != 13, k.Redis, k.CSRFPerReq, k.RevProxy} {
		if b {
			n++
		}
	}
	return n
}

func (k c18Cfg) flags(emailDomain, htpasswd string) []string {
	f := append(baseFlags("static://200"),
		"--email-domain="+emailDomain,
		"--cookie-secure="+strconv.FormatBool(k.Secure),
		"--cookie-httponly="+strconv.FormatBool(k.HTTPOnly),
		"--cookie-samesite="+k.SameSite,
		"--cookie-path="+k.Path,
		"--cookie-name="+k.name(),
		"--cookie-expire=2h",
		"--cookie-refresh=10m",
		"--cookie-csrf-expire=15m",
		"--cookie-csrf-per-request="+strconv.FormatBool(k.CSRFPerReq),
		"--reverse-proxy="+strconv.FormatBool(k.RevProxy),
		"--proxy-prefix="+k.prefix(),
		"--code-challenge-method=S256",
		"--htpasswd-file="+htpasswd,
	)
	for _, d := range k.Domains {
		f = append(f, "--cookie-domain="+d)
	}
	return f
}

// c18Configs enumerates the configuration product of the tier. The attribute dimensions are the
// fastest-varying ones, so that with 16 shards (i mod 16) every shard owns one attribute
// combination and sees every store, domain set, name length and flow.
func c18Configs(quick bool) []c18Cfg {
	names := []int{13, 100, 256}
	extras := [][2]bool{{false, false}, {false, true}, {true, false}, {true, true}} // csrf-per-request, reverse-proxy
	if quick {
		names = []int{13, 256}
		extras = [][2]bool{{false, false}, {true, true}}
	}
	var out []c18Cfg
	for _, ex := range extras {
		for _, redis := range []bool{false, true} {
			for _, nl := range names {
				for _, ds := range c18DomainSets {
					for _, p := range c18Paths {
						for _, ss := range c18SameSites {
							for _, ho := range []bool{true, false} {
								for _, se := range []bool{true, false} {
									out = append(out, c18Cfg{Secure: se, HTTPOnly: ho, SameSite: ss, Path: p, Domains: ds,
										NameLen: nl, Redis: redis, CSRFPerReq: ex[0], RevProxy: ex[1]})
								}
							}
						}
					}
				}
			}
		}
	}
	return out
}

// ---- request-host alphabet

type c18Host struct {
	Class string `json:"class"`
	Host  string `json:"host"`             // Host header on the wire
	XFH   string `json:"x_forwarded_host"` // "" = header absent
}

var c18HostNames = []struct {
	class, name  string
	thoroughOnly bool
}{
	{"exact", "app.example.com", false},
	{"sub", "x.app.example.com", false},
	{"deeper", "y.x.app.example.com", true},
	{"parent", "example.com", false},
	{"unrelated", "unrelated.test", false},
	{"other-sub", "www.other.org", true},
	{"suffix-not-label", "notapp.example.com", false},
}

const c18Internal = "internal.local:4180"

func c18Hosts(revProxy, quick bool) []c18Host {
	var out []c18Host
	for _, h := range c18HostNames {
		if quick && h.thoroughOnly {
			continue
		}
		for _, port := range []string{"", ":4180"} {
			cl := h.class
			if port != "" {
				cl += "+port"
			}
			if revProxy {
				out = append(out, c18Host{Class: "forwarded/" + cl, Host: c18Internal, XFH: h.name + port})
			} else {
				out = append(out, c18Host{Class: "direct/" + cl, Host: h.name + port})
			}
		}
	}
	if revProxy {
		// reverse-proxy mode, but the header is absent: the Host header counts
		out = append(out, c18Host{Class: "direct-in-rp-mode/sub", Host: "x.app.example.com"},
			c18Host{Class: "direct-in-rp-mode/exact+port", Host: "app.example.com:4180"})
	} else {
		// header present but reverse-proxy mode off: it must be ignored
		out = append(out, c18Host{Class: "xfh-ignored/sub", Host: "x.app.example.com", XFH: "unrelated.test"},
			c18Host{Class: "xfh-ignored/unrelated+port", Host: "unrelated.test:4180", XFH: "app.example.com"})
	}
	return out
}

// visible is the host the browser talks to, i.e. the "request host" of the property: the
// forwarded host only in reverse-proxy mode (Appendix B), else the Host header.
func (h c18Host) visible(revProxy bool) string {
	if revProxy && h.XFH != "" {
		return h.XFH
	}
	return h.Host
}

// ---- reference model

func c18NormDomain(d string) string { return strings.ToLower(strings.TrimPrefix(d, ".")) }

func c18StripPort(hostport string) string {
	if i := strings.LastIndex(hostport, ":"); i >= 0 && !strings.HasSuffix(hostport, "]") {
		return hostport[:i]
	}
	return hostport
}

// c18Pick applies "longest matching, else shortest configured" for one reading of "matching".
// Ties in length are all admissible. Result: set of normalised domains ("" = no attribute).
func c18Pick(domains []string, matches func(d string) bool) (map[string]bool, bool) {
	out := map[string]bool{}
	if len(domains) == 0 {
		out[""] = true
		return out, false
	}
	best := -1
	for _, d := range domains {
		if matches(d) && len(d) > best {
			best = len(d)
		}
	}
	if best >= 0 {
		for _, d := range domains {
			if matches(d) && len(d) == best {
				out[c18NormDomain(d)] = true
			}
		}
		return out, true
	}
	min := 1 << 30
	for _, d := range domains {
		if len(d) < min {
			min = len(d)
		}
	}
	for _, d := range domains {
		if len(d) == min {
			out[c18NormDomain(d)] = true
		}
	}
	return out, false
}

// c18ExpectedDomain: admissible Domain values for a request host (given without port).
// Two readings of "matching the request host": plain string suffix of the configured text, and
// RFC 6265 domain-match on the configured domain without its leading dot. The union is accepted;
// cases where the readings differ are counted as ambiguous.
func c18ExpectedDomain(domains []string, host string) (adm map[string]bool, ambiguous bool, class string) {
	host = strings.ToLower(host)
	a, _ := c18Pick(domains, func(d string) bool { return strings.HasSuffix(host, strings.ToLower(d)) })
	b, matched := c18Pick(domains, func(d string) bool {
		n := c18NormDomain(d)
		return host == n || strings.HasSuffix(host, "."+n)
	})
	switch {
	case len(domains) == 0:
		class = "none-configured"
	case matched:
		class = "longest-match"
	default:
		class = "shortest-fallback"
	}
	adm = map[string]bool{}
	for k := range a {
		adm[k] = true
		if !b[k] {
			ambiguous = true
		}
	}
	for k := range b {
		adm[k] = true
		if !a[k] {
			ambiguous = true
		}
	}
	return adm, ambiguous, class
}

func c18SetString(m map[string]bool) string {
	var ks []string
	for k := range m {
		if k == "" {
			k = "<none>"
		}
		ks = append(ks, k)
	}
	sort.Strings(ks)
	return strings.Join(ks, "|")
}

// ---- independent Set-Cookie parser (raw line -> attributes)

type c18SetCookie struct {
	Name, Value string
	Attr        map[string][]string // lower-case attribute name -> values in order
}

func c18ParseSetCookie(line string) (*c18SetCookie, bool) {
	parts := strings.Split(line, ";")
	nv := strings.TrimSpace(parts[0])
	eq := strings.Index(nv, "=")
	if eq <= 0 {
		return nil, false
	}
	sc := &c18SetCookie{Name: nv[:eq], Value: nv[eq+1:], Attr: map[string][]string{}}
	for _, p := range parts[1:] {
		p = strings.TrimSpace(p)
		if p == "" {
			continue
		}
		k, v := p, ""
		if i := strings.Index(p, "="); i >= 0 {
			k, v = p[:i], p[i+1:]
		}
		k = strings.ToLower(strings.TrimSpace(k))
		sc.Attr[k] = append(sc.Attr[k], strings.TrimSpace(v))
	}
	return sc, true
}

func (sc *c18SetCookie) has(a string) bool { return len(sc.Attr[a]) > 0 }

func (sc *c18SetCookie) last(a string) string {
	v := sc.Attr[a]
	if len(v) == 0 {
		return ""
	}
	return v[len(v)-1]
}

func (sc *c18SetCookie) isDeletion() bool {
	if sc.has("max-age") {
		if n, err := strconv.Atoi(sc.last("max-age")); err == nil {
			return n <= 0
		}
	}
	if sc.has("expires") {
		if t, err := http.ParseTime(sc.last("expires")); err == nil {
			return !t.After(world.Now())
		}
	}
	return false
}

// kind classifies a cookie name relative to the configured name.
func c18Kind(k c18Cfg, name string) string {
	n := k.name()
	switch {
	case name == n && k.Redis:
		return "ticket"
	case name == n:
		return "session"
	case strings.HasPrefix(name, n+"_") && strings.HasSuffix(name, "_csrf") || name == n+"_csrf":
		return "csrf"
	}
	if i := strings.LastIndex(name, "_"); i > 0 {
		if _, err := strconv.Atoi(name[i+1:]); err == nil {
			p := name[:i]
			if p == n || (len(name) == 256 && strings.HasPrefix(n, p)) {
				return "part"
			}
		}
	}
	return "other"
}

// ---- one finding of the monitor

type c18Case struct {
	Cfg      c18Cfg  `json:"config"`
	Host     c18Host `json:"request_host"`
	User     string  `json:"user"`
	Step     string  `json:"step"`
	Line     string  `json:"set_cookie"`
	Expected string  `json:"expected"`
	Observed string  `json:"observed"`
	// request-cookie shapes (c18_reqshape_test.go): the shape and the Cookie header field(s) sent
	Shape        string   `json:"shape,omitempty"`
	CookieHeader []string `json:"cookie_header,omitempty"`
}

type c18Finding struct {
	Key  string
	Msg  string
	Case c18Case
	Step int
}

// ---- the world of one configuration

type c18Env struct {
	cfg   c18Cfg
	idp   *world.IdP
	px    *Proxy // the proxy under test
	px2   *Proxy // same secret and cookie options, e-mail rule that excludes every user
	redis *world.Redis
}

const c18HtUser, c18HtPass = "dave", "pw-dave"

func c18BigGroups() []string {
	var g []string
	for i := 0; i < 64; i++ {
		s := sha256.Sum256([]byte(fmt.Sprintf("group-%d", i)))
		g = append(g, hex.EncodeToString(s[:]))
	}
	return g
}

func c18Build(k c18Cfg, htpasswd string, redis *world.Redis) (*c18Env, error) {
	e := &c18Env{cfg: k}
	e.idp = world.NewIdP()
	e.idp.Users["carol"] = &world.User{Sub: "carol-sub", Email: "carol@example.com", EmailVerified: true, Groups: c18BigGroups(), PreferredUsername: "carol"}
	if k.Redis {
		e.redis = redis
	}
	var err error
	if e.px, err = buildProxy(&ProxyCfg{Flags: k.flags("*", htpasswd), Redis: e.redis}); err != nil {
		return nil, err
	}
	if e.px2, err = buildProxy(&ProxyCfg{Flags: k.flags("nobody.invalid", htpasswd), Redis: e.redis}); err != nil {
		return nil, err
	}
	return e, nil
}

// agent: a browser whose visible host may differ from the Host header the proxy receives
type c18Agent struct {
	jar    *world.Jar
	scheme string
	vis    string
	wire   c18Host
}

func (a *c18Agent) send(px *Proxy, method, target string, form url.Values) (*world.Resp, []*world.Cookie) {
	r := &world.Req{Method: method, Target: target, Host: a.wire.Host, HTTPS: a.scheme == "https"}
	if a.wire.XFH != "" {
		r.Headers = append(r.Headers, [2]string{"X-Forwarded-Host", a.wire.XFH})
	}
	sent := a.jar.For(a.scheme, a.vis, pathOf(target))
	if len(sent) > 0 {
		r.Headers = append(r.Headers, [2]string{"Cookie", world.CookieHeader(sent)})
	}
	if form != nil {
		r.Headers = append(r.Headers, [2]string{"Content-Type", "application/x-www-form-urlencoded"})
		r.Body = form.Encode()
	}
	return world.Serve(px.H, r), sent
}

// c18Stats receives the measured counters of a scenario (nil-safe: re-executions do not count).
type c18Stats struct{ c *Ctx }

func (s *c18Stats) inc(name string) {
	if s != nil && s.c != nil {
		s.c.Inc(name)
	}
}

func (s *c18Stats) max(name string, v int) {
	if s != nil && s.c != nil {
		s.c.SetMax(name, int64(v))
	}
}

// c18Monitor checks every Set-Cookie line of one response.
func c18Monitor(st *c18Stats, k c18Cfg, h c18Host, user, step string, stepNo int, resp *world.Resp, sent []*world.Cookie, out *[]c18Finding) int {
	lines := resp.SetCookieLines()
	add := func(key, line, exp, obs, msg string) {
		*out = append(*out, c18Finding{Key: key, Msg: msg, Step: stepNo,
			Case: c18Case{Cfg: k, Host: h, User: user, Step: step, Line: c18Short(line), Expected: exp, Observed: obs}})
	}
	if resp.Panic != nil {
		add("C18/panic", "", "no panic", fmt.Sprint(resp.Panic), fmt.Sprintf("step %s panicked: %v", step, resp.Panic))
		return 0
	}
	goParsed := resp.Cookies()
	if len(goParsed) != len(lines) {
		add("C18/unparsable-set-cookie", strings.Join(lines, " || "), fmt.Sprintf("%d parsable lines", len(lines)), fmt.Sprintf("%d", len(goParsed)),
			fmt.Sprintf("step %s: net/http parses %d of %d Set-Cookie lines", step, len(goParsed), len(lines)))
	}
	vis := h.visible(k.RevProxy)
	bare := c18StripPort(vis)
	hasPort := bare != vis
	adm, amb, dclass := c18ExpectedDomain(k.Domains, bare)
	for i, line := range lines {
		st.inc("set_cookie_lines")
		sc, ok := c18ParseSetCookie(line)
		if !ok {
			add("C18/unparsable-set-cookie", line, "name=value; attributes", "no name", "step "+step+": malformed Set-Cookie line")
			continue
		}
		kind := c18Kind(k, sc.Name)
		op := "set"
		if sc.isDeletion() {
			op = "delete"
		}
		st.inc("class_" + kind + "_" + op)
		st.inc("domain_" + dclass)
		where := fmt.Sprintf("step %s, %s cookie (%s) %q", step, kind, op, c18Short(sc.Name))

		// cross-check with net/http's own parser (what Go-based clients see)
		if len(goParsed) == len(lines) {
			g := goParsed[i]
			if g.Name != sc.Name || g.Secure != sc.has("secure") || g.HttpOnly != sc.has("httponly") || g.Path != sc.last("path") || g.Domain != sc.last("domain") {
				add("C18/parser-disagreement", line, "same reading by both parsers", fmt.Sprintf("net/http: %+v", *g), where+": the raw line and net/http's parse disagree")
			}
		}

		// Secure / HttpOnly
		if sc.has("secure") != k.Secure {
			add("C18/secure-attribute", line, fmt.Sprintf("Secure=%v", k.Secure), fmt.Sprintf("Secure=%v", sc.has("secure")), where+": Secure attribute differs from --cookie-secure")
		}
		if sc.has("httponly") != k.HTTPOnly {
			add("C18/httponly-attribute", line, fmt.Sprintf("HttpOnly=%v", k.HTTPOnly), fmt.Sprintf("HttpOnly=%v", sc.has("httponly")), where+": HttpOnly attribute differs from --cookie-httponly")
		}
		// SameSite: configured "" = attribute absent (a bare attribute without value is tolerated)
		for _, v := range sc.Attr["samesite"] {
			if !strings.EqualFold(v, k.SameSite) {
				add("C18/samesite-attribute", line, "SameSite="+k.SameSite, "SameSite="+v, where+": SameSite differs from --cookie-samesite")
			}
		}
		if k.SameSite != "" && !sc.has("samesite") {
			add("C18/samesite-attribute", line, "SameSite="+k.SameSite, "no SameSite attribute", where+": SameSite attribute missing")
		}
		// Path
		if !sc.has("path") {
			add("C18/path-attribute", line, "Path="+k.Path, "no Path attribute", where+": Path attribute missing")
		}
		for _, v := range sc.Attr["path"] {
			if v != k.Path {
				add("C18/path-attribute", line, "Path="+k.Path, "Path="+v, where+": Path differs from --cookie-path")
			}
		}
		// Domain
		if len(sc.Attr["domain"]) > 1 {
			add("C18/cookie-domain", line, "one Domain attribute", strings.Join(sc.Attr["domain"], ","), where+": several Domain attributes")
		}
		obs := c18NormDomain(sc.last("domain"))
		if amb {
			st.inc("ambiguous")
		}
		if !adm[obs] {
			key := "C18/cookie-domain"
			if hasPort {
				// the same rule applied to the host text including ":port"
				withPort, _, _ := c18ExpectedDomain(k.Domains, vis)
				if withPort[obs] {
					key = "C18/cookie-domain-host-with-port"
				}
			}
			o := obs
			if o == "" {
				o = "<none>"
			}
			add(key, line, "Domain="+c18SetString(adm), "Domain="+o,
				fmt.Sprintf("%s: request host %q, --cookie-domain %v: expected Domain %s (%s), observed %s", where, vis, k.Domains, c18SetString(adm), dclass, o))
		}
		// size
		st.max("largest_set_cookie_bytes", len(line))
		if len(line) > 4096 {
			add("C18/cookie-size", line, "at most 4096 bytes", fmt.Sprintf("%d bytes", len(line)), fmt.Sprintf("%s serialises to %d bytes", where, len(line)))
		}
		// deletions address the cookie the browser holds
		if op == "delete" {
			targets := 0
			sameKind := 0
			for _, held := range sent {
				if c18Kind(k, held.Name) == kind {
					sameKind++
				}
				if held.Name != sc.Name {
					continue
				}
				targets++
				dHostOnly := !sc.has("domain")
				dDomain := obs
				if dHostOnly {
					dDomain = strings.ToLower(bare)
				}
				if dHostOnly != held.HostOnly || dDomain != held.Domain || sc.last("path") != held.Path {
					add("C18/deletion-key", line,
						fmt.Sprintf("name=%s domain=%s hostonly=%v path=%s", c18Short(held.Name), held.Domain, held.HostOnly, held.Path),
						fmt.Sprintf("domain=%s hostonly=%v path=%s", dDomain, dHostOnly, sc.last("path")),
						where+": the deletion does not use the domain/path of the cookie the browser holds")
				}
			}
			if targets > 0 {
				st.inc("deletions_with_target")
				st.inc("deletion_target_" + kind)
			} else {
				st.inc("deletions_without_target")
				if kind == "csrf" && sameKind > 0 {
					add("C18/deletion-name", line, "the name of a CSRF cookie the browser sent", sc.Name, where+": CSRF deletion names no cookie of the request although CSRF cookies were sent")
				}
			}
		}
	}
	return len(lines)
}

func c18Short(s string) string {
	if len(s) > 300 {
		return s[:140] + fmt.Sprintf("...[%d bytes]...", len(s)) + s[len(s)-120:]
	}
	return s
}

// c18Scenario drives every cookie-emitting flow for one (configuration, host) and returns the
// findings of the monitor. st == nil: a re-execution (nothing is counted).
func c18Scenario(st *c18Stats, e *c18Env, hi int, h c18Host, ci int, quick bool) []c18Finding {
	world.ResetClock()
	k := e.cfg
	var out []c18Finding
	scheme := "http"
	if k.Secure {
		scheme = "https"
	}
	a := &c18Agent{jar: world.NewJar(), scheme: scheme, vis: h.visible(k.RevProxy), wire: h}
	stepNo := 0
	step := func(px *Proxy, user, name, method, target string, form url.Values) *world.Resp {
		stepNo++
		resp, sent := a.send(px, method, target, form)
		n := c18Monitor(st, k, h, user, name, stepNo, resp, sent, &out)
		if st != nil && st.c != nil {
			st.c.Inc("evaluations")
			st.c.Inc("flow_" + name)
			if n > 0 {
				st.c.Inc("flow_emitting_" + name)
				st.c.Distinct("distinct_nontrivial", fmt.Sprintf("%d|%d|%s|%s", ci, hi, user, name))
				st.c.Sample(4, c18Case{Cfg: k, Host: h, User: user, Step: name, Line: c18Short(resp.SetCookieLines()[0])})
			}
		}
		before := len(a.jar.Ignored)
		a.jar.SetCookies(a.scheme, a.vis, pathOf(target), resp.Header)
		if d := len(a.jar.Ignored) - before; d > 0 && st != nil {
			st.c.Add("jar_refused_cookies", int64(d))
		}
		return resp
	}
	page := k.page()
	pre := k.prefix()

	// clearing flows run on copies of the jar of a live session
	clearing := func(user string, live *world.Jar) {
		// clear on authorisation failure: the second proxy accepts the cookie but not the e-mail
		a.jar = live.Clone()
		step(e.px2, user, "clear-on-authorisation-failure", "GET", page, nil)
		// clear on invalid session: tampered value
		a.jar = live.Clone()
		for i, ck := range a.jar.Cookies {
			if kd := c18Kind(k, ck.Name); kd == "session" || kd == "ticket" || (kd == "part" && strings.HasSuffix(ck.Name, "_0")) {
				if v, ok := substituteAt(ck.Value, len(ck.Value)/2, "b64"); ok {
					cp := *ck
					cp.Value = v
					a.jar.Cookies[i] = &cp
				}
			}
		}
		step(e.px, user, "clear-on-invalid-session", "GET", page, nil)
		// sign-in page requested with a session
		a.jar = live.Clone()
		step(e.px, user, "sign-in-page-with-session", "GET", pre+"/sign_in", nil)
		// sign-out
		a.jar = live.Clone()
		step(e.px, user, "sign-out", "GET", pre+"/sign_out", nil)
		step(e.px, user, "after-sign-out", "GET", page, nil)
	}

	step(e.px, "", "sign-in-page", "GET", page, nil)
	for _, user := range []string{"alice", "carol"} {
		if quick && k.Redis && user == "carol" {
			// with the Redis store the cookie is the ticket whatever the session size; the
			// oversized session is run against Redis in the thorough tier only
			continue
		}
		world.ResetClock()
		a.jar = world.NewJar()
		start := step(e.px, user, "login-start", "GET", pre+"/start?rd="+url.QueryEscape(page), nil)
		if start.Status != 302 {
			st.inc("start_not_redirecting")
			continue
		}
		cbURL, _, err := e.idp.Authorize(start.Location(), user)
		if err != nil {
			st.inc("provider_rejected_login_url")
			continue
		}
		u, err := url.Parse(cbURL)
		if err != nil {
			st.inc("provider_rejected_login_url")
			continue
		}
		cb := step(e.px, user, "callback", "GET", u.RequestURI(), nil)
		if cb.Status != 302 {
			// e.g. the browser refused the CSRF cookie because its Domain does not cover the host
			st.inc("login_incomplete")
			continue
		}
		r := step(e.px, user, "authenticated-request", "GET", page, nil)
		if r.Status != 200 {
			st.inc("session_not_usable")
			continue
		}
		st.inc("login_complete")
		world.Advance(11 * time.Minute)
		r = step(e.px, user, "request-with-refresh", "GET", page, nil)
		if r.Status != 200 {
			st.inc("refresh_failed")
			continue
		}
		// a refresh that changes the cookie layout: the provider now reports other groups, so alice's
		// session outgrows one cookie and carol's fits into one; the response expires the cookies of the
		// previous layout (deletions are Set-Cookie headers like any other)
		if !k.Redis {
			u := e.idp.Users[user]
			saved := u.Groups
			if user == "carol" {
				u.Groups = []string{"staff"}
			} else {
				u.Groups = c18BigGroups()
			}
			world.Advance(11 * time.Minute)
			before := len(a.jar.For(a.scheme, a.vis, page))
			r = step(e.px, user, "request-with-refresh-changing-layout", "GET", page, nil)
			u.Groups = saved
			if r.Status != 200 {
				st.inc("refresh_failed")
				continue
			}
			if after := len(a.jar.For(a.scheme, a.vis, page)); after != before {
				st.inc("layout_changed_by_refresh")
			}
		}
		clearing(user, a.jar.Clone())
	}
	// htpasswd form login saves a session without the provider
	world.ResetClock()
	a.jar = world.NewJar()
	r := step(e.px, c18HtUser, "form-login", "POST", pre+"/sign_in", url.Values{"username": {c18HtUser}, "password": {c18HtPass}, "rd": {page}})
	if r.Status == 302 {
		step(e.px, c18HtUser, "form-sign-out", "GET", pre+"/sign_out", nil)
	}
	world.ResetClock()
	return out
}

func c18Size(f c18Finding) int {
	return 1000*len(f.Case.Cfg.Domains) + 100*f.Case.Cfg.nonDefault() + 10*f.Step + len(f.Case.Host.Host) + len(f.Case.Host.XFH)
}

var c18MustSee = []string{
	"class_session_set", "class_session_delete", "class_part_set", "class_part_delete",
	"class_ticket_set", "class_ticket_delete", "class_csrf_set", "class_csrf_delete",
	"deletion_target_session", "deletion_target_part", "deletion_target_ticket", "deletion_target_csrf",
	"domain_none-configured", "domain_longest-match", "domain_shortest-fallback", "ambiguous",
	"flow_emitting_sign-in-page", "flow_emitting_login-start", "flow_emitting_callback", "flow_emitting_request-with-refresh", "flow_emitting_request-with-refresh-changing-layout", "layout_changed_by_refresh",
	"flow_emitting_clear-on-authorisation-failure", "flow_emitting_clear-on-invalid-session", "flow_emitting_sign-in-page-with-session",
	"flow_emitting_sign-out", "flow_emitting_form-login", "flow_emitting_form-sign-out", "login_complete", "login_incomplete",
}

func c18SelfTest(c *Ctx) {
	type tc struct {
		domains []string
		host    string
		want    string
		amb     bool
	}
	for _, t := range []tc{
		{nil, "app.example.com", "<none>", false},
		{[]string{"example.com", "app.example.com"}, "x.app.example.com", "app.example.com", false},
		{[]string{"example.com", "app.example.com"}, "www.example.com", "example.com", false},
		{[]string{"app.example.com", "example.com"}, "unrelated.test", "example.com", false},
		{[]string{"other.org", ".app.example.com"}, "x.app.example.com", "app.example.com", false},
		{[]string{"other.org", ".app.example.com"}, "app.example.com", "app.example.com|other.org", true},
		{[]string{"example.com", "app.example.com"}, "notapp.example.com", "app.example.com|example.com", true},
	} {
		adm, amb, _ := c18ExpectedDomain(t.domains, t.host)
		if got := c18SetString(adm); got != t.want || amb != t.amb {
			c.Error("reference self-test: domains %v host %s: got %s ambiguous=%v, want %s ambiguous=%v", t.domains, t.host, got, amb, t.want, t.amb)
		}
	}
	sc, ok := c18ParseSetCookie("n=v; Path=/app; Domain=example.com; Max-Age=0; HttpOnly; Secure; SameSite=Lax")
	if !ok || sc.Name != "n" || !sc.has("secure") || !sc.has("httponly") || sc.last("path") != "/app" || sc.last("domain") != "example.com" || !sc.isDeletion() || sc.last("samesite") != "Lax" {
		c.Error("Set-Cookie parser self-test failed: %+v", sc)
	}
}

func c18Run(c *Ctx) {
	c18SelfTest(c)
	concRunFor(c, "C18")
	{
		world.NewIdP()
		up := world.NewUpstream("sweep")
		c18SizeSweep(c, up)
		up.Close()
	}
	cfgs := c18Configs(c.Quick())
	hostCount := map[bool]int{false: len(c18Hosts(false, c.Quick())), true: len(c18Hosts(true, c.Quick()))}
	c.Info["alphabet"] = map[string]any{
		"secure": 2, "httponly": 2, "samesite": len(c18SameSites), "path": len(c18Paths), "domain_sets": len(c18DomainSets),
		"configurations": len(cfgs), "hosts_direct_mode": hostCount[false], "hosts_reverse_proxy_mode": hostCount[true],
		"host_names": (hostCount[false] - 2) / 2, "stores": 2, "users": []string{"alice (one cookie)", "carol (64 groups: split session cookie)", "dave (htpasswd form login)"},
	}
	c.Info["bound"] = "full product of the listed option values x hosts; per (configuration, host) one scenario running every cookie-emitting flow for a small, an oversized and a form-login session"
	htpasswd := writeHtpasswd(map[string]string{c18HtUser: c18HtPass})
	redis := world.NewRedis()
	defer redis.Close()
	st := &c18Stats{c: c}
	confirmed := map[string]int{} // finding key -> size of the smallest confirmed counterexample
	for ci, k := range cfgs {
		if !c.Mine(ci) {
			continue
		}
		if c.Expired() {
			return
		}
		e, err := c18Build(k, htpasswd, redis)
		if err != nil {
			c.Error("configuration %+v rejected: %v", k, err)
			continue
		}
		c.Inc("configurations_built")
		for hi, h := range c18Hosts(k.RevProxy, c.Quick()) {
			c.Inc("scenarios")
			findings := c18Scenario(st, e, hi, h, ci, c.Quick())
			for _, f := range findings {
				f := f
				size := c18Size(f)
				if best, ok := confirmed[f.Key]; ok && size >= best {
					c.Violate(f.Key, f.Msg, size, f.Case)
					continue
				}
				again := func() (string, bool) {
					for _, g := range c18Scenario(nil, e, hi, h, ci, c.Quick()) {
						if g.Key == f.Key && g.Step == f.Step && g.Case.Observed == f.Case.Observed {
							return g.Key, true
						}
					}
					return f.Key, false
				}
				c.confirm(f.Key, f.Msg, size, f.Case, again)
				confirmed[f.Key] = size
			}
		}
	}
	// hand-made Cookie headers: the request's cookie header shape must not influence any Set-Cookie
	c18ReqShape(c, htpasswd, redis)
	for _, name := range c18MustSee {
		if c.Counters[name] == 0 {
			c.Error("vacuous: outcome class %q never appeared in shard %d/%d", name, c.Shard, c.Shards)
		}
	}
}

func init() {
	register(&checkDef{
		id:    "C18",
		level: "exploration",
		rule:  "full product secure x httponly x samesite x path x domain sets x name length x store x csrf-per-request x reverse-proxy, times request hosts (exact, sub-domain, deeper, parent, unrelated, other domain, label-boundary; each with and without port; direct and via X-Forwarded-Host), times every cookie-emitting flow (sign-in page, login start, callback, refresh re-issue, oversized split session, sign-out, clear on invalid session, clear on authorisation failure, form login) driven by an RFC 6265 jar; every Set-Cookie line of every response is checked against a reference (attributes as configured, Domain = longest matching / shortest / none, <= 4096 bytes, deletions address the held cookie); evaluations = responses monitored; non-trivial = distinct (configuration, host, user, step) whose response carried a Set-Cookie. Request-cookie shapes (c18_reqshape_test.go): per (domain set x store x {csrf-per-request, reverse-proxy} with attributes running diagonally, host) the genuine cookies of a live session (one-cookie and split layout, fresh and refresh-due) are re-arranged by every shape of the grammar {as-is, twice, three times, copy at end, copy in a second Cookie field, garbage/tampered/empty value before or after, cookie of an earlier login before or after, names next to the family, other layout} x {session or ticket or all parts, CSRF, every cookie, first part, last part} and sent through every setting and clearing flow (page, sign-out, sign-in page, authorisation failure, login start, form login, auth endpoint, refused refresh, callback); every Set-Cookie line is checked by the same reference and, differentially, must carry an attribute signature the same proxy produced on the same host for the as-is header",
		assumptions: []string{
			"request host = Host header, or X-Forwarded-Host only in reverse-proxy mode, without its port (DESIGN Appendix B)",
			"'matching' read both as string suffix of the configured text and as RFC 6265 domain-match without the leading dot; the union is accepted, differing cases counted as ambiguous",
			"Domain compared after removing one leading dot and lower-casing; configured SameSite \"\" means no SameSite attribute (a bare one is tolerated)",
			"cookie-expire 2h, cookie-refresh 10m, csrf-expire 15m fixed; Max-Age values are C09's subject, not checked here",
			"request-cookie shapes: cookies are carried by hand (name=value as the proxy set them on this host), so requests a browser's jar would not produce are included: the clauses checked (attributes, Domain by request host, size, deletion keyed like the cookie set on this host) do not depend on how the request came about; the number of Set-Cookie lines and repeated identical deletions are counted, not judged",
		},
		shards: func(tier string) int { return 16 },
		run:    c18Run,
		post:   c18rsPost,
		replay: func(c *Ctx, raw json.RawMessage) string {
			if out, ok := concReplayFor(c, "C18", raw); ok {
				return out
			}
			var cs c18Case
			if err := json.Unmarshal(raw, &cs); err != nil || cs.Cfg.Path == "" {
				return "not a C18 case"
			}
			htpasswd := writeHtpasswd(map[string]string{c18HtUser: c18HtPass})
			redis := world.NewRedis()
			defer redis.Close()
			e, err := c18Build(cs.Cfg, htpasswd, redis)
			if err != nil {
				return "configuration rejected: " + err.Error()
			}
			var obs []string
			findings := c18Scenario(nil, e, 0, cs.Host, 0, false)
			if cs.Shape != "" {
				findings = c18rsScenario(nil, e, 0, cs.Host, 0, false)
			}
			for _, f := range findings {
				c.Violate(f.Key, f.Msg, c18Size(f), f.Case)
				if len(obs) < 6 {
					obs = append(obs, fmt.Sprintf("[%s] %s", f.Key, f.Msg))
				}
			}
			if len(obs) == 0 {
				return "every Set-Cookie line of the scenario matches the reference"
			}
			return strings.Join(obs, "\n  ")
		},
	})
}
