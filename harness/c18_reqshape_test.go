//go:build verif

package main

import (
	"fmt"
	"net/url"
	"sort"
	"strings"
	"time"

	"github.com/oauth2-proxy/oauth2-proxy/v7/verifx/world"
)

// C18, request-cookie shapes: "Every Set-Cookie header on any response ... carries the configured
// ... attributes, a Domain equal to the longest configured cookie domain matching the request host".
// Nothing in that sentence depends on the Cookie header of the request, so the request's cookie
// header must not influence the attributes of any Set-Cookie line. The main product drives every
// flow with the header an RFC 6265 jar produces (every name once). Here the header is hand-made:
// for every (configuration, request host, session layout, session age) the genuine cookies of a
// live session are re-arranged by every shape of a small grammar
//
//	operation {as-is, twice, three times, copy at the end, copy in a second Cookie field,
//	           garbage before/after, tampered copy before/after, empty value before,
//	           cookie of an earlier login before/after, names next to the family, cookies of the other layout}
//	x target  {session cookie or ticket or all parts, CSRF cookie(s), every cookie, first part, last part}
//
// and sent through every flow that sets or clears a cookie. Two oracles on every Set-Cookie line
// (all lines are counted):
//
//	reference     the monitor of the main product (attributes as configured, Domain by the
//	              longest-match rule for the request host, size, deletions keyed like the cookie
//	              the proxy set on this host);
//	differential  the attribute signature (Secure, HttpOnly, SameSite, Path, Domain) of the line is
//	              one of the signatures the same proxy produced on the same host for the as-is
//	              header -- written without any model of the domain rule.
//
// Cookies are carried by hand (name -> value as the proxy set them, whatever a browser's jar would
// have said about the Domain), so hosts that match none of the configured domains are driven
// through all flows as well.

// ---- carrier: the cookies the proxy set on this host, in order of first appearance

type c18rsPair struct {
	Name, Value string
	Held        *world.Cookie // scope the proxy gave the cookie on this host (nil: not set by the proxy)
}

type c18rsCarrier struct{ list []c18rsPair }

func (cr *c18rsCarrier) apply(resp *world.Resp, bare string) {
	for _, line := range resp.SetCookieLines() {
		sc, ok := c18ParseSetCookie(line)
		if !ok {
			continue
		}
		idx := -1
		for i, p := range cr.list {
			if p.Name == sc.Name {
				idx = i
			}
		}
		if sc.isDeletion() {
			if idx >= 0 {
				cr.list = append(cr.list[:idx:idx], cr.list[idx+1:]...)
			}
			continue
		}
		held := &world.Cookie{Name: sc.Name, Value: sc.Value, Path: sc.last("path")}
		if sc.has("domain") {
			held.Domain = c18NormDomain(sc.last("domain"))
		} else {
			held.Domain, held.HostOnly = strings.ToLower(bare), true
		}
		p := c18rsPair{Name: sc.Name, Value: sc.Value, Held: held}
		if idx >= 0 {
			cr.list[idx] = p
		} else {
			cr.list = append(cr.list, p)
		}
	}
}

func (cr *c18rsCarrier) clone() []c18rsPair { return append([]c18rsPair(nil), cr.list...) }

// ---- shape grammar

type c18rsShape struct{ Op, Target string }

func (s c18rsShape) String() string {
	if s.Target == "" {
		return s.Op
	}
	return s.Op + "(" + s.Target + ")"
}

var c18rsOps = []string{"twice", "three-times", "copy-at-end", "copy-in-second-field", "garbage-before", "garbage-after",
	"tampered-before", "tampered-after", "empty-before", "earlier-login-before", "earlier-login-after"}
var c18rsTargets = []string{"main", "csrf", "all"}

// c18rsShapes: as-is first (it feeds the differential baseline).
func c18rsShapes(quick bool) []c18rsShape {
	out := []c18rsShape{{Op: "as-is"}}
	// quick: the full operation alphabet on the session/ticket cookie and on the CSRF cookie; on
	// "every cookie" and on single parts one operation of each group (repetition, foreign value,
	// earlier login); thorough: the full product
	partOps := []string{"twice", "garbage-before", "earlier-login-before"}
	allOps := []string{"twice", "copy-in-second-field", "tampered-before", "earlier-login-after"}
	if !quick {
		partOps, allOps = c18rsOps, c18rsOps
	}
	for _, t := range c18rsTargets {
		ops := c18rsOps
		if t == "all" {
			ops = allOps
		}
		for _, op := range ops {
			out = append(out, c18rsShape{op, t})
		}
	}
	// single parts of a split session
	for _, t := range []string{"first-part", "last-part"} {
		for _, op := range partOps {
			out = append(out, c18rsShape{op, t})
		}
	}
	out = append(out, c18rsShape{Op: "names-next-to-the-family"}, c18rsShape{Op: "other-layout"})
	return out
}

const c18rsGarbage = "Z2FyYmFnZS1nYXJiYWdlLWdhcmJhZ2U=|1700000000|c2lnbmF0dXJlLXNpZ25hdHVyZQ=="

func c18rsTargetClass(k c18Cfg, name string) string {
	switch c18Kind(k, name) {
	case "session", "ticket", "part":
		return "main"
	case "csrf":
		return "csrf"
	}
	return "other"
}

// c18rsBuild renders the Cookie header field(s) of one shape. ok=false: the shape does not apply
// (no cookie of the target class in the base, or nothing to take from the earlier login).
func c18rsBuild(s c18rsShape, k c18Cfg, base, earlier []c18rsPair) (fields []string, ok bool) {
	render := func(ps []c18rsPair) string {
		parts := make([]string, 0, len(ps))
		for _, p := range ps {
			parts = append(parts, p.Name+"="+p.Value)
		}
		return strings.Join(parts, "; ")
	}
	name := k.name()
	switch s.Op {
	case "as-is":
		return []string{render(base)}, len(base) > 0
	case "names-next-to-the-family":
		extra := []c18rsPair{{Name: name + "x", Value: c18rsGarbage}, {Name: name + "_x", Value: c18rsGarbage}, {Name: name + "_-1", Value: c18rsGarbage},
			{Name: name + "_007", Value: c18rsGarbage}, {Name: name + "_99", Value: c18rsGarbage}, {Name: "x" + name, Value: c18rsGarbage}, {Name: name + "_csrfx", Value: c18rsGarbage}}
		return []string{render(append(append([]c18rsPair(nil), base...), extra...))}, len(base) > 0
	case "other-layout":
		// the cookies an earlier save with another layout (or another store type) left behind
		split := false
		for _, p := range base {
			if c18Kind(k, p.Name) == "part" {
				split = true
			}
		}
		var extra []c18rsPair
		if split {
			extra = []c18rsPair{{Name: name, Value: c18rsGarbage}}
		} else {
			extra = []c18rsPair{{Name: name + "_0", Value: c18rsGarbage}, {Name: name + "_1", Value: c18rsGarbage}}
		}
		return []string{render(append(extra, base...))}, len(base) > 0
	}
	// operations on a target class
	var parts []int // indices of split parts in base
	for i, p := range base {
		if c18Kind(k, p.Name) == "part" {
			parts = append(parts, i)
		}
	}
	sel := func(i int) bool {
		cl := c18rsTargetClass(k, base[i].Name)
		switch s.Target {
		case "all":
			return true
		case "first-part":
			return len(parts) > 1 && i == parts[0]
		case "last-part":
			return len(parts) > 1 && i == parts[len(parts)-1]
		}
		return cl == s.Target
	}
	var early []c18rsPair // what the earlier login left for the target class
	for _, p := range earlier {
		cl := c18rsTargetClass(k, p.Name)
		if s.Target == "all" || cl == s.Target || (cl == "main" && (s.Target == "first-part" || s.Target == "last-part")) {
			early = append(early, p)
		}
	}
	hit := 0
	var main, tail, second []c18rsPair
	first, last := -1, -1
	for i := range base {
		if sel(i) {
			if first < 0 {
				first = i
			}
			last = i
		}
	}
	if first < 0 {
		return nil, false
	}
	for i, p := range base {
		if !sel(i) {
			main = append(main, p)
			continue
		}
		hit++
		tam := p
		if v, ok := substituteAt(p.Value, len(p.Value)/2, "b64"); ok {
			tam.Value = v
		} else {
			tam.Value = p.Value + "A"
		}
		switch s.Op {
		case "twice":
			main = append(main, p, p)
		case "three-times":
			main = append(main, p, p, p)
		case "copy-at-end":
			main = append(main, p)
			tail = append(tail, p)
		case "copy-in-second-field":
			main = append(main, p)
			second = append(second, p)
		case "garbage-before":
			main = append(main, c18rsPair{Name: p.Name, Value: c18rsGarbage}, p)
		case "garbage-after":
			main = append(main, p, c18rsPair{Name: p.Name, Value: c18rsGarbage})
		case "tampered-before":
			main = append(main, tam, p)
		case "tampered-after":
			main = append(main, p, tam)
		case "empty-before":
			main = append(main, c18rsPair{Name: p.Name}, p)
		case "earlier-login-before":
			if i == first {
				main = append(main, early...)
			}
			main = append(main, p)
		case "earlier-login-after":
			main = append(main, p)
			if i == last {
				main = append(main, early...)
			}
		default:
			panic("c18rs: unknown operation " + s.Op)
		}
	}
	if strings.HasPrefix(s.Op, "earlier-login") && len(early) == 0 {
		return nil, false
	}
	main = append(main, tail...)
	fields = []string{render(main)}
	if len(second) > 0 {
		fields = append(fields, render(second))
	}
	return fields, hit > 0
}

// ---- the state a shaped request starts from (virtual time + store contents)

type c18rsStored struct {
	val string
	ttl time.Duration
}

type c18rsState struct {
	off  time.Duration
	keys map[string]c18rsStored
}

func c18rsSnapshot(r *world.Redis) c18rsState {
	s := c18rsState{off: world.Offset()}
	if r != nil {
		s.keys = map[string]c18rsStored{}
		for _, key := range r.M.Keys() {
			if v, err := r.M.Get(key); err == nil {
				s.keys[key] = c18rsStored{v, r.M.TTL(key)}
			}
		}
	}
	return s
}

func c18rsRestore(r *world.Redis, s c18rsState) {
	if d := s.off - world.Offset(); d != 0 {
		world.Advance(d)
	}
	if r != nil {
		r.M.FlushAll()
		for key, v := range s.keys {
			_ = r.M.Set(key, v.val)
			if v.ttl > 0 {
				r.M.SetTTL(key, v.ttl)
			}
		}
	}
}

// ---- scenario

func c18rsSend(px *Proxy, h c18Host, https bool, method, target string, cookieFields []string, form url.Values) *world.Resp {
	r := &world.Req{Method: method, Target: target, Host: h.Host, HTTPS: https}
	if h.XFH != "" {
		r.Headers = append(r.Headers, [2]string{"X-Forwarded-Host", h.XFH})
	}
	for _, f := range cookieFields {
		if f != "" {
			r.Headers = append(r.Headers, [2]string{"Cookie", f})
		}
	}
	if form != nil {
		r.Headers = append(r.Headers, [2]string{"Content-Type", "application/x-www-form-urlencoded"})
		r.Body = form.Encode()
	}
	return world.Serve(px.H, r)
}

func c18rsSignature(line string) string {
	sc, ok := c18ParseSetCookie(line)
	if !ok {
		return "unparsable"
	}
	low := func(vs []string) string {
		out := make([]string, len(vs))
		for i, v := range vs {
			out[i] = strings.ToLower(v)
		}
		return strings.Join(out, ",")
	}
	return fmt.Sprintf("Secure=%v HttpOnly=%v SameSite=[%s] Path=[%s] Domain=[%s]", sc.has("secure"), sc.has("httponly"),
		low(sc.Attr["samesite"]), strings.Join(sc.Attr["path"], ","), low(sc.Attr["domain"]))
}

// c18rsMatching counts the configured domains that match the host (RFC 6265 domain-match).
func c18rsMatching(domains []string, bare string) int {
	n := 0
	bare = strings.ToLower(bare)
	for _, d := range domains {
		nd := c18NormDomain(d)
		if bare == nd || strings.HasSuffix(bare, "."+nd) {
			n++
		}
	}
	return n
}

func c18rsMatchClass(n int) string {
	switch {
	case n == 0:
		return "none"
	case n == 1:
		return "one"
	}
	return "several"
}

type c18rsFlow struct {
	name, method string
	second       bool // served by the proxy whose e-mail rule refuses everybody
	failRefresh  bool // the provider refuses the refresh grant during this request
	target       func(k c18Cfg) string
	form         func(k c18Cfg) url.Values
}

var c18rsFlows = []c18rsFlow{
	{name: "page", method: "GET", target: func(k c18Cfg) string { return k.page() }},
	{name: "sign-out", method: "GET", target: func(k c18Cfg) string { return k.prefix() + "/sign_out" }},
	{name: "sign-in-page", method: "GET", target: func(k c18Cfg) string { return k.prefix() + "/sign_in" }},
	{name: "authorisation-failure", method: "GET", second: true, target: func(k c18Cfg) string { return k.page() }},
	{name: "login-start", method: "GET", target: func(k c18Cfg) string { return k.prefix() + "/start?rd=" + url.QueryEscape(k.page()) }},
	{name: "form-login", method: "POST", target: func(k c18Cfg) string { return k.prefix() + "/sign_in" },
		form: func(k c18Cfg) url.Values {
			return url.Values{"username": {c18HtUser}, "password": {c18HtPass}, "rd": {k.page()}}
		}},
	{name: "auth-endpoint", method: "GET", target: func(k c18Cfg) string { return k.prefix() + "/auth" }},
	{name: "page-refresh-refused", method: "GET", failRefresh: true, target: func(k c18Cfg) string { return k.page() }},
}

// c18rsScenario runs the whole shape x flow product for one (configuration, host).
// st == nil: re-execution, nothing is counted.
func c18rsScenario(st *c18Stats, e *c18Env, hi int, h c18Host, ci int, quick bool) []c18Finding {
	k := e.cfg
	var out []c18Finding
	world.ResetClock()
	e.idp.StaticRefreshToken = true
	defer func() {
		e.idp.StaticRefreshToken, e.idp.RefreshFails = false, false
		world.ResetClock()
	}()
	vis := h.visible(k.RevProxy)
	bare := c18StripPort(vis)
	matchClass := c18rsMatchClass(c18rsMatching(k.Domains, bare))
	store := "cookie"
	if k.Redis {
		store = "redis"
	}
	counting := st != nil && st.c != nil
	stepNo := 0
	baseline := map[string]bool{} // attribute signatures seen with as-is headers on this (configuration, host)

	// one request: monitor (reference) + differential; returns the response
	do := func(px *Proxy, user, stepName string, shape c18rsShape, method, target string, fields []string, sent []*world.Cookie, form url.Values) *world.Resp {
		stepNo++
		resp := c18rsSend(px, h, k.Secure, method, target, fields, form)
		from := len(out)
		c18Monitor(st, k, h, user, stepName, stepNo, resp, sent, &out)
		lines := resp.SetCookieLines()
		asIs := shape.Op == "as-is"
		for _, line := range lines {
			sig := c18rsSignature(line)
			if asIs {
				baseline[sig] = true
				continue
			}
			if len(baseline) > 0 && !baseline[sig] {
				var bs []string
				for b := range baseline {
					bs = append(bs, b)
				}
				sort.Strings(bs)
				sc, _ := c18ParseSetCookie(line)
				nm := ""
				if sc != nil {
					nm = c18Short(sc.Name)
				}
				out = append(out, c18Finding{Key: "C18/set-cookie-attributes-depend-on-request-cookies", Step: stepNo,
					Msg: fmt.Sprintf("step %s: request host %q, --cookie-domain %v: with the cookie header shape %s the response sets cookie %q with %s; with every name once the same proxy on the same host only ever produced %s",
						stepName, vis, k.Domains, shape, nm, sig, strings.Join(bs, " / ")),
					Case: c18Case{Cfg: k, Host: h, User: user, Step: stepName, Line: c18Short(line), Expected: strings.Join(bs, " / "), Observed: sig}})
			}
		}
		for i := from; i < len(out); i++ {
			out[i].Case.Shape = shape.String()
			out[i].Case.CookieHeader = c18rsShortFields(fields)
		}
		if counting {
			c := st.c
			c.Inc("evaluations")
			c.Inc("reqshape_requests")
			c.Add("reqshape_set_cookie_lines", int64(len(lines)))
			c.SetMax("reqshape_most_set_cookie_lines_in_one_response", int64(len(lines)))
			if len(lines) > 0 {
				c.Inc("reqshape_responses_with_set_cookie")
				c.Distinct("distinct_nontrivial", fmt.Sprintf("rs|%d|%d|%s", ci, hi, stepName))
			}
		}
		return resp
	}
	pairsHeld := func(ps []c18rsPair) []*world.Cookie {
		var cs []*world.Cookie
		for _, p := range ps {
			if p.Held != nil {
				cs = append(cs, p.Held)
			}
		}
		return cs
	}
	asIs := c18rsShape{Op: "as-is"}
	plain := func(cr *c18rsCarrier, px *Proxy, user, name, method, target string, form url.Values) *world.Resp {
		var fields []string
		if f, ok := c18rsBuild(asIs, k, cr.list, nil); ok {
			fields = f
		}
		resp := do(px, user, name, asIs, method, target, fields, pairsHeld(cr.list), form)
		cr.apply(resp, bare)
		return resp
	}
	// login by hand: start -> provider -> callback, cookies carried whatever their Domain
	login := func(cr *c18rsCarrier, user, tag string) bool {
		start := plain(cr, e.px, user, tag+"login-start", "GET", k.prefix()+"/start?rd="+url.QueryEscape(k.page()), nil)
		if start.Status != 302 {
			return false
		}
		cbURL, _, err := e.idp.Authorize(start.Location(), user)
		if err != nil {
			return false
		}
		u, err := url.Parse(cbURL)
		if err != nil {
			return false
		}
		if cb := plain(cr, e.px, user, tag+"callback", "GET", u.RequestURI(), nil); cb.Status != 302 {
			return false
		}
		return plain(cr, e.px, user, tag+"authenticated-request", "GET", k.page(), nil).Status == 200
	}

	// the earlier login whose cookies the browser still holds (e.g. stored for another domain
	// before cookie_domains was changed): a valid session of the same proxy plus a pending CSRF cookie
	earlierCr := &c18rsCarrier{}
	if !login(earlierCr, "bob", "earlier-") {
		st.inc("reqshape_earlier_login_failed")
	}
	plain(earlierCr, e.px, "bob", "earlier-second-start", "GET", k.prefix()+"/start?rd="+url.QueryEscape(k.page()), nil)
	earlier := earlierCr.clone()

	users := []string{"alice", "carol"}
	if k.Redis && quick {
		users = []string{"alice"} // with the ticket store the cookie is the ticket whatever the session size
	}
	shapes := c18rsShapes(quick)
	for _, user := range users {
		world.ResetClock()
		cr := &c18rsCarrier{}
		if !login(cr, user, "") {
			st.inc("reqshape_login_failed")
			continue
		}
		st.inc("reqshape_logins")
		// a login start while signed in leaves a pending CSRF cookie next to the session
		plain(cr, e.px, user, "start-while-signed-in", "GET", k.prefix()+"/start?rd="+url.QueryEscape(k.page()), nil)
		base := cr.clone()
		sent := pairsHeld(base)
		layout := "one-cookie"
		for _, p := range base {
			if c18Kind(k, p.Name) == "part" {
				layout = "split"
			}
		}
		fresh := c18rsSnapshot(e.redis)
		world.Advance(11 * time.Minute)
		due := c18rsSnapshot(e.redis)
		for _, age := range []struct {
			name string
			s    c18rsState
		}{{"fresh", fresh}, {"refresh-due", due}} {
			for _, shape := range shapes {
				fields, ok := c18rsBuild(shape, k, base, earlier)
				if !ok {
					st.inc("reqshape_shape_not_applicable")
					continue
				}
				if counting {
					st.c.Inc("reqshape_shaped_headers")
					st.c.Inc("reqshape_op_" + shape.Op)
					if shape.Target != "" {
						st.c.Inc("reqshape_target_" + shape.Target)
					}
				}
				for _, fl := range c18rsFlows {
					if fl.failRefresh && age.name != "refresh-due" {
						continue
					}
					c18rsRestore(e.redis, age.s)
					px := e.px
					if fl.second {
						px = e.px2
					}
					var form url.Values
					if fl.form != nil {
						form = fl.form(k)
					}
					e.idp.RefreshFails = fl.failRefresh
					stepName := fmt.Sprintf("%s/%s/%s/%s", user, age.name, shape, fl.name)
					resp := do(px, user, stepName, shape, fl.method, fl.target(k), fields, sent, form)
					e.idp.RefreshFails = false
					if counting {
						c18rsCount(st, k, shape, fl.name, store, layout, matchClass, resp)
					}
				}
			}
		}
		// the callback: CSRF deletion + session save with shaped headers; every run needs its own
		// authorisation code, so start and provider are repeated per shape
		var mainOnly []c18rsPair
		for _, p := range base {
			if c18rsTargetClass(k, p.Name) == "main" {
				mainOnly = append(mainOnly, p)
			}
		}
		for _, shape := range shapes {
			if shape.Target == "first-part" || shape.Target == "last-part" {
				continue
			}
			c18rsRestore(e.redis, fresh)
			cb := &c18rsCarrier{list: append([]c18rsPair(nil), mainOnly...)}
			start := plain(cb, e.px, user, "callback-shape-start", "GET", k.prefix()+"/start?rd="+url.QueryEscape(k.page()), nil)
			if start.Status != 302 {
				st.inc("reqshape_callback_start_failed")
				continue
			}
			cbURL, _, err := e.idp.Authorize(start.Location(), user)
			if err != nil {
				st.inc("reqshape_callback_start_failed")
				continue
			}
			u, err := url.Parse(cbURL)
			if err != nil {
				st.inc("reqshape_callback_start_failed")
				continue
			}
			fields, ok := c18rsBuild(shape, k, cb.list, earlier)
			if !ok {
				st.inc("reqshape_shape_not_applicable")
				continue
			}
			stepName := fmt.Sprintf("%s/fresh/%s/callback", user, shape)
			resp := do(e.px, user, stepName, shape, "GET", u.RequestURI(), fields, pairsHeld(cb.list), nil)
			if counting {
				c18rsCount(st, k, shape, "callback", store, layout, matchClass, resp)
				if resp.Status == 302 {
					st.c.Inc("reqshape_callback_completed")
				} else {
					st.c.Inc("reqshape_callback_refused")
				}
			}
		}
	}
	return out
}

func c18rsShortFields(fields []string) []string {
	out := make([]string, len(fields))
	for i, f := range fields {
		var ps []string
		for _, p := range strings.Split(f, "; ") {
			if len(p) > 60 {
				p = p[:40] + fmt.Sprintf("...[%d bytes]", len(p))
			}
			ps = append(ps, p)
		}
		out[i] = strings.Join(ps, "; ")
	}
	return out
}

// c18rsCount: the measured classes the vacuity guard asks for.
func c18rsCount(st *c18Stats, k c18Cfg, shape c18rsShape, flow, store, layout, matchClass string, resp *world.Resp) {
	c := st.c
	lines := resp.SetCookieLines()
	c.Inc("reqshape_flow_" + flow)
	if len(lines) == 0 {
		return
	}
	c.Inc("reqshape_flow_emitting_" + flow)
	sets, dels := 0, 0
	mainDel := false
	for _, l := range lines {
		sc, ok := c18ParseSetCookie(l)
		if !ok {
			continue
		}
		if sc.isDeletion() {
			dels++
			if c18rsTargetClass(k, sc.Name) == "main" {
				mainDel = true
			}
		} else {
			sets++
		}
	}
	if sets > 0 {
		c.Inc("reqshape_setting_" + store + "_hosts-matching-" + matchClass)
	}
	if dels > 0 {
		c.Inc("reqshape_clearing_" + store + "_hosts-matching-" + matchClass)
	}
	repeated := shape.Op != "as-is" && shape.Op != "names-next-to-the-family" && shape.Op != "other-layout"
	if mainDel && repeated && (shape.Target == "main" || shape.Target == "all") {
		// the session/ticket cookie name repeated in the request, and the response deletes it
		c.Inc("reqshape_repeated_name_cleared_" + store + "_" + layout + "_hosts-matching-" + matchClass)
	}
	if sets > 0 && repeated {
		c.Inc("reqshape_repeated_name_set_" + store)
	}
}

// ---- configuration / host sub-product of the part

// c18rsConfigs: domain sets x store x {csrf-per-request, reverse-proxy}; the attribute values
// (whose full product is the main sweep's business) run diagonally through it in the quick tier,
// so that every value of every attribute meets every domain set; thorough: two attribute
// combinations per cell and all four {csrf-per-request, reverse-proxy} settings.
func c18rsConfigs(quick bool) []c18Cfg {
	extras := [][2]bool{{false, false}, {true, true}}
	if !quick {
		extras = [][2]bool{{false, false}, {false, true}, {true, false}, {true, true}}
	}
	type attr struct {
		se, ho bool
		ss, p  string
		nl     int
	}
	attrsAt := func(i int) []attr {
		one := func(j int) attr {
			return attr{se: j%2 == 0, ho: (j/2)%2 == 0, ss: c18SameSites[(j/4)%4], p: c18Paths[(j/3)%2], nl: []int{13, 256}[(j/5)%2]}
		}
		if quick {
			return []attr{one(i)}
		}
		return []attr{one(i), one(i + 7)}
	}
	var out []c18Cfg
	i := 0
	for _, ex := range extras {
		for _, redis := range []bool{false, true} {
			for _, ds := range c18DomainSets {
				for _, a := range attrsAt(i) {
					out = append(out, c18Cfg{Secure: a.se, HTTPOnly: a.ho, SameSite: a.ss, Path: a.p, Domains: ds, NameLen: a.nl,
						Redis: redis, CSRFPerReq: ex[0], RevProxy: ex[1]})
				}
				i++
			}
		}
	}
	return out
}

// c18rsHosts: the host alphabet of the main product; quick: every host name once without port,
// one with port, and the header-absent / header-ignored variants.
func c18rsHosts(revProxy, quick bool) []c18Host {
	all := c18Hosts(revProxy, quick)
	if !quick {
		return all
	}
	var out []c18Host
	for _, h := range all {
		if strings.Contains(h.Class, "+port") && !strings.HasSuffix(h.Class, "/sub+port") {
			continue // the port is the main product's business: one host with a port here
		}
		out = append(out, h)
	}
	return out
}

var c18rsMustSee = []string{
	"reqshape_requests", "reqshape_set_cookie_lines", "reqshape_logins", "reqshape_callback_completed", "reqshape_callback_refused",
	"reqshape_target_main", "reqshape_target_csrf", "reqshape_target_all", "reqshape_target_first-part", "reqshape_target_last-part",
	"reqshape_op_as-is", "reqshape_op_names-next-to-the-family", "reqshape_op_other-layout",
	"reqshape_flow_emitting_page", "reqshape_flow_emitting_sign-out", "reqshape_flow_emitting_sign-in-page", "reqshape_flow_emitting_authorisation-failure",
	"reqshape_flow_emitting_login-start", "reqshape_flow_emitting_form-login", "reqshape_flow_emitting_callback", "reqshape_flow_emitting_page-refresh-refused",
	"reqshape_repeated_name_set_cookie", "reqshape_repeated_name_set_redis",
}

func init() {
	for _, op := range c18rsOps {
		c18rsMustSee = append(c18rsMustSee, "reqshape_op_"+op)
	}
	for _, store := range []string{"cookie", "redis"} {
		for _, m := range []string{"none", "one", "several"} {
			c18rsMustSee = append(c18rsMustSee, "reqshape_setting_"+store+"_hosts-matching-"+m, "reqshape_clearing_"+store+"_hosts-matching-"+m,
				"reqshape_repeated_name_cleared_"+store+"_one-cookie_hosts-matching-"+m)
		}
	}
	for _, m := range []string{"none", "one", "several"} {
		c18rsMustSee = append(c18rsMustSee, "reqshape_repeated_name_cleared_cookie_split_hosts-matching-"+m)
	}
}

// c18ReqShape is the part's entry point (called from c18Run; sharded over (configuration, host)).
func c18ReqShape(c *Ctx, htpasswd string, redis *world.Redis) {
	quick := c.Quick()
	cfgs := c18rsConfigs(quick)
	shapes := c18rsShapes(quick)
	c.Info["request_cookie_shapes"] = map[string]any{
		"configurations": len(cfgs), "hosts_direct_mode": len(c18rsHosts(false, quick)), "hosts_reverse_proxy_mode": len(c18rsHosts(true, quick)),
		"operations": len(c18rsOps) + 3, "targets": len(c18rsTargets) + 2, "shapes": len(shapes), "flows": len(c18rsFlows) + 1,
		"session_ages": []string{"fresh", "refresh due"}, "layouts": []string{"one cookie (alice)", "split (carol; cookie store)"},
		"bound": "full product shapes x flows x ages x layouts per (configuration, host); configurations = domain sets x store x {csrf-per-request, reverse-proxy} with the attribute values running diagonally (quick) / two combinations per cell (thorough)",
	}
	st := &c18Stats{c: c}
	confirmed := map[string]int{}
	n := 0
	for ci, k := range cfgs {
		var e *c18Env
		for hi, h := range c18rsHosts(k.RevProxy, quick) {
			mine := c.Mine(n)
			n++
			if !mine {
				continue
			}
			if c.Expired() {
				return
			}
			if e == nil {
				var err error
				if e, err = c18Build(k, htpasswd, redis); err != nil {
					c.Error("request-cookie shapes: configuration %+v rejected: %v", k, err)
					break
				}
				c.Inc("reqshape_configurations_built")
			}
			c.Inc("reqshape_scenarios")
			for _, f := range c18rsScenario(st, e, hi, h, ci, quick) {
				f := f
				size := c18Size(f) + 5
				if best, ok := confirmed[f.Key]; ok && size >= best {
					c.Violate(f.Key, f.Msg, size, f.Case)
					continue
				}
				again := func() (string, bool) {
					for _, g := range c18rsScenario(nil, e, hi, h, ci, quick) {
						if g.Key == f.Key && g.Case.Step == f.Case.Step && g.Case.Observed == f.Case.Observed {
							return g.Key, true
						}
					}
					return f.Key, false
				}
				c.confirm(f.Key, f.Msg, size, f.Case, again)
				confirmed[f.Key] = size
			}
		}
	}
}

// c18rsPost: vacuity guard of the part, on the merged counters of all shards.
func c18rsPost(c *Ctx) {
	for _, name := range c18rsMustSee {
		if c.Counters[name] == 0 {
			c.Error("vacuous: request-cookie shapes: class %q never appeared", name)
		}
	}
}
