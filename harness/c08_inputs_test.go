//go:build verif

package main

import (
	"bytes"
	"encoding/json"
	"fmt"
	"io"
	"mime/multipart"
	"net/url"
	"os"
	"strconv"
	"strings"

	"github.com/ghodss/yaml"
	"github.com/oauth2-proxy/oauth2-proxy/v7/pkg/apis/options"
	"github.com/oauth2-proxy/oauth2-proxy/v7/pkg/validation"
	"github.com/oauth2-proxy/oauth2-proxy/v7/verifx/world"
	"github.com/spf13/pflag"
)

// C08, two further parts.
//
// "authonly-inputs": the constraints of the auth-only endpoint are QUERY constraints. The decision
// is a function of the session, the global rules and the query of the request; the method, a
// request body of any encoding, and headers that carry look-alike parameters must not move it.
// Full product methods x carriers x payloads (derived from the identity: its own group / e-mail /
// domain, values nobody has, empty values, repetitions) x query constraints x identities x
// configurations; two oracles: the reference predicate of the query (c08Expect) and the relational
// clause "same answer class as the plain GET with the same query and the same cookie".
//
// "groupnames": a group name is one opaque string. Product of a name alphabet (commas, blanks at
// either end and inside, '=', quotes, case, the empty name, prefixes, LDAP distinguished names and
// their components) on BOTH sides — configured names x names carried by the session — configured
// through the options structure, the configuration file, the alpha configuration file and (where
// the flag syntax has no say) the flag; at login, on later requests of a session minted before the
// rule existed, on the htpasswd form login / Basic credentials, and as items of the auth-only
// allowed_groups query. Oracle: verbatim equality of whole names.

var c08InputsNeed = []string{
	"part_authonly-inputs", "inputs_relational_comparisons", "inputs_widening_payload_where_query_refuses",
	"inputs_narrowing_payload_where_query_serves", "inputs_baseline_served", "inputs_baseline_refused",
	"inputs_body_parsed_by_form_readers", "inputs_carrier_header",
	"part_groupnames", "groupnames_refused_only_because_names_are_verbatim", "groupnames_member_of_name_with_separator_served",
	"groupnames_via_struct", "groupnames_via_toml", "groupnames_via_alpha", "groupnames_via_flag",
	"groupnames_stage_login", "groupnames_stage_request", "groupnames_stage_htpasswd", "groupnames_stage_authonly-query",
}

// ---------------------------------------------------------------------------------------------
// building a proxy whose group names do not pass through the flag syntax

func c08ExtraFlagSet() *pflag.FlagSet {
	fs := pflag.NewFlagSet("oauth2-proxy", pflag.ContinueOnError)
	fs.ParseErrorsWhitelist.UnknownFlags = true
	fs.String("config", "", "")
	fs.String("alpha-config", "", "")
	fs.Bool("convert-config-to-alpha", false, "")
	fs.Bool("version", false, "")
	fs.SetOutput(io.Discard)
	return fs
}

func c08TomlList(key string, items []string) string {
	q := make([]string, len(items))
	for i, s := range items {
		q[i] = strconv.Quote(s) // printable text: Go's escapes are a subset of TOML's basic-string escapes
	}
	return key + " = [" + strings.Join(q, ", ") + "]\n"
}

// c08BuildVia builds a proxy from flags (everything but the group names) plus group names handed
// over through the options structure, a TOML configuration file or an alpha configuration file.
// htGroups == nil: no htpasswd user groups.
func c08BuildVia(via string, flags, groups, htGroups []string) (*Proxy, error) {
	quietLogger()
	if groups == nil {
		groups = []string{}
	}
	switch via {
	case "struct":
		return buildProxy(&ProxyCfg{Flags: flags, Mutate: func(o *options.Options) {
			if len(o.Providers) > 0 {
				o.Providers[0].AllowedGroups = append([]string{}, groups...)
			}
			if htGroups != nil {
				o.HtpasswdUserGroups = append([]string{}, htGroups...)
			}
		}})
	case "toml":
		content := c08TomlList("allowed_groups", groups)
		if htGroups != nil {
			content += c08TomlList("htpasswd_user_groups", htGroups)
		}
		path := tempFile(scratch(), "c08-config-*.cfg", content)
		defer os.Remove(path)
		fs := c08ExtraFlagSet()
		_ = fs.Parse(flags)
		opts, err := loadConfiguration(path, "", fs, flags)
		if err != nil {
			return nil, fmt.Errorf("load: %w", err)
		}
		return c08Finish(opts, flags)
	case "alpha":
		// the structured part of the configuration is rendered the way --convert-config-to-alpha
		// renders it, with the group names filled in, and loaded back from that file
		fs := c08ExtraFlagSet()
		_ = fs.Parse(flags)
		legacy, err := loadConfiguration("", "", fs, flags)
		if err != nil {
			return nil, fmt.Errorf("load: %w", err)
		}
		if len(legacy.Providers) == 0 {
			return nil, fmt.Errorf("load: no provider")
		}
		alpha := &options.AlphaOptions{}
		alpha.ExtractFrom(legacy)
		alpha.Providers[0].AllowedGroups = append([]string{}, groups...)
		doc, err := yaml.Marshal(alpha)
		if err != nil {
			return nil, fmt.Errorf("alpha: %w", err)
		}
		path := tempFile(scratch(), "c08-alpha-*.yaml", string(doc))
		defer os.Remove(path)
		core := options.NewFlagSet()
		var coreFlags []string
		for _, f := range flags {
			name, _, _ := strings.Cut(strings.TrimPrefix(f, "--"), "=")
			if core.Lookup(name) != nil {
				coreFlags = append(coreFlags, f)
			}
		}
		fs2 := c08ExtraFlagSet()
		_ = fs2.Parse(coreFlags)
		opts, err := loadConfiguration("", path, fs2, coreFlags)
		if err != nil {
			return nil, fmt.Errorf("load alpha: %w", err)
		}
		if htGroups != nil {
			opts.HtpasswdUserGroups = append([]string{}, htGroups...)
		}
		return c08Finish(opts, flags)
	}
	return nil, fmt.Errorf("unknown configuration path %q", via)
}

func c08Finish(opts *options.Options, flags []string) (*Proxy, error) {
	err := validation.Validate(opts)
	quietLogger()
	if err != nil {
		return nil, fmt.Errorf("validate: %w", err)
	}
	p, err := NewOAuthProxy(opts, NewValidator(opts.EmailDomains, opts.AuthenticatedEmailsFile))
	if err != nil {
		return nil, fmt.Errorf("new: %w", err)
	}
	return &Proxy{P: p, Opts: opts, H: p, Cfg: &ProxyCfg{Flags: flags}}, nil
}

// ---------------------------------------------------------------------------------------------
// part "authonly-inputs"

var c08Methods = []string{"GET", "HEAD", "POST", "PUT", "PATCH", "DELETE"}

// c08Carrier puts a list of look-alike parameters somewhere into the request that is not the query.
type c08Carrier struct {
	Name string
	Kind string // body | header
	// FormReaders: net/http's form parsing would read the parameters from this carrier
	FormReaders bool
	Put         func(cs *c08Case, pairs [][2]string)
}

func c08Encode(pairs [][2]string) string {
	var b []string
	for _, p := range pairs {
		b = append(b, url.QueryEscape(p[0])+"="+url.QueryEscape(p[1]))
	}
	return strings.Join(b, "&")
}

func c08Carriers(quick bool) []c08Carrier {
	body := func(ctype string) func(cs *c08Case, pairs [][2]string) {
		return func(cs *c08Case, pairs [][2]string) {
			cs.Body = c08Encode(pairs)
			if ctype != "" {
				cs.Hdr = append(cs.Hdr, [2]string{"Content-Type", ctype})
			}
		}
	}
	header := func(name, prefix string) func(cs *c08Case, pairs [][2]string) {
		return func(cs *c08Case, pairs [][2]string) {
			cs.Hdr = append(cs.Hdr, [2]string{name, prefix + c08Encode(pairs)})
		}
	}
	out := []c08Carrier{
		{Name: "form", Kind: "body", FormReaders: true, Put: body("application/x-www-form-urlencoded")},
		{Name: "multipart", Kind: "body", FormReaders: true, Put: func(cs *c08Case, pairs [][2]string) {
			var buf bytes.Buffer
			w := multipart.NewWriter(&buf)
			_ = w.SetBoundary("c08boundary")
			for _, p := range pairs {
				_ = w.WriteField(p[0], p[1])
			}
			w.Close()
			cs.Body = buf.String()
			cs.Hdr = append(cs.Hdr, [2]string{"Content-Type", w.FormDataContentType()})
		}},
		{Name: "text-plain", Kind: "body", Put: body("text/plain")},
		{Name: "no-content-type", Kind: "body", Put: body("")},
		{Name: "json", Kind: "body", Put: func(cs *c08Case, pairs [][2]string) {
			m := map[string][]string{}
			for _, p := range pairs {
				m[p[0]] = append(m[p[0]], p[1])
			}
			b, _ := json.Marshal(m)
			cs.Body = string(b)
			cs.Hdr = append(cs.Hdr, [2]string{"Content-Type", "application/json"})
		}},
		{Name: "x-forwarded-uri", Kind: "header", Put: header("X-Forwarded-Uri", "/oauth2/auth?")},
		{Name: "x-auth-request-redirect", Kind: "header", Put: header("X-Auth-Request-Redirect", "/page?")},
	}
	if !quick {
		out = append(out,
			c08Carrier{Name: "form-charset", Kind: "body", FormReaders: true, Put: body("application/x-www-form-urlencoded; charset=UTF-8")},
			c08Carrier{Name: "form-upper-case", Kind: "body", FormReaders: true, Put: body("Application/X-WWW-Form-URLEncoded")},
			c08Carrier{Name: "x-original-uri", Kind: "header", Put: header("X-Original-Uri", "/page?")},
			c08Carrier{Name: "x-original-url", Kind: "header", Put: header("X-Original-Url", "http://app.example.com/page?")},
			c08Carrier{Name: "referer", Kind: "header", Put: header("Referer", "http://app.example.com/oauth2/auth?")},
			c08Carrier{Name: "cookie", Kind: "header", Put: func(cs *c08Case, pairs [][2]string) {
				var b []string
				for _, p := range pairs {
					b = append(b, p[0]+"="+url.QueryEscape(p[1]))
				}
				cs.Hdr = append(cs.Hdr, [2]string{"Cookie", strings.Join(b, "; ")})
			}})
	}
	return out
}

type c08Payload struct {
	Name  string
	Kind  string // widen | narrow | erase | mixed
	Keys  []string
	Pairs [][2]string
}

const (
	c08KG = "allowed_groups"
	c08KE = "allowed_emails"
	c08KD = "allowed_email_domains"
)

// c08Payloads: what a client could add, given who it is.
func c08Payloads(email string, groups []string, quick bool) []c08Payload {
	ownG := "no-such-group"
	if len(groups) > 0 {
		ownG = groups[0]
	}
	ownD := email[strings.LastIndex(email, "@")+1:]
	out := []c08Payload{
		{"own-group", "widen", []string{c08KG}, [][2]string{{c08KG, ownG}}},
		{"own-email", "widen", []string{c08KE}, [][2]string{{c08KE, email}}},
		{"own-domain", "widen", []string{c08KD}, [][2]string{{c08KD, ownD}}},
		{"own-everything", "widen", []string{c08KG, c08KE, c08KD}, [][2]string{{c08KG, ownG}, {c08KE, email}, {c08KD, ownD}}},
		{"foreign-group", "narrow", []string{c08KG}, [][2]string{{c08KG, "nobodys-group"}}},
		{"foreign-email", "narrow", []string{c08KE}, [][2]string{{c08KE, "nobody@nowhere.invalid"}}},
		{"foreign-domain", "narrow", []string{c08KD}, [][2]string{{c08KD, "nowhere.invalid"}}},
		{"empty-values", "erase", []string{c08KG, c08KE, c08KD}, [][2]string{{c08KG, ""}, {c08KE, ""}, {c08KD, ""}}},
		{"foreign-then-own-group", "widen", []string{c08KG}, [][2]string{{c08KG, "nobodys-group"}, {c08KG, ownG}}},
		{"wide-lists", "widen", []string{c08KG, c08KD}, [][2]string{{c08KG, "staff,guests,admins," + ownG}, {c08KD, "*.com,.org,example.com,other.org," + ownD}}},
	}
	if !quick {
		out = append(out,
			c08Payload{"foreign-everything", "narrow", []string{c08KG, c08KE, c08KD}, [][2]string{{c08KG, "nobodys-group"}, {c08KE, "nobody@nowhere.invalid"}, {c08KD, "nowhere.invalid"}}},
			c08Payload{"own-group-foreign-domain", "mixed", []string{c08KG, c08KD}, [][2]string{{c08KG, ownG}, {c08KD, "nowhere.invalid"}}},
			c08Payload{"unrelated", "mixed", nil, [][2]string{{"rd", "/page"}, {"x", "1"}}},
			c08Payload{"own-email-twice", "widen", []string{c08KE}, [][2]string{{c08KE, email}, {c08KE, email}}})
	}
	return out
}

func c08InputQueries(quick bool) []string {
	out := []string{"", "allowed_groups=staff", "allowed_groups=guests,other", "allowed_emails=alice@example.com",
		"allowed_emails=bob@other.org", "allowed_email_domains=example.com", "allowed_email_domains=other.org,.example.com",
		"allowed_groups=staff&allowed_emails=alice@example.com&allowed_email_domains=example.com"}
	if !quick {
		out = append(out, "allowed_groups=", "allowed_groups=guests&allowed_email_domains=other.org", "allowed_emails=nobody@nowhere.invalid",
			"allowed_email_domains=*.org", "x=1", "allowed_groups=staff%zz")
	}
	return out
}

func (o c08Obs) class() string {
	switch {
	case o.Panic != "":
		return "panic"
	case o.Served:
		return "served"
	case o.Refused:
		return fmt.Sprintf("refused cookie_cleared=%v", o.Cleared)
	}
	return fmt.Sprintf("other(status %d)", o.Status)
}

func c08HasKey(keys []string, k string) bool {
	for _, x := range keys {
		if x == k {
			return true
		}
	}
	return false
}

// c08QueryHas reports whether the query constrains key (some non-empty item), under the plain reading.
func c08QueryHas(q, key string) bool {
	items, _ := c08Items(q, key, false)
	return len(items) > 0
}

// execRel runs the variant and the plain GET with the same query and the same credential; key is
// non-empty when the two answers fall into different classes.
func (e *c08Env) execRel(cs *c08Case, pre *c08Pre) (key, msg string) {
	base := *cs
	base.Method, base.Body, base.Hdr, base.Variant = "", "", nil, ""
	if _, _, class := e.exec(&base, pre); class == "no-session" || class == "invalid-config" || class == "harness-error" {
		return "", ""
	}
	bo := e.last
	cp := *cs
	if _, _, class := e.exec(&cp, pre); class == "no-session" || class == "invalid-config" || class == "harness-error" {
		return "", ""
	}
	vo := e.last
	if bo.class() == vo.class() {
		return "", ""
	}
	what := "method"
	switch {
	case cs.Body != "":
		what = "request-body"
	case len(cs.Hdr) > 0:
		what = "request-header"
	}
	return "C08/authonly-decision-moved-by-" + what, fmt.Sprintf("session e-mail %q groups %q under [%s]: %s is answered %s (%s), the plain GET %s with the same cookie is answered %s (%s); the auth-only constraints are query constraints, nothing else in the request may move the decision",
		cs.Email, cs.Groups, cs.Rules.String(), cs.reqLine(), vo.class(), vo.String(), cs.Target, bo.class(), bo.String())
}

func (e *c08Env) c08Inputs() {
	c := e.c
	quick := c.Quick()
	emails := []string{"alice@example.com", "bob@other.org", "alice@evilexample.com"}
	gsets := []c08GroupSet{{NoClaim: true}, {G: []string{"staff"}}, {G: []string{"guests"}}}
	if !quick {
		emails = append(emails, "alice@sub.example.com", "eve@example.com@other.org", "alice+tag@example.com")
		gsets = append(gsets, c08GroupSet{G: []string{"guests", "staff"}}, c08GroupSet{G: []string{"staffx"}})
	}
	cfgs := []c08Rules{{Domains: []string{"*"}},
		{Domains: []string{".example.com", "other.org"}, Groups: []string{"staff", "guests"}},
		{Domains: []string{"*"}, ReverseProxy: true}}
	carriers := c08Carriers(quick)
	queries := c08InputQueries(quick)
	c.Info["authonly_inputs_alphabet"] = map[string]any{"methods": len(c08Methods), "carriers": len(carriers),
		"payloads_per_identity": len(c08Payloads("a@b", nil, quick)), "queries": len(queries), "emails": len(emails),
		"group_sets": len(gsets), "configurations": len(cfgs)}

	star := c08Rules{Domains: []string{"*"}}
	pxStar, err := e.build(&star, &c08Case{Source: "oidc-cookie"})
	if err != nil {
		c.Error("allow-all proxy: %v", err)
		return
	}
	type ident struct {
		em  string
		gs  c08GroupSet
		jar *world.Jar
	}
	var ids []ident
	for _, em := range emails {
		for _, gs := range gsets {
			b := newBrowser(pxStar, "http", c08Host)
			if _, _, err := b.Login(e.idp, e.user(&c08Case{Email: em, Groups: gs.G, NoClaim: gs.NoClaim}), "/page"); err != nil || !c08HasSession(b) {
				c.Error("authonly-inputs: no session for %q %q: %v", em, gs.G, err)
				continue
			}
			ids = append(ids, ident{em, gs, b.Jar})
		}
	}
	e.trim()
	for ci := range cfgs {
		r := cfgs[ci]
		px, err := e.build(&r, &c08Case{Source: "oidc-cookie"})
		if err != nil {
			c.Error("authonly-inputs configuration %s: %v", r.String(), err)
			continue
		}
		for _, id := range ids {
			for _, q := range queries {
				if !e.mine() {
					continue
				}
				if c.Expired() {
					return
				}
				target := "/oauth2/auth"
				if q != "" {
					target += "?" + q
				}
				pre := &c08Pre{px: px, jar: id.jar}
				proto := c08Case{Part: "authonly-inputs", Source: "oidc-cookie", Login: &star, Rules: r, Email: id.em, Groups: id.gs.G, NoClaim: id.gs.NoClaim, Target: target}
				base := proto
				if cl := e.run(&base, pre); cl == "no-session" || cl == "invalid-config" || cl == "harness-error" {
					continue
				}
				bo := e.last
				switch {
				case bo.Served:
					c.Inc("inputs_baseline_served")
				case bo.Refused:
					c.Inc("inputs_baseline_refused")
				}
				x := c08Expect(&r, id.em, id.gs.G, target, false)
				variant := func(cs *c08Case) {
					e.run(cs, pre)
					vo := e.last
					c.Inc("inputs_relational_comparisons")
					if vo.class() != bo.class() {
						key, msg := e.execRel(cs, pre)
						if key == "" {
							c.Unstable("authonly-inputs: %s differed from the plain GET once, not on re-execution", cs.reqLine())
							return
						}
						e.seen[key]++
						size := len(cs.Target) + len(cs.Body) + len(cs.Email) + 8*len(cs.Hdr) + len(cs.Rules.String())
						if e.seen[key] <= 3 {
							c.confirm(key, msg, size, *cs, func() (string, bool) {
								k, _ := e.execRel(cs, pre)
								return k, k != ""
							})
						} else {
							c.Violate(key, msg, size, *cs)
						}
					}
				}
				for _, m := range c08Methods {
					if m != "GET" {
						cs := proto
						cs.Method, cs.Variant = m, "method only"
						c.Inc("inputs_method_only")
						variant(&cs)
					}
					for _, ca := range carriers {
						if quick && r.ReverseProxy && ca.Kind == "body" {
							continue // quick: trusting forwarded headers is crossed with the header carriers only
						}
						for _, pl := range c08Payloads(id.em, id.gs.G, quick) {
							cs := proto
							cs.Method, cs.Variant = m, ca.Name+" carries "+pl.Name
							ca.Put(&cs, pl.Pairs)
							c.Inc("inputs_carrier_" + ca.Kind)
							if ca.FormReaders && (m == "POST" || m == "PUT" || m == "PATCH") {
								c.Inc("inputs_body_parsed_by_form_readers")
								// the cases the part exists for: the query alone decides against (for) the
								// session, the payload would decide the other way on a key the query constrains
								touches := false
								for _, k := range pl.Keys {
									touches = touches || c08QueryHas(q, k)
								}
								if pl.Kind == "widen" && touches && !x.served().L && x.global().L {
									c.Inc("inputs_widening_payload_where_query_refuses")
								}
								if pl.Kind == "narrow" && x.served().S && x.Canon {
									c.Inc("inputs_narrowing_payload_where_query_serves")
								}
							}
							variant(&cs)
						}
					}
				}
			}
		}
		e.trim()
	}
}

// ---------------------------------------------------------------------------------------------
// part "groupnames"

func c08GroupNames(quick bool) []string {
	out := []string{"admins", "Admins", " admins", "admins ", "ad mins", "ops", "admins,ops", "admins, ops", " ops",
		"cn=admins,ou=groups,dc=example,dc=com", "ou=groups", "dc=com", "cn=admins", `"admins"`, `'admins'`, "", ",", "admins,", "adm"}
	if !quick {
		out = append(out, "ADMINS", "admins\t", "a", "admins,ops,dev", "dev", "ops,admins", `"admins,ops"`, `admins\,ops`, "admins;ops",
			"admins|ops", "/admins", "/admins/ops", "ädmins", "admins ", "%61dmins", "admins%2Cops", "admins+ops", "*", "null",
			"CN=admins,OU=groups,DC=example,DC=com", "cn=admins, ou=groups, dc=example, dc=com")
	}
	return out
}

func c08ConfiguredLists(quick bool) [][]string {
	out := [][]string{nil}
	for _, n := range c08GroupNames(quick) {
		out = append(out, []string{n})
	}
	out = append(out, []string{"admins", "ops"}, []string{"admins,ops", "dc=com"}, []string{" admins", "ops "}, []string{"", "admins"})
	if !quick {
		out = append(out, []string{"cn=admins,ou=groups,dc=example,dc=com", "cn=ops,ou=groups,dc=example,dc=com"}, []string{"", ""}, []string{"admins", "admins"})
	}
	return out
}

func c08SessionLists(quick bool) []c08GroupSet {
	out := []c08GroupSet{{NoClaim: true}, {G: []string{}}}
	for _, n := range c08GroupNames(quick) {
		out = append(out, c08GroupSet{G: []string{n}})
	}
	out = append(out, c08GroupSet{G: []string{"ou=groups", "dc=com"}}, c08GroupSet{G: []string{"staff", "dc=com"}}, c08GroupSet{G: []string{"admins", "ops"}})
	if !quick {
		out = append(out, c08GroupSet{G: []string{"cn=interns,ou=groups,dc=example,dc=com"}}, c08GroupSet{G: []string{"dev", "ops", "adm"}})
	}
	return out
}

// c08Normalise: what a well-meaning normaliser could make of a name (split at separators, trim,
// unquote, lower-case). Only used to COUNT the cases whose refusal rests on verbatim comparison
// (vacuity guard); the oracle is c08GroupAllowed.
func c08Normalise(names []string) map[string]bool {
	out := map[string]bool{}
	for _, n := range names {
		for _, f := range strings.FieldsFunc(n, func(r rune) bool { return r == ',' || r == ';' || r == '|' }) {
			f = strings.ToLower(strings.Trim(strings.TrimSpace(f), `"'`))
			if f != "" {
				out[f] = true
			}
		}
	}
	return out
}

func c08NormalisedMeet(a, b []string) bool {
	na, nb := c08Normalise(a), c08Normalise(b)
	for k := range na {
		if nb[k] {
			return true
		}
	}
	return false
}

func c08FlagSafe(names []string) bool {
	for _, n := range names {
		if n == "" || strings.ContainsAny(n, "\",\\\n\r") {
			return false // the flag is documented as a list: its syntax has a say for these
		}
	}
	return true
}

func c08HasSeparator(names []string) bool {
	for _, n := range names {
		if strings.ContainsAny(n, ", \"'") {
			return true
		}
	}
	return false
}

// count keeps the vacuity counters of the part for one executed case.
func (e *c08Env) groupNameCounters(stage, via, class string, allowed, have []string) {
	c := e.c
	if class == "no-session" || class == "invalid-config" || class == "harness-error" {
		return
	}
	c.Inc("groupnames_stage_" + stage)
	if via == "" {
		via = "flag"
	}
	c.Inc("groupnames_via_" + via)
	refused := strings.HasPrefix(class, "refuse") || class == "login-refuse"
	if refused && c08NormalisedMeet(allowed, have) {
		c.Inc("groupnames_refused_only_because_names_are_verbatim")
	}
	if (class == "serve" || class == "login-ok") && len(allowed) > 0 && c08Intersect(allowed, have) && c08HasSeparator(allowed) {
		c.Inc("groupnames_member_of_name_with_separator_served")
	}
}

func (e *c08Env) c08GroupNames() {
	c := e.c
	quick := c.Quick()
	names := c08GroupNames(quick)
	cfgLists := c08ConfiguredLists(quick)
	sessLists := c08SessionLists(quick)
	vias := []string{"struct", "toml", "alpha", ""}
	const email = "alice@example.com"
	htLists := [][]string{nil, {"admins"}, {" admins"}, {"admins,ops"}, {"ops"}, {"ou=groups", "dc=com"}, {"Admins"}, {`"admins"`}, {"cn=admins,ou=groups,dc=example,dc=com"}, {""}}
	if !quick {
		for _, n := range names[len(c08GroupNames(true)):] {
			htLists = append(htLists, []string{n})
		}
	}
	c.Info["groupnames_alphabet"] = map[string]any{"names": len(names), "configured_lists": len(cfgLists), "session_lists": len(sessLists),
		"configuration_paths": len(vias), "htpasswd_user_group_lists": len(htLists)}

	star := c08Rules{Domains: []string{"*"}}
	pxStar, err := e.build(&star, &c08Case{Source: "oidc-cookie"})
	if err != nil {
		c.Error("allow-all proxy: %v", err)
		return
	}
	jars := make([]*world.Jar, len(sessLists))
	for i, gs := range sessLists {
		b := newBrowser(pxStar, "http", c08Host)
		if _, _, err := b.Login(e.idp, e.user(&c08Case{Email: email, Groups: gs.G, NoClaim: gs.NoClaim}), "/page"); err != nil || !c08HasSession(b) {
			c.Error("groupnames: no session for groups %q: %v", gs.G, err)
			continue
		}
		jars[i] = b.Jar
	}
	e.trim()

	// configured names x session names x configuration paths: login, and later requests of a session
	// that was minted before the rule existed
	for _, via := range vias {
		for li := range cfgLists {
			al := cfgLists[li]
			if via == "" && !c08FlagSafe(al) {
				if c.Shard == 0 {
					c.Inc("groupnames_lists_not_expressible_as_flags")
				}
				continue
			}
			if !e.mine() {
				continue
			}
			if c.Expired() {
				return
			}
			r := c08Rules{Domains: []string{"*"}, Groups: al, GroupsVia: via}
			px, err := e.build(&r, &c08Case{Source: "oidc-cookie"})
			if err != nil {
				c.Error("groupnames configuration %s: %v", r.String(), err)
				continue
			}
			for si, gs := range sessLists {
				cs := &c08Case{Part: "groupnames", Source: "oidc-cookie", Login: &r, Rules: r, Email: email, Groups: gs.G, NoClaim: gs.NoClaim}
				e.groupNameCounters("login", via, e.run(cs, &c08Pre{loginPx: px}), al, gs.G)
				if jars[si] == nil {
					continue
				}
				for _, t := range c08Endpoints {
					cs := &c08Case{Part: "groupnames", Source: "oidc-cookie", Login: &star, Rules: r, Email: email, Groups: gs.G, NoClaim: gs.NoClaim, Target: t}
					e.groupNameCounters("request", via, e.run(cs, &c08Pre{px: px, jar: jars[si]}), al, gs.G)
				}
			}
			e.trim()
		}
	}

	// htpasswd users: their groups come from the configuration as well
	htVias := []string{"struct", "toml"}
	for _, via := range htVias {
		for li := range cfgLists {
			al := cfgLists[li]
			for _, hg := range htLists {
				if !e.mine() {
					continue
				}
				if c.Expired() {
					return
				}
				if hg == nil {
					hg = []string{}
				}
				r := c08Rules{Domains: []string{"*"}, Groups: al, GroupsVia: via}
				proto := &c08Case{Source: "htpasswd-form", HtGroups: hg}
				px, err := e.build(&r, proto)
				if err != nil {
					c.Error("groupnames htpasswd configuration %s / %q: %v", r.String(), hg, err)
					continue
				}
				cs := &c08Case{Part: "groupnames", Source: "htpasswd-form", Login: &r, Rules: r, HtGroups: hg}
				e.groupNameCounters("htpasswd", via, e.run(cs, &c08Pre{loginPx: px}), al, hg)
				for _, t := range []string{"/page", "/oauth2/auth"} {
					cs := &c08Case{Part: "groupnames", Source: "htpasswd-basic", Rules: r, HtGroups: hg, Target: t}
					e.groupNameCounters("htpasswd", via, e.run(cs, &c08Pre{px: px}), al, hg)
				}
			}
		}
	}

	// the names as items of the auth-only query (no global group rule): the query is a comma list,
	// an encoded comma and blanks around an item are read both ways by the reference
	var queries []string
	seen := map[string]bool{}
	addQ := func(q string) {
		if !seen[q] {
			seen[q] = true
			queries = append(queries, q)
		}
	}
	for _, n := range names {
		enc := url.QueryEscape(n)
		addQ("allowed_groups=" + enc)
		addQ("allowed_groups=" + strings.ReplaceAll(strings.ReplaceAll(enc, "%2C", ","), "+", "%20"))
		addQ("allowed_groups=nobodys-group&allowed_groups=" + enc)
		addQ("allowed_groups=nobodys-group," + strings.ReplaceAll(enc, "%2C", ","))
	}
	c.Info["groupnames_authonly_queries"] = len(queries)
	for si, gs := range sessLists {
		if jars[si] == nil || !e.mine() {
			continue
		}
		for _, q := range queries {
			cs := &c08Case{Part: "groupnames", Source: "oidc-cookie", Login: &star, Rules: star, Email: email, Groups: gs.G, NoClaim: gs.NoClaim, Target: "/oauth2/auth?" + q}
			items, _ := c08Items(q, c08KG, false)
			e.groupNameCounters("authonly-query", "query", e.run(cs, &c08Pre{px: pxStar, jar: jars[si]}), items, gs.G)
		}
	}
	e.trim()
}
