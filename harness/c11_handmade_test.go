//go:build verif

package main

import (
	"fmt"
	"strings"

	"github.com/oauth2-proxy/oauth2-proxy/v7/verifx/world"
)

// C11, first sentence, for cookie sets a jar-driven history cannot reach: "deletes every session
// cookie the browser presented, including all parts of a split cookie". Two requests in flight
// can leave a browser with both layouts at once or with a gap in the numbering (the responses are
// applied in whatever order they arrive), so sign-out is also sent hand-made Cookie headers over
// every subset of {name, name_0 .. name_3} plus two-digit parts. The values do not matter: what is
// checked is that each presented session-cookie name gets its own deletion.
func c11HandMade(c *Ctx) {
	world.NewIdP()
	up := world.NewUpstream("hm")
	defer up.Close()
	n := 0
	for _, nameLen := range []int{13, 100} {
		name := c18Name(nameLen)
		for _, prefix := range []string{"/oauth2", "/app/oauth2"} {
			flags := append(baseFlags(up.URL()), "--email-domain=*", "--cookie-secure=false", "--cookie-name="+name)
			if prefix != "/oauth2" {
				flags = append(flags, "--proxy-prefix="+prefix, "--cookie-path=/app")
			}
			px := mustProxy(&ProxyCfg{Flags: flags})
			members := []string{name, name + "_0", name + "_1", name + "_2", name + "_3"}
			var sets [][]string
			for mask := 1; mask < 1<<len(members); mask++ {
				var s []string
				for i, m := range members {
					if mask&(1<<i) != 0 {
						s = append(s, m)
					}
				}
				sets = append(sets, s)
			}
			var twelve []string
			for i := 0; i < 12; i++ {
				twelve = append(twelve, fmt.Sprintf("%s_%d", name, i))
			}
			sets = append(sets, twelve, []string{name + "_10", name + "_11"}, []string{name, name + "_10"})
			for _, set := range sets {
				for _, method := range []string{"GET", "POST"} {
					n++
					if !c.Mine(n) {
						continue
					}
					var ck []string
					for _, m := range set {
						ck = append(ck, m+"=x")
					}
					// a neighbour that is NOT a session cookie must be left alone
					ck = append(ck, name+"_csrf=keep", name+"x=keep", "other=keep")
					resp := world.Serve(px.H, &world.Req{Method: method, Target: prefix + "/sign_out", Host: "app.example.com", Headers: [][2]string{{"Cookie", strings.Join(ck, "; ")}}})
					c.Inc("evaluations")
					c.Inc("handmade_signouts")
					c.Distinct("distinct_nontrivial", fmt.Sprintf("hm|%d|%s|%s|%v", nameLen, prefix, method, set))
					deleted := map[string]bool{}
					for _, sc := range resp.Cookies() {
						if sc.MaxAge < 0 || (sc.Value == "" && !sc.Expires.IsZero()) {
							deleted[sc.Name] = true
						}
					}
					cs := map[string]any{"kind": "hand-made-cookie-set", "cookie_name_len": nameLen, "proxy_prefix": prefix, "method": method, "presented": shortNames(set, name), "status": resp.Status}
					if resp.Panic != nil {
						c.Violate("C11/handmade/panic", fmt.Sprintf("sign-out with cookies %v panics: %v", shortNames(set, name), resp.Panic), len(set), cs)
						continue
					}
					var missing []string
					for _, m := range set {
						if !deleted[m] {
							missing = append(missing, m)
						}
					}
					if len(missing) > 0 {
						c.Violate("C11/handmade/presented-session-cookie-not-deleted",
							fmt.Sprintf("sign-out (%s, status %d) presented with session cookies %v answers without a deletion for %v", method, resp.Status, shortNames(set, name), shortNames(missing, name)), len(set), cs)
					}
					for _, keep := range []string{name + "_csrf", name + "x", "other"} {
						if deleted[keep] {
							c.Inc("handmade_unrelated_cookie_deleted") // measured, not a clause of the statement
						}
					}
				}
			}
		}
	}
}

func shortNames(set []string, name string) []string {
	out := make([]string, len(set))
	for i, s := range set {
		out[i] = "<name>" + strings.TrimPrefix(s, name)
	}
	return out
}
