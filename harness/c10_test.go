//go:build verif

package main

import (
	"crypto/sha256"
	"encoding/base64"
	"encoding/binary"
	"encoding/json"
	"fmt"
	"net/http"
	"net/http/httptest"
	"reflect"
	"sort"
	"strings"
	"time"

	"github.com/oauth2-proxy/oauth2-proxy/v7/pkg/apis/sessions"
	"github.com/oauth2-proxy/oauth2-proxy/v7/verifx/world"
)

// C10 — a saved session is what the next request loads, across any save history (SEQ).
//
// The session store of a proxy built through the real configuration path is driven directly:
// Save / Clear with a request carrying the cookies of an RFC 6265 jar, the recorder's Set-Cookie
// headers applied to the jar (what a browser does), then Load on the request built from the jar.
//
//   part "bfs"    breadth-first search over operation histories (save(s) for every s of a size /
//                 content alphabet, clear) per configuration (store x cookie-name length); every
//                 history is replayed on a fresh world; states are canonicalised (which save's which
//                 part sits in which cookie slot, which save's session sits under which store key)
//                 and de-duplicated; the oracle is evaluated after every history.
//   part "window" every token length within +-24 of each of the first three split thresholds (found
//                 by search at start-up): every single save from a fresh jar and every ordered pair
//                 save(a); save(b).
//
// Oracle (from the statement): after save(s) the jar's request loads a session equal to s in every
// exported field except Clock and Lock; after clear nothing loads; every emitted Set-Cookie line is
// at most 4096 bytes; differential: what loads after "...; save(s)" equals what loads after save(s)
// from a fresh jar. nil-vs-empty slices are counted as ambiguous (msgpack omitempty cannot tell
// them apart), never alarmed.
//
// A failure is attributed by facts the harness observes in the jar, not by implementation details:
// if removing the stale cookies (those not set by the last save) from a copy of the jar makes the
// load succeed, the finding key names the stale-cookie mechanism; otherwise a generic key of the
// observed failure class is used, so the known stale-cookie defect cannot hide anything else.

const (
	c10Host   = "app.example.com"
	c10Scheme = "https"
	c10Window = 24
)

type c10Cfg struct {
	Store   string `json:"store"` // cookie | redis
	NameLen int    `json:"name_len"`
	Tail    string `json:"tail,omitempty"` // forced suffix of the cookie name
}

func (k c10Cfg) String() string {
	s := fmt.Sprintf("%s/name%d", k.Store, k.NameLen)
	if k.Tail != "" {
		s += "~" + k.Tail
	}
	return s
}

// name is the configured cookie name: the default name, padded deterministically.
func (k c10Cfg) name() string {
	base := "_oauth2_proxy"
	pad := "-abcdefghijklmnopqrstuvwxyz0123456789"
	b := base
	if k.NameLen < len(b) {
		b = b[:k.NameLen]
	}
	for len(b) < k.NameLen {
		b += string(pad[len(b)%len(pad)])
	}
	if k.Tail != "" && len(k.Tail) < len(b) {
		b = b[:len(b)-len(k.Tail)] + k.Tail
	}
	return b
}

type c10Spec struct {
	Variant string `json:"variant"` // plain | binary | unicode | emptygroups | absent
	TokLen  int    `json:"token_len"`
}

func (s c10Spec) label() string { return fmt.Sprintf("%s:%d", s.Variant, s.TokLen) }

type c10Op struct {
	Kind string   `json:"op"` // save | clear
	Spec *c10Spec `json:"session,omitempty"`
}

func (o c10Op) label() string {
	if o.Kind == "clear" {
		return "clear"
	}
	return "save(" + o.Spec.label() + ")"
}

type c10Case struct {
	Cfg c10Cfg  `json:"config"`
	Ops []c10Op `json:"history"`
}

func (k c10Case) String() string {
	var p []string
	for _, o := range k.Ops {
		p = append(p, o.label())
	}
	return k.Cfg.String() + " [" + strings.Join(p, "; ") + "]"
}

func (k c10Case) size() int {
	n := len(k.Ops)*100000000 + k.Cfg.NameLen*100000
	if k.Cfg.Store != "cookie" {
		n += 50000
	}
	for _, o := range k.Ops {
		if o.Spec != nil {
			n += o.Spec.TokLen
			if o.Spec.Variant != "plain" {
				n += 20000
			}
		}
	}
	return n
}

// ---------------------------------------------------------------------------------------------
// sessions

// c10Stream is a deterministic incompressible byte stream (SHA-256 in counter mode), independent
// of the world's random source so that a label always denotes the same session.
func c10Stream(tag string, n int) []byte {
	out := make([]byte, 0, n+32)
	var ctr [8]byte
	for i := uint64(0); len(out) < n; i++ {
		binary.LittleEndian.PutUint64(ctr[:], i)
		h := sha256.Sum256(append([]byte("c10/"+tag+"/"), ctr[:]...))
		out = append(out, h[:]...)
	}
	return out[:n]
}

var c10TokCache string

func c10Token(n int) string {
	if len(c10TokCache) < n {
		c10TokCache = base64.RawURLEncoding.EncodeToString(c10Stream("access", n))
	}
	return c10TokCache[:n]
}

func c10Session(sp c10Spec) *sessions.SessionState {
	at := func(d time.Duration) *time.Time { t := world.Epoch.Add(d); return &t }
	s := &sessions.SessionState{
		CreatedAt:         at(0),
		ExpiresOn:         at(time.Hour),
		AccessToken:       c10Token(sp.TokLen),
		IDToken:           "eyJhbGciOiJSUzI1NiJ9." + base64.RawURLEncoding.EncodeToString(c10Stream("idt", 120)) + "." + base64.RawURLEncoding.EncodeToString(c10Stream("sig", 64)),
		RefreshToken:      base64.RawURLEncoding.EncodeToString(c10Stream("rt", 30)),
		Nonce:             []byte("nonce-0123456789abcdef"),
		Email:             "alice@example.com",
		User:              "alice-sub",
		Groups:            []string{"staff", "admins"},
		PreferredUsername: "alice",
	}
	switch sp.Variant {
	case "plain":
	case "binary":
		n := make([]byte, 256)
		for i := range n {
			n[i] = byte(i)
		}
		s.Nonce = n
		s.CreatedAt = at(-time.Hour + 123456789)
		s.ExpiresOn = at(-30*time.Minute + 987654321) // an already expired session must still round-trip
	case "unicode":
		s.User = "Ünï©ødé-用户-\U0001F600"
		s.Email = "Álïce+Tag@Exämple.COM"
		s.PreferredUsername = "a\x00b\ttab\nline|pipe;semi\"quote,comma"
		s.Groups = []string{"", "grüppe", "a,b", "group with spaces", "\xff\xfe raw bytes", "staff"}
	case "emptygroups":
		s.Groups = []string{}
		s.Nonce = []byte{}
	case "absent":
		s = &sessions.SessionState{AccessToken: c10Token(sp.TokLen)}
	case "manygroups":
		// TokLen is the number of groups here: directory-style names, highly compressible, so the
		// encoded session is far larger than the cookies it ends up in
		s.AccessToken = c10Token(64)
		s.Groups = make([]string, sp.TokLen)
		for i := range s.Groups {
			s.Groups[i] = fmt.Sprintf("CN=group-%05d,OU=Departments,OU=Groups,DC=corp,DC=example,DC=com", i)
		}
	case "repetitive":
		s.AccessToken = strings.Repeat("abcdefgh", sp.TokLen/8+1)[:sp.TokLen]
	default:
		panic("c10: unknown variant " + sp.Variant)
	}
	return s
}

// c10Diff compares every exported field except Clock and Lock. diffs: fields that differ;
// amb: fields where one side is nil and the other empty.
func c10Diff(want, got *sessions.SessionState) (diffs, amb []string) {
	if got == nil {
		return []string{"<nil session>"}, nil
	}
	tt := reflect.TypeOf(time.Time{})
	wv, gv := reflect.ValueOf(want).Elem(), reflect.ValueOf(got).Elem()
	for i := 0; i < wv.NumField(); i++ {
		f := wv.Type().Field(i)
		if !f.IsExported() || f.Name == "Clock" || f.Name == "Lock" {
			continue
		}
		a, b := wv.Field(i), gv.Field(i)
		switch {
		case f.Type.Kind() == reflect.Ptr && f.Type.Elem() == tt:
			if a.IsNil() != b.IsNil() {
				diffs = append(diffs, f.Name)
			} else if !a.IsNil() && !a.Interface().(*time.Time).Equal(*b.Interface().(*time.Time)) {
				diffs = append(diffs, f.Name)
			}
		case f.Type.Kind() == reflect.Slice:
			if a.Len() == 0 && b.Len() == 0 {
				if a.IsNil() != b.IsNil() {
					amb = append(amb, f.Name)
				}
			} else if !reflect.DeepEqual(a.Interface(), b.Interface()) {
				diffs = append(diffs, f.Name)
			}
		default:
			if !reflect.DeepEqual(a.Interface(), b.Interface()) {
				diffs = append(diffs, f.Name)
			}
		}
	}
	return
}

// c10Render is a canonical rendering of what loaded (times as offsets from the virtual epoch).
func c10Render(s *sessions.SessionState) string {
	if s == nil {
		return "<nothing>"
	}
	tt := reflect.TypeOf(time.Time{})
	h := sha256.New()
	v := reflect.ValueOf(s).Elem()
	for i := 0; i < v.NumField(); i++ {
		f := v.Type().Field(i)
		if !f.IsExported() || f.Name == "Clock" || f.Name == "Lock" {
			continue
		}
		x := v.Field(i)
		switch {
		case f.Type.Kind() == reflect.Ptr && f.Type.Elem() == tt:
			if x.IsNil() {
				fmt.Fprintf(h, "%s=nil;", f.Name)
			} else {
				fmt.Fprintf(h, "%s=%d;", f.Name, x.Interface().(*time.Time).Sub(world.Epoch))
			}
		case f.Type.Kind() == reflect.Slice:
			fmt.Fprintf(h, "%s=%d:%q;", f.Name, x.Len(), fmt.Sprint(x.Interface()))
		default:
			fmt.Fprintf(h, "%s=%q;", f.Name, fmt.Sprint(x.Interface()))
		}
	}
	return fmt.Sprintf("%x", h.Sum(nil)[:8])
}

// ---------------------------------------------------------------------------------------------
// one fresh world

type c10Origin struct {
	Op    int    // index of the save in the history
	Label string // label of the session
	Part  int
	N     int
	Key   string // redis key written by that save ("" for the cookie store)
}

type c10World struct {
	cfg    c10Cfg
	name   string
	px     *Proxy
	redis  *world.Redis
	jar    *world.Jar
	origin map[string]c10Origin // cookie value -> who set it
	keyLbl map[string]string    // redis key -> label of the session stored there
	keyIdx map[string]int
	calls  int
}

func c10NewWorld(seed int64, cfg c10Cfg) *c10World {
	w := &c10World{cfg: cfg, name: cfg.name(), jar: world.NewJar(), origin: map[string]c10Origin{}, keyLbl: map[string]string{}, keyIdx: map[string]int{}}
	for attempt := 0; ; attempt++ {
		world.ClearAdvanceHooks()
		world.ResetClock()
		world.SeedRandom(seed, 0)
		world.NewIdP()
		pc := &ProxyCfg{Flags: append(baseFlags("static://200"), "--email-domain=*", "--cookie-name="+w.name)}
		if cfg.Store == "redis" {
			w.redis = world.NewRedis()
			pc.Redis = w.redis
		}
		px, err := buildProxy(pc)
		if err == nil {
			w.px = px
			return w
		}
		// fixture trouble (loopback connect to miniredis timing out on an overloaded machine) is
		// retried on a new world; anything else is a harness error
		if w.redis != nil {
			w.redis.Close()
		}
		if attempt >= 3 || !strings.Contains(err.Error(), "redis") {
			panic(fmt.Sprintf("c10: cannot build the proxy for %s: %v", cfg, err))
		}
	}
}

func (w *c10World) close() {
	if w.redis != nil {
		w.redis.Close()
	}
}

func (w *c10World) request(j *world.Jar) *http.Request {
	r := &world.Req{Method: "GET", Target: "/", Host: c10Host, HTTPS: true}
	if ck := j.Header(c10Scheme, c10Host, "/"); ck != "" {
		r.Headers = append(r.Headers, [2]string{"Cookie", ck})
	}
	req, err := r.Parse()
	if err != nil {
		panic(fmt.Sprintf("c10: request from jar does not parse: %v", err))
	}
	return req
}

// trackStore follows the store calls of the last operation.
func (w *c10World) trackStore(label string) (setKey string) {
	if w.redis == nil {
		return ""
	}
	cs := w.redis.Calls
	for _, c := range cs[w.calls:] {
		switch c.Op {
		case "SET":
			if strings.HasSuffix(c.Key, ".lock") {
				continue
			}
			w.keyLbl[c.Key] = label
			if _, ok := w.keyIdx[c.Key]; !ok {
				w.keyIdx[c.Key] = len(w.keyIdx)
			}
			setKey = c.Key
		case "DEL":
			delete(w.keyLbl, c.Key)
		}
	}
	w.calls = len(cs)
	return
}

func (w *c10World) load(j *world.Jar) (s *sessions.SessionState, err error) {
	defer func() {
		if p := recover(); p != nil {
			s, err = nil, fmt.Errorf("PANIC in Load: %v", p)
		}
	}()
	s, err = verifSessionStore(w.px.P).Load(w.request(j))
	if err == nil && s != nil {
		// A load hands out an object of its own: what a request does to it in memory (a refresh that
		// changes tokens and creation time in place and then fails before it is saved) must not show
		// in anybody else's load. The object just loaded is defaced and the same cookies are loaded
		// once more; the second object is the one that is judged.
		s.AccessToken, s.RefreshToken, s.IDToken, s.Email, s.User = "defaced-by-the-previous-load", "defaced", "defaced", "defaced@verif.invalid", "defaced"
		s.Groups = append(s.Groups[:0:0], "defaced")
		s.CreatedAtNow()
		s.ExpiresOn = nil
		s, err = verifSessionStore(w.px.P).Load(w.request(j))
	}
	if w.redis != nil {
		w.calls = len(w.redis.Calls)
	}
	return
}

// canon renders the state: which save's which part sits in which cookie, and which save's
// session sits under which store key (keys by order of first appearance, '*' = the key the
// jar's ticket cookie points to).
func (w *c10World) canon() string {
	var parts []string
	ticketKey := ""
	for _, c := range w.jar.Cookies {
		o, ok := w.origin[c.Value]
		d := "?"
		if ok {
			d = fmt.Sprintf("%s#%d/%d", o.Label, o.Part, o.N)
			if c.Name == w.name {
				ticketKey = o.Key
			}
		}
		parts = append(parts, c.Name[commonPrefixLen(c.Name, w.name):]+"="+d)
	}
	sort.Strings(parts)
	out := strings.Join(parts, ",")
	if w.redis != nil {
		type kv struct {
			i int
			s string
		}
		var ks []kv
		for k, l := range w.keyLbl {
			s := l
			if k == ticketKey && ticketKey != "" {
				s += "*"
			}
			ks = append(ks, kv{w.keyIdx[k], s})
		}
		sort.Slice(ks, func(a, b int) bool { return ks[a].i < ks[b].i })
		// indices are renumbered so that the state does not depend on how many keys came and went
		var rs []string
		for _, k := range ks {
			rs = append(rs, k.s)
		}
		out += " | store:" + strings.Join(rs, ",")
	}
	return out
}

func commonPrefixLen(a, b string) int {
	n := 0
	for n < len(a) && n < len(b) && a[n] == b[n] {
		n++
	}
	// keep the name readable for the unsplit cookie: "" ; a part: "_0" (or the differing tail)
	return n
}

// ---------------------------------------------------------------------------------------------
// running one history

type c10V struct{ Key, Msg string }

type c10Res struct {
	Canon       string
	CanonBefore string
	Outcome     string
	Loaded      string // canonical rendering of what loaded
	V           []c10V
	Ambiguous   bool
	Parts       []int // cookies carrying a value emitted by each save
	MaxLine     int
	Stale       bool // the jar held cookies not set by the last save when it was loaded
	LayoutChg   bool // the last save used another number of cookies than the jar held before
	JarBefore   int
	HarnessErr  string
	StoreKeys   int
}

func (r *c10Res) has(key string) bool {
	for _, v := range r.V {
		if v.Key == key {
			return true
		}
	}
	return false
}

type c10Saved struct {
	Op    int
	Label string
	S     *sessions.SessionState
}

func c10Run(seed int64, k c10Case) (res *c10Res) {
	res = &c10Res{}
	w := c10NewWorld(seed, k.Cfg)
	defer w.close()
	defer func() {
		if p := recover(); p != nil {
			res.HarnessErr = fmt.Sprintf("panic while running %s: %v", k, p)
		}
	}()
	store := verifSessionStore(w.px.P)
	viol := func(key, f string, a ...any) {
		res.V = append(res.V, c10V{key, k.String() + ": " + fmt.Sprintf(f, a...)})
	}
	var saved []c10Saved
	var lastSess *sessions.SessionState
	for i, op := range k.Ops {
		last := i == len(k.Ops)-1
		if last {
			res.CanonBefore = w.canon()
			res.JarBefore = len(w.jar.Cookies)
		}
		req := w.request(w.jar)
		rec := httptest.NewRecorder()
		var err error
		var pan any
		var sess *sessions.SessionState
		func() {
			defer func() { pan = recover() }()
			if op.Kind == "save" {
				sess = c10Session(*op.Spec)
				err = store.Save(rec, req, sess)
			} else {
				err = store.Clear(rec, req)
			}
		}()
		if pan != nil {
			viol("C10/"+k.Cfg.Store+"/panic-in-"+op.Kind, "operation %d (%s) panicked: %v", i, op.label(), pan)
			res.Outcome = "panic"
			res.Canon = w.canon()
			return res
		}
		if err != nil && op.Kind == "save" {
			// the statement quantifies over every session size: a healthy store refusing to save one
			// of them contradicts it (a clear that reports an error is judged by what loads afterwards)
			viol("C10/"+k.Cfg.Store+"/save-returns-error", "operation %d (%s) returned error: %v", i, op.label(), err)
		}
		lines := rec.Header().Values("Set-Cookie")
		for _, l := range lines {
			if len(l) > res.MaxLine && last {
				res.MaxLine = len(l)
			}
			if last && len(l) > 4096 {
				viol("C10/cookie-over-4096", "operation %d (%s) emitted a Set-Cookie line of %d bytes (cookie %q...)", i, op.label(), len(l), l[:min(40, len(l))])
			}
		}
		setKey := ""
		if op.Kind == "save" {
			setKey = w.trackStore(op.Spec.label())
		} else {
			w.trackStore("")
		}
		if op.Kind == "save" {
			cs := (&http.Response{Header: rec.Header()}).Cookies()
			var vals []*http.Cookie
			for _, c := range cs {
				if c.Value != "" && c.MaxAge >= 0 {
					vals = append(vals, c)
				}
			}
			if len(cs) != len(lines) {
				viol("C10/"+k.Cfg.Store+"/unparsable-set-cookie", "operation %d (%s): %d Set-Cookie lines, %d parse", i, op.label(), len(lines), len(cs))
			}
			for pi, c := range vals {
				w.origin[c.Value] = c10Origin{Op: i, Label: op.Spec.label(), Part: pi, N: len(vals), Key: setKey}
			}
			res.Parts = append(res.Parts, len(vals))
			if last {
				res.LayoutChg = res.JarBefore != 0 && res.JarBefore != len(vals)
			}
			saved = append(saved, c10Saved{i, op.Spec.label(), sess})
			lastSess = sess
		}
		ign := len(w.jar.Ignored)
		w.jar.SetCookies(c10Scheme, c10Host, "/", rec.Header())
		if len(w.jar.Ignored) != ign {
			res.HarnessErr = fmt.Sprintf("%s: the jar refused a cookie: %v", k, w.jar.Ignored[ign:])
		}
	}
	res.Canon = w.canon()
	if w.redis != nil {
		res.StoreKeys = len(w.redis.SessionKeys())
		if res.StoreKeys != len(w.keyLbl) {
			res.HarnessErr = fmt.Sprintf("%s: store tracking out of sync: %d keys in miniredis, %d tracked", k, res.StoreKeys, len(w.keyLbl))
		}
	}
	if len(k.Ops) == 0 {
		res.Outcome = "empty"
		return res
	}

	got, lerr := w.load(w.jar)
	res.Loaded = c10Render(got)
	lastOp := k.Ops[len(k.Ops)-1]
	li := len(k.Ops) - 1

	describe := func(g *sessions.SessionState, e error) string {
		if g == nil || e != nil {
			return fmt.Sprintf("nothing loads (%v)", e)
		}
		for j := len(saved) - 1; j >= 0; j-- {
			if d, _ := c10Diff(saved[j].S, g); len(d) == 0 {
				return fmt.Sprintf("the session of operation %d (%s) loads", saved[j].Op, saved[j].Label)
			}
		}
		d, _ := c10Diff(lastSess, g)
		return fmt.Sprintf("a session loads that differs from the saved one in %v", d)
	}
	jarNames := func(j *world.Jar) string {
		var n []string
		for _, c := range j.Cookies {
			o := w.origin[c.Value]
			nm := c.Name
			if len(nm) > 24 {
				nm = nm[:8] + "…" + nm[len(nm)-12:]
			}
			n = append(n, fmt.Sprintf("%s<-op%d", nm, o.Op))
		}
		return strings.Join(n, " ")
	}

	if lastOp.Kind == "clear" {
		if got == nil || lerr != nil {
			res.Outcome = "none-after-clear"
			return res
		}
		res.Outcome = "loads-after-clear"
		trunc := false
		for _, c := range w.jar.Cookies {
			if c.Name != w.name && !strings.HasPrefix(c.Name, w.name+"_") {
				trunc = true
			}
		}
		key := "C10/" + k.Cfg.Store + "/session-loads-after-clear"
		if trunc {
			// the cookies left behind are parts whose names were shortened to fit 256 characters
			key = "C10/clear-misses-truncated-split-names"
		}
		viol(key, "after clear %s; jar still holds: %s", describe(got, lerr), jarNames(w.jar))
		return res
	}

	// last operation was save(s)
	var stale, staleUnsplit, staleParts []*world.Cookie
	for _, c := range w.jar.Cookies {
		if o, ok := w.origin[c.Value]; !ok || o.Op != li {
			stale = append(stale, c)
			if c.Name == w.name {
				staleUnsplit = append(staleUnsplit, c)
			} else {
				staleParts = append(staleParts, c)
			}
		}
	}
	res.Stale = len(stale) > 0
	diffs, amb := c10Diff(lastSess, got)
	if lerr == nil && got != nil && len(diffs) == 0 {
		res.Outcome = "loads-saved"
		if len(amb) > 0 {
			res.Ambiguous = true
			res.Outcome = "loads-saved(nil-vs-empty:" + strings.Join(amb, "+") + ")"
		}
		return res
	}
	obs := describe(got, lerr)
	res.Outcome = "FAIL:" + strings.SplitN(obs, " (", 2)[0]
	if i := strings.Index(res.Outcome, " of operation"); i > 0 {
		res.Outcome = res.Outcome[:i] + " of an earlier save loads"
	}

	loadWithout := func(drop []*world.Cookie) (*world.Jar, *sessions.SessionState, error) {
		j := w.jar.Clone()
		keep := j.Cookies[:0:0]
		for _, c := range j.Cookies {
			d := false
			for _, x := range drop {
				if x == c {
					d = true
				}
			}
			if !d {
				keep = append(keep, c)
			}
		}
		j.Cookies = keep
		g, e := w.load(j)
		return j, g, e
	}
	without := func(drop []*world.Cookie) bool {
		_, g, e := loadWithout(drop)
		d, _ := c10Diff(lastSess, g)
		return e == nil && g != nil && len(d) == 0
	}
	viewJar := w.jar
	if len(stale) > 0 {
		grow := "C10/stale-cookie-layout-after-grow"
		shrink := "C10/stale-cookie-part-after-shrink"
		msg := func(what string) string {
			return fmt.Sprintf("%s, expected the session just saved (%s, %d cookies); jar: %s; %s", obs, lastOp.Spec.label(), res.Parts[len(res.Parts)-1], jarNames(w.jar), what)
		}
		switch {
		case len(staleUnsplit) > 0 && without(staleUnsplit):
			viol(grow, "%s", msg("without the stale unsplit cookie of the earlier save the saved session loads"))
			return res
		case len(staleParts) > 0 && without(staleParts):
			viol(shrink, "%s", msg("without the stale higher-numbered part(s) of the earlier save the saved session loads"))
			return res
		case len(staleUnsplit) > 0 && len(staleParts) > 0 && without(stale):
			viol(grow, "%s", msg("without the stale unsplit cookie and the stale parts of earlier saves the saved session loads"))
			viol(shrink, "%s", msg("without the stale unsplit cookie and the stale parts of earlier saves the saved session loads"))
			return res
		}
		// stale cookies are not (the only) reason: classify what a browser holding only the
		// cookies of the last save observes, so that the key names the other root cause
		viewJar, got, lerr = loadWithout(stale)
		diffs, _ = c10Diff(lastSess, got)
		obs = describe(got, lerr) + " even when only the cookies of the last save are presented"
	}
	partNamedLikeWhole := false
	for _, c := range viewJar.Cookies {
		if o, ok := w.origin[c.Value]; ok && o.Op == li && o.N > 1 && c.Name == w.name {
			partNamedLikeWhole = true
		}
	}
	n := res.Parts[len(res.Parts)-1]
	switch {
	case partNamedLikeWhole:
		viol("C10/split-part-name-equals-cookie-name", "%s after a save into %d cookies: a part's shortened name equals the configured cookie name; jar: %s", obs, n, jarNames(viewJar))
	case got == nil || lerr != nil:
		viol("C10/"+k.Cfg.Store+"/nothing-loads-after-save", "%s after a save into %d cookie(s); jar: %s", obs, n, jarNames(viewJar))
	case strings.HasPrefix(obs, "the session of operation"):
		viol("C10/"+k.Cfg.Store+"/earlier-session-loads", "%s, expected the one just saved (%s); jar: %s", obs, lastOp.Spec.label(), jarNames(viewJar))
	default:
		sort.Strings(diffs)
		viol("C10/"+k.Cfg.Store+"/field-not-intact:"+strings.Join(diffs, "+"), "%s (saved %s into %d cookie(s))", obs, lastOp.Spec.label(), n)
	}
	return res
}

// ---------------------------------------------------------------------------------------------
// thresholds

// c10Thresholds finds, for the cookie store with this cookie name, the smallest access-token
// lengths at which a plain session needs 2, 3 and 4 cookies.
func c10Thresholds(seed int64, nameLen int, tail string) ([]int, int) {
	w := c10NewWorld(seed, c10Cfg{Store: "cookie", NameLen: nameLen, Tail: tail})
	defer w.close()
	probes := 0
	count := func(l int) int {
		probes++
		rec := httptest.NewRecorder()
		if err := verifSessionStore(w.px.P).Save(rec, w.request(world.NewJar()), c10Session(c10Spec{"plain", l})); err != nil {
			panic(err)
		}
		return len(rec.Header().Values("Set-Cookie"))
	}
	var out []int
	lo := 0
	for k := 1; k <= 3; k++ {
		// grow until more than k cookies are emitted, then bisect, then walk down to the first
		hi := lo + 512
		for count(hi) <= k {
			lo = hi
			hi += 512 + hi/2
			if hi > 200000 {
				panic("c10: no split threshold found")
			}
		}
		for hi-lo > 1 {
			m := (lo + hi) / 2
			if count(m) > k {
				hi = m
			} else {
				lo = m
			}
		}
		// the encoded length need not be strictly monotone in the token length: take the
		// smallest length with more than k cookies among the 64 below
		t := hi
		for l := hi - 1; l >= hi-64 && l >= 0; l-- {
			if count(l) > k {
				t = l
			}
		}
		out = append(out, t)
		lo = hi
	}
	return out, probes
}

// ---------------------------------------------------------------------------------------------
// the exploration

type c10Env struct {
	c       *Ctx
	th      map[string][]int
	best    map[string]int // per finding key: size of the smallest confirmed counterexample
	byCanon map[string]string
	sampled map[string]bool
}

func (e *c10Env) thresholds(nameLen int, tail string) []int {
	k := fmt.Sprintf("%d%s", nameLen, tail)
	if t, ok := e.th[k]; ok {
		return t
	}
	t, probes := c10Thresholds(e.c.Seed, nameLen, tail)
	e.c.Add("threshold_probes", int64(probes))
	e.th[k] = t
	return t
}

// exec runs one history, evaluates it and records counters / violations.
func (e *c10Env) exec(part string, k c10Case) *c10Res {
	c := e.c
	r := c10Run(c.Seed, k)
	c.Inc("traces_validated_against_impl")
	c.Inc("evaluations")
	c.Inc("part_" + part)
	if r.HarnessErr != "" {
		c.Error("%s", r.HarnessErr)
		return r
	}
	c.SetMax("max_set_cookie_bytes", int64(r.MaxLine))
	c.SetMax("max_store_keys", int64(r.StoreKeys))
	oc := r.Outcome
	if strings.HasPrefix(oc, "FAIL") || len(r.V) > 0 {
		c.Inc("outcome_fail")
	} else if strings.HasPrefix(oc, "loads-saved") {
		c.Inc("outcome_loads_saved")
	} else {
		c.Inc("outcome_" + strings.ReplaceAll(oc, "-", "_"))
	}
	c.Inc("observed:" + k.Cfg.Store + ":" + oc)
	if r.Ambiguous {
		c.Inc("ambiguous")
	}
	if r.Stale {
		c.Inc("loads_with_stale_cookies_in_jar")
	}
	if r.LayoutChg {
		c.Inc("saves_changing_the_layout")
	}
	if n := len(r.Parts); n > 0 && k.Ops[len(k.Ops)-1].Kind == "save" {
		p := r.Parts[n-1]
		if p > 5 {
			p = 5
		}
		c.Inc(fmt.Sprintf("last_save_cookies_%d", p))
	}
	if len(k.Ops) >= 2 && r.JarBefore > 0 || (len(r.Parts) > 0 && r.Parts[len(r.Parts)-1] >= 2) {
		c.Distinct("distinct_nontrivial", part[:3]+"|"+k.Cfg.String()+"|"+r.CanonBefore+"|"+k.Ops[len(k.Ops)-1].label())
	}
	// the abstraction must be a function: equal canonical states give equal observations
	ck := k.Cfg.String() + "|" + r.Canon
	sig := r.Loaded // (the verdict also depends on the last operation; what loads depends on the state only)
	if old, ok := e.byCanon[ck]; ok && old != sig {
		c.Error("state abstraction unsound: state %q observed as %q and as %q (%s)", ck, old, sig, k)
	} else if !ok && part == "bfs" {
		e.byCanon[ck] = sig
	}
	for _, v := range r.V {
		e.report(k, v)
	}
	if sk := part + "/" + k.Cfg.Store + "/" + r.Outcome; !e.sampled[sk] {
		e.sampled[sk] = true
		c.Sample(8, map[string]any{"case": k.String(), "outcome": r.Outcome, "state": r.Canon, "cookies_per_save": r.Parts})
	}
	return r
}

func (e *c10Env) report(k c10Case, v c10V) {
	c := e.c
	size := k.size()
	if b, ok := e.best[v.Key]; ok && b <= size {
		// a smaller counterexample of this key has been confirmed 5/5 already: count only
		c.Violate(v.Key, v.Msg, size, k)
		return
	}
	c.confirm(v.Key, v.Msg, size, k, func() (string, bool) {
		c.Inc("confirm_reruns")
		r := c10Run(c.Seed, k)
		if r.has(v.Key) {
			return v.Key, true
		}
		return "", false
	})
	if pv := c.Violations[v.Key]; pv != nil {
		e.best[v.Key] = pv.Size
	}
}

func c10SizeAlphabet(th []int, quick bool) []c10Spec {
	t1, t2, t3 := th[0], th[1], th[2]
	half := (t3 - t2) / 2
	if quick {
		return []c10Spec{
			{"plain", 16},
			{"plain", t1 - 1}, {"plain", t1},
			{"plain", t2 - 1}, {"plain", t2},
			{"plain", t3 - 1}, {"plain", t3},
			{"plain", t2 + half}, {"plain", t3 + half},
			{"binary", 16}, {"unicode", 16}, {"emptygroups", 16}, {"absent", 0},
			{"unicode", t2 + half},
		}
	}
	return []c10Spec{
		{"plain", 16},
		{"plain", t1 - 1}, {"plain", t1},
		{"plain", t2 - 1}, {"plain", t2},
		{"plain", t3},
		{"unicode", t2 + half}, {"plain", t3 + half},
		{"absent", 0}, {"binary", t1 + half},
	}
}

func c10Ops(specs []c10Spec) []c10Op {
	var ops []c10Op
	for i := range specs {
		ops = append(ops, c10Op{Kind: "save", Spec: &specs[i]})
	}
	return append(ops, c10Op{Kind: "clear"})
}

// bfs explores all histories of at most `depth` operations, expanding every canonical state once.
func (e *c10Env) bfs(cfg c10Cfg, ops []c10Op, depth int, dedup bool) (seen map[string]bool) {
	c := e.c
	seen = map[string]bool{"": true}
	fresh := map[string]string{} // label -> what loads after that single save from a fresh jar
	frontier := [][]c10Op{nil}
	for d := 1; d <= depth && len(frontier) > 0; d++ {
		var next [][]c10Op
		for _, h := range frontier {
			for _, op := range ops {
				if c.Expired() {
					return
				}
				h2 := append(append([]c10Op{}, h...), op)
				k := c10Case{Cfg: cfg, Ops: h2}
				r := e.exec("bfs", k)
				c.Inc("transitions")
				c.SetMax("max_depth", int64(d))
				if r.HarnessErr != "" {
					continue
				}
				if op.Kind == "save" && strings.HasPrefix(r.Outcome, "loads-saved") {
					if d == 1 {
						fresh[op.Spec.label()] = r.Loaded
					} else if f, ok := fresh[op.Spec.label()]; ok && f != r.Loaded {
						e.report(k, c10V{"C10/" + cfg.Store + "/differs-from-save-into-fresh-jar", k.String() + ": what loads differs from what loads after the same save into a fresh jar"})
					} else if ok {
						c.Inc("differential_agreements")
					}
				}
				if !seen[r.Canon] || !dedup {
					if !seen[r.Canon] {
						seen[r.Canon] = true
						if dedup {
							c.Inc("states")
						}
					}
					next = append(next, h2)
				} else {
					c.Inc("transitions_into_known_state")
				}
			}
		}
		frontier = next
	}
	return seen
}

// c10Plan is one configuration and how deeply it is explored.
type c10Plan struct {
	Cfg     c10Cfg
	Depth   int  // BFS depth over the 14-size alphabet
	Deep    bool // thorough: additionally depth 4 over the 10-size alphabet
	Windows int  // 0 none, 1 singles + pairs with the first save within +-4 of a threshold, 2 full product
}

func c10Plans(quick bool) []c10Plan {
	var out []c10Plan
	lens := []int{13, 100, 250, 254, 256}
	if !quick {
		lens = []int{13, 1, 100, 250, 254, 255, 256}
	}
	for _, st := range []string{"cookie", "redis"} {
		for _, n := range lens {
			w := 2
			if quick && n != 13 {
				w = 1
			}
			out = append(out, c10Plan{Cfg: c10Cfg{Store: st, NameLen: n}, Depth: 3, Deep: !quick, Windows: w})
		}
	}
	// names whose split-part names are shortened to fit 256 characters: 255 characters, and 256
	// characters ending in "_0" (the shortened name of part 0 is then the cookie name itself)
	if quick {
		out = append(out,
			c10Plan{Cfg: c10Cfg{Store: "cookie", NameLen: 255}, Depth: 2},
			c10Plan{Cfg: c10Cfg{Store: "cookie", NameLen: 256, Tail: "_0"}, Depth: 2})
	} else {
		out = append(out,
			c10Plan{Cfg: c10Cfg{Store: "cookie", NameLen: 256, Tail: "_0"}, Depth: 3, Deep: true, Windows: 1},
			c10Plan{Cfg: c10Cfg{Store: "redis", NameLen: 256, Tail: "_0"}, Depth: 3})
	}
	return out
}

func c10Windows(th []int) (ls []int, which []int) {
	for k, t := range th {
		for l := t - c10Window; l <= t+c10Window; l++ {
			ls = append(ls, l)
			which = append(which, k)
		}
	}
	return
}

func c10Main(c *Ctx) {
	{
		world.NewIdP()
		up := world.NewUpstream("conc")
		c10Concurrent(c, up)
		up.Close()
	}
	e := &c10Env{c: c, th: map[string][]int{}, best: map[string]int{}, byCanon: map[string]string{}, sampled: map[string]bool{}}
	plans := c10Plans(c.Quick())
	thInfo := map[string][]int{}
	for _, p := range plans {
		thInfo[fmt.Sprintf("name%d%s", p.Cfg.NameLen, p.Cfg.Tail)] = e.thresholds(p.Cfg.NameLen, p.Cfg.Tail)
	}
	c.Info["thresholds_token_len"] = thInfo
	c.Info["alphabet"] = map[string]any{
		"configs": len(plans), "window": c10Window,
		"bfs_ops_14_sizes": len(c10Ops(c10SizeAlphabet([]int{1, 2, 3}, true))), "bfs_ops_10_sizes": len(c10Ops(c10SizeAlphabet([]int{1, 2, 3}, false))),
	}

	// work units, dealt to the shards: the heavy ones (BFS per configuration) first
	unit := 0
	mine := func() bool { unit++; return c.Mine(unit - 1) }

	for _, p := range plans {
		th := e.thresholds(p.Cfg.NameLen, p.Cfg.Tail)
		if mine() {
			e.byCanon = map[string]string{}
			e.bfs(p.Cfg, c10Ops(c10SizeAlphabet(th, true)), p.Depth, true)
		}
		if p.Deep {
			if mine() {
				e.byCanon = map[string]string{}
				e.bfs(p.Cfg, c10Ops(c10SizeAlphabet(th, false)), 4, true)
			}
		}
	}
	if !c.Quick() {
		// validate the state abstraction: the same search without de-duplication must reach the
		// same set of states, and equal states must load the same (checked in exec through byCanon)
		for _, cfg := range []c10Cfg{{Store: "cookie", NameLen: 13}, {Store: "redis", NameLen: 13}} {
			if mine() {
				th := e.thresholds(cfg.NameLen, cfg.Tail)
				e.byCanon = map[string]string{}
				a := e.bfs(cfg, c10Ops(c10SizeAlphabet(th, true)), 3, true)
				b := e.bfs(cfg, c10Ops(c10SizeAlphabet(th, true)), 3, false)
				for s := range b {
					if !a[s] {
						c.Error("search without de-duplication reached state %q, the de-duplicated search (%d states) did not", s, len(a))
						break
					}
				}
				if len(a) != len(b) {
					c.Error("search with de-duplication reached %d states, without %d", len(a), len(b))
				}
				c.Inc("abstraction_validated_configs")
			}
		}
	}
	e.byCanon = map[string]string{}

	// large sessions: well beyond the thresholds the windows look at — ten and more parts (two-digit
	// part numbers), encodings beyond 64 KiB that compress into a few cookies — alone and around a
	// small session saved in the same browser
	for _, st := range []string{"cookie", "redis"} {
		cfg := c10Cfg{Store: st, NameLen: 13}
		large := []c10Spec{{"plain", 20000}, {"plain", 26000}, {"plain", 28600}, {"plain", 30000}, {"plain", 33000}, {"plain", 45000},
			{"manygroups", 500}, {"manygroups", 1200}, {"manygroups", 2500}, {"repetitive", 70000}, {"repetitive", 200000}, {"unicode", 30000}}
		if !c.Quick() {
			large = append(large, c10Spec{"plain", 60000}, c10Spec{"plain", 100000}, c10Spec{"manygroups", 6000}, c10Spec{"binary", 40000})
		}
		small := c10Spec{"plain", 16}
		for i := range large {
			if !mine() {
				continue
			}
			if c.Expired() {
				return
			}
			lg := large[i]
			for _, ops := range [][]c10Op{
				{{Kind: "save", Spec: &lg}},
				{{Kind: "save", Spec: &small}, {Kind: "save", Spec: &lg}},
				{{Kind: "save", Spec: &lg}, {Kind: "save", Spec: &small}},
				{{Kind: "save", Spec: &lg}, {Kind: "clear"}},
			} {
				r := e.exec("large", c10Case{Cfg: cfg, Ops: ops})
				if len(r.Parts) > 0 {
					c.SetMax("large_max_cookies_of_one_session", int64(r.Parts[len(r.Parts)-1]))
				}
			}
		}
	}

	// windows around the thresholds: singles for both stores, ordered pairs for the cookie store
	for _, p := range plans {
		if p.Windows == 0 {
			continue
		}
		cfg := p.Cfg
		th := e.thresholds(cfg.NameLen, cfg.Tail)
		ls, which := c10Windows(th)
		for bi, b := range ls {
			if !mine() {
				continue
			}
			if c.Expired() {
				return
			}
			sb := c10Spec{"plain", b}
			r := e.exec("window_single", c10Case{Cfg: cfg, Ops: []c10Op{{Kind: "save", Spec: &sb}}})
			if len(r.Parts) == 1 && cfg.Store == "cookie" {
				side := "below"
				if r.Parts[0] > which[bi]+1 {
					side = "above"
				}
				c.Inc(fmt.Sprintf("window_t%d_%s", which[bi]+1, side))
			}
			c.Distinct("window_states", cfg.String()+"|"+r.Canon)
			if cfg.Store != "cookie" {
				continue
			}
			for ai, a := range ls {
				if p.Windows < 2 {
					if d := a - th[which[ai]]; d < -4 || d > 4 {
						continue
					}
				}
				if c.Expired() {
					return
				}
				sa := c10Spec{"plain", a}
				r := e.exec("window_pair", c10Case{Cfg: cfg, Ops: []c10Op{{Kind: "save", Spec: &sa}, {Kind: "save", Spec: &sb}}})
				c.Distinct("window_states", cfg.String()+"|"+r.Canon)
			}
		}
	}
}

func init() {
	register(&checkDef{
		id:    "C10",
		level: "model_checking",
		rule:  "breadth-first search over histories of save(s)/clear on the real session store of a proxy built through the configuration path (cookie store and Redis store x cookie-name lengths), every history replayed on a fresh world with an RFC 6265 jar carried across steps, states canonicalised (cookie slot -> which save's which part; store key -> which save's session) and de-duplicated, oracle after every history; plus every token length within +-24 of the first three split thresholds (found by search) as single saves and as ordered pairs; non-trivial = distinct (configuration, state before, operation) in which the jar already held a session cookie, or a save needing at least 2 cookies",
		assumptions: []string{
			"equality: all exported SessionState fields except Clock and Lock, times by Equal; nil vs empty slices count as ambiguous (msgpack omitempty cannot distinguish them)",
			"the saved session is the value after Save returned (Save stamps CreatedAt when it is unset)",
			"CreatedAt lies within the cookie validity window (lifetime is C09's subject)",
			"sizes are driven by an incompressible access token (base64 of a SHA-256 counter stream); the other fields are fixed per content variant",
			"Redis is miniredis without faults (C13 covers faults); orphaned store entries are counted, not alarmed",
		},
		shards: func(tier string) int { return 16 },
		run:    c10Main,
		post: func(c *Ctx) {
			need := []string{"states", "transitions", "outcome_loads_saved", "outcome_none_after_clear", "ambiguous",
				"last_save_cookies_1", "last_save_cookies_2", "last_save_cookies_3", "last_save_cookies_4",
				"window_t1_below", "window_t1_above", "window_t2_below", "window_t2_above", "window_t3_below", "window_t3_above",
				"saves_changing_the_layout", "differential_agreements", "part_bfs", "part_window_single", "part_window_pair", "part_large", "distinct_nontrivial"}
			for _, k := range need {
				if c.Counters[k] == 0 {
					c.Error("vacuous: counter %s is 0", k)
				}
			}
			if c.Max["max_set_cookie_bytes"] < 3990 {
				c.Error("vacuous: the largest Set-Cookie line seen has %d bytes, the split limit was never approached", c.Max["max_set_cookie_bytes"])
			}
			if !c.Quick() && c.Counters["abstraction_validated_configs"] < 2 {
				c.Error("state abstraction was not validated")
			}
		},
		finish: func(c *Ctx) {
			n := int64(0)
			obs := map[string]int64{}
			for k, v := range c.Counters {
				if strings.HasPrefix(k, "observed:") {
					n++
					obs[strings.TrimPrefix(k, "observed:")] = v
					delete(c.Counters, k)
				}
			}
			c.Counters["distinct_outcomes"] = n
			c.Info["observed_outcomes"] = obs
		},
		replay: func(c *Ctx, raw json.RawMessage) string {
			var k c10Case
			if err := json.Unmarshal(raw, &k); err != nil {
				c.Error("bad replay case: %v", err)
				return err.Error()
			}
			r := c10Run(c.Seed, k)
			if r.HarnessErr != "" {
				c.Error("%s", r.HarnessErr)
			}
			for _, v := range r.V {
				c.Violate(v.Key, v.Msg, k.size(), k)
			}
			return fmt.Sprintf("%s -> %s; state %s; cookies per save %v", k, r.Outcome, r.Canon, r.Parts)
		},
	})
}
