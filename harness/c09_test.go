//go:build verif

package main

// C09 — sessions are never honoured past the configured lifetime (SEQ, model checking).
//
// Breadth-first search over operation histories. A state is reached by replaying its history on a
// fresh world (fresh proxy, jar, identity provider, Redis; virtual clock at Epoch; deterministic
// randomness) through the real handlers. Operations after the initial login:
//
//	req            the browser requests a protected page with whatever its RFC 6265 jar holds
//	adv(d)         the virtual clock moves forward by d (d from the threshold-derived set)
//	adv(-d)        "setback": the clock moves back once, so that issued credentials are stamped
//	               in the future
//	old / new      the oldest / the newest credential the browser ever received is presented by
//	               hand, bypassing the jar (a browser that ignores Max-Age)
//
// The oracle is the lifetime model of DESIGN.md Appendix B on the virtual clock, written from the
// property statement: every credential has an issue time T (time of the login or of the
// provider-granted refresh that produced it; a cookie re-issued without such an event inherits
// the T of the credential it was derived from).

import (
	"crypto/sha256"
	"encoding/base64"
	"encoding/json"
	"fmt"
	"net/http"
	"os"
	"path/filepath"
	"regexp"
	"runtime/debug"
	"sort"
	"strconv"
	"strings"
	"time"

	"github.com/oauth2-proxy/oauth2-proxy/v7/pkg/apis/sessions"
	"github.com/oauth2-proxy/oauth2-proxy/v7/pkg/encryption"
	cookiestore "github.com/oauth2-proxy/oauth2-proxy/v7/pkg/sessions/cookie"
	"github.com/oauth2-proxy/oauth2-proxy/v7/verifx/world"
)

const (
	c09Host     = "app.example.com"
	c09Page     = "/page"
	c09FutureMs = 5 * 60 * 1000 // the five-minute rule
	c09LongTTL  = 24 * 3600     // access-token lifetime far beyond every cookie lifetime probed
	c09ShortTTL = 45            // access-token lifetime far below every threshold probed
)

// ---------------------------------------------------------------------------------------------
// configurations, operations, alphabets

type c09Cfg struct {
	Expire     int  `json:"cookie_expire_s"`
	Refresh    int  `json:"cookie_refresh_s"`
	Redis      bool `json:"redis"`
	IdPRefresh bool `json:"idp_refresh_tokens"`
	TokTTL     int  `json:"access_token_ttl_s"`
	Big        bool `json:"session_split_over_several_cookies,omitempty"`
	RefreshErr bool `json:"provider_refresh_grant_fails,omitempty"`
	// ExpireNS: a cookie-expire below one second, in nanoseconds (Expire is 0 then) — what a bare
	// number in a configuration file amounts to
	ExpireNS int `json:"cookie_expire_ns,omitempty"`
	// Form: the session is created by the htpasswd sign-in form instead of the provider (c09_more_test.go)
	Form bool `json:"htpasswd_form_login,omitempty"`
	// Provider: "" = OIDC; "keycloak" = a provider without refresh whose re-validation is a call to
	// its validation endpoint (c09_more_test.go)
	Provider string `json:"provider,omitempty"`
	// Tentative: cookie-refresh is not below cookie-expire; explored only if validation admits it
	Tentative bool `json:"refresh_not_below_expire,omitempty"`
	// IatSkew: the provider's clock differs from the proxy's: every ID token (login and refresh)
	// carries iat / auth_time that many seconds away from the proxy's time (c09_more_test.go)
	IatSkew int `json:"id_token_iat_skew_s,omitempty"`
	// CSRFExpire: --cookie-csrf-expire in seconds (0: flag not given)
	CSRFExpire int `json:"cookie_csrf_expire_s,omitempty"`
}

func (g c09Cfg) store() string {
	if g.Redis {
		return "redis-store"
	}
	return "cookie-store"
}

func (g c09Cfg) String() string {
	big := ""
	if g.Big {
		big = " split-session"
	}
	if g.RefreshErr {
		big += " refresh-grant-fails"
	}
	if g.ExpireNS > 0 {
		big += fmt.Sprintf(" expire=%dns", g.ExpireNS)
	}
	big += g.moreString()
	return fmt.Sprintf("expire=%ds refresh=%ds %s idp-refresh=%v token-ttl=%ds%s", g.Expire, g.Refresh, g.store(), g.IdPRefresh, g.TokTTL, big)
}

type c09Op struct {
	K string `json:"op"`           // adv | req | old | new
	D int64  `json:"ms,omitempty"` // adv: milliseconds (negative = setback)
}

func (o c09Op) String() string {
	if o.K == "adv" {
		return fmt.Sprintf("adv(%gs)", float64(o.D)/1000)
	}
	return o.K
}

func c09Hist(h []c09Op) string {
	s := []string{"login"}
	for _, o := range h {
		s = append(s, o.String())
	}
	return strings.Join(s, " ")
}

func c09Configs(quick bool) []c09Cfg {
	var out []c09Cfg
	for _, er := range [][2]int{{600, 0}, {600, 120}, {3600, 3540}, {0, 0}} {
		for _, redis := range []bool{false, true} {
			for _, ir := range []bool{true, false} {
				out = append(out, c09Cfg{Expire: er[0], Refresh: er[1], Redis: redis, IdPRefresh: ir, TokTTL: c09LongTTL})
			}
		}
	}
	// token expiry below every threshold (the access token is expired at every probe): the
	// cookie lifetime must still be counted from issue / last refresh. Margins of minutes, since
	// the token's expiry instant is computed by a dependency on the real clock (DESIGN §3.3).
	for _, redis := range []bool{false, true} {
		for _, ir := range []bool{true, false} {
			out = append(out, c09Cfg{Expire: 600, Refresh: 120, Redis: redis, IdPRefresh: ir, TokTTL: c09ShortTTL})
		}
	}
	// a session that needs several cookies: every part is a session cookie with its own Max-Age
	out = append(out, c09Cfg{Expire: 600, Refresh: 120, IdPRefresh: true, TokTTL: c09LongTTL, Big: true})
	// a provider whose refresh grant fails (503) while the session still validates: the session is kept,
	// and its lifetime still counts from the login
	for _, redis := range []bool{false, true} {
		out = append(out, c09Cfg{Expire: 600, Refresh: 120, Redis: redis, IdPRefresh: true, TokTTL: c09LongTTL, RefreshErr: true})
	}
	// a lifetime below the resolution of the time stamp (3600ns: "cookie_expire = 3600" in a file): whatever
	// is older than that is refused — a lifetime that small is not "no lifetime"
	for _, redis := range []bool{false, true} {
		out = append(out, c09Cfg{ExpireNS: 3600, Redis: redis, IdPRefresh: true, TokTTL: c09LongTTL})
	}
	// sessions of the htpasswd sign-in form, a provider that re-validates by a call and cannot refresh,
	// cookie-refresh not below cookie-expire
	out = append(out, c09MoreConfigs(quick)...)
	return out
}

// c09Alphabet derives the operation alphabet from the configuration, simplest first.
func c09Alphabet(g c09Cfg, quick bool) []c09Op {
	seen := map[int64]bool{}
	var adv []int64
	add := func(ms int64) {
		if ms > 0 && !seen[ms] {
			seen[ms] = true
			adv = append(adv, ms)
		}
	}
	e, r := int64(g.Expire)*1000, int64(g.Refresh)*1000
	add(500)
	add(1000)
	if r > 0 {
		add(r - 1000)
		add(r)
		add(r + 1000)
	}
	if e > 0 {
		if r > 0 {
			add(e - r)
		}
		add(e - 1000)
		add(e)
		add(e + 1000)
	} else {
		add(600 * 1000)
		add(30 * 24 * 3600 * 1000)
	}
	sort.Slice(adv, func(a, b int) bool { return adv[a] < adv[b] })
	ops := []c09Op{{K: "req"}}
	for _, d := range adv {
		ops = append(ops, c09Op{K: "adv", D: d})
	}
	ops = append(ops, c09Op{K: "adv", D: -(c09FutureMs - 1000)})
	if !quick {
		ops = append(ops, c09Op{K: "adv", D: -c09FutureMs})
	}
	ops = append(ops, c09Op{K: "adv", D: -(c09FutureMs + 1000)})
	ops = append(ops, c09Op{K: "old"}, c09Op{K: "new"})
	return ops
}

// c09Node is a frontier entry: a history plus what is needed to enumerate its successors
// without executing it again.
type c09Node struct {
	Hist     []c09Op
	NCreds   int
	JarEmpty bool
}

// c09Trailing is the value of the positive advance the history ends in (0 if it does not).
func c09Trailing(h []c09Op) int64 {
	if n := len(h); n > 0 && h[n-1].K == "adv" && h[n-1].D > 0 {
		return h[n-1].D
	}
	return 0
}

func c09Offset(h []c09Op) (off int64, setback bool) {
	for _, o := range h {
		if o.K == "adv" {
			off += o.D
			if o.D < 0 {
				setback = true
			}
		}
	}
	return
}

// c09Allowed enumerates the operations applicable after a history. Symmetry reduction stated in
// the evidence: two consecutive forward advances commute exactly (nothing runs between them), so
// only non-decreasing runs are generated; the value of the trailing advance is part of the
// state key, so that equal keys have equal successor sets. At most one setback per history, never
// below Epoch-5min-2s.
func c09Allowed(alpha []c09Op, n *c09Node, last bool) []c09Op {
	trail := c09Trailing(n.Hist)
	off, sb := c09Offset(n.Hist)
	var out []c09Op
	for _, o := range alpha {
		switch {
		case o.K == "adv" && last:
			// a clock move as the last operation of a history of maximal depth observes nothing
			continue
		case o.K == "req" && n.JarEmpty && len(n.Hist) >= 2:
			// the jar is empty: no credential would be presented (kept near the root as a sanity case)
			continue
		case o.K == "adv" && o.D > 0:
			if trail > 0 && o.D < trail {
				continue
			}
		case o.K == "adv" && o.D < 0:
			if sb || off+o.D < -(c09FutureMs+2000) {
				continue
			}
		case o.K == "new":
			if n.NCreds < 2 {
				continue
			}
		}
		out = append(out, o)
	}
	return out
}

// ---------------------------------------------------------------------------------------------
// one world

// c09Cred is one credential the browser ever received: the Cookie header text that presents it
// plus the model's knowledge about it.
type c09Cred struct {
	Hdr    string
	T      int64 // model: issue time, ms from Epoch
	T0     int64 // model: issue time under the reading in which a re-validation is no refresh (== T otherwise)
	TokExp int64 // model: expiry of the access token issued with it, ms from Epoch
	Legit  bool  // issued by a login or a provider-granted refresh
	// ByRefusal: set by a response that refused the request (the refusal also told the browser to
	// drop it; only a replay by hand presents it)
	ByRefusal bool
	Stamp     string
	MaxAge    int
	Set       int64 // when the response that carried it was given
}

type c09Fail struct {
	Key string `json:"key"`
	Msg string `json:"msg"`
}

// c09Res is the observation and verdict of one step.
type c09Res struct {
	Op          string    `json:"op"`
	NowMs       int64     `json:"now_ms"`
	Presented   int       `json:"presented"` // index of the credential presented; -1 none; -2 cookies that are no remembered credential
	Served      bool      `json:"served"`
	Status      int       `json:"status"`
	Issued      int       `json:"issued"` // index of the credential the response set; -1 none
	Grants      int       `json:"refresh_grants"`
	Vals        int       `json:"provider_validations,omitempty"` // calls to the validation endpoint answered 200
	TokenFail   int       `json:"failed_provider_calls"`
	Class       string    `json:"class"`
	Detail      string    `json:"detail,omitempty"`
	Fails       []c09Fail `json:"fails,omitempty"`
	ntKey       string
	maxAges     int
	ttls        int
	csrfAges    int
	oldDied     bool
	jitter      bool
	reval       bool // the response re-issued the credential after a provider re-validation (no grant)
	revalCred   bool // the credential presented was issued by such a re-validation
	formStale   bool // form session past the refresh period: the provider has nothing to validate it by
	legacyStale bool // no cookie lifetime, no expiry from the provider, past the refresh period
}

func (r *c09Res) String() string {
	s := fmt.Sprintf("%s@%gs", r.Op, float64(r.NowMs)/1000)
	if r.Class != "advance" {
		v := ""
		if r.Vals > 0 {
			v = fmt.Sprintf(" validations=%d", r.Vals)
		}
		s += fmt.Sprintf("[cred=%d served=%v status=%d issued=%d grants=%d%s %s%s]", r.Presented, r.Served, r.Status, r.Issued, r.Grants, v, r.Class, r.Detail)
	}
	for _, f := range r.Fails {
		s += " FAIL:" + f.Key
	}
	return s
}

type c09World struct {
	g       c09Cfg
	idp     *world.IdP
	px      *Proxy
	b       *Browser
	name    string
	nameRE  *regexp.Regexp
	creds   []*c09Cred
	secrets map[string][]byte // Redis: ticket id -> ticket secret, from the credentials seen
	// model of the server-side session (Redis store only)
	sessT      int64 // last login / provider-granted refresh / re-validation that re-issued the credential
	sessT0     int64 // last login / provider-granted refresh (the reading in which a re-validation is no refresh)
	sessTokExp int64
	fwd        int64 // forward time the store has seen since then (store time never runs back)
	ended      bool  // a presented credential was refused: the server may have dropped the entry
}

func c09NowMs() int64 { return world.Offset().Milliseconds() }

// c09Env is what survives from one world to the next inside a process: only the Redis server
// process (emptied, call log and hooks cleared, clock reset for every world). It is reached over a
// unix-domain socket, and the upstream is the proxy's own static upstream, so that the tens of
// thousands of worlds of a run consume no TCP ports.
type c09Env struct {
	seed     int64
	redis    *world.Redis
	htpasswd string // the htpasswd file of the form configurations (written once per process)
}

func (e *c09Env) close() {
	if e.redis != nil {
		e.redis.Close()
		e.redis = nil
	}
}

func c09NewWorld(g c09Cfg, e *c09Env) *c09World {
	w, err := c09TryWorld(g, e)
	if err != nil {
		panic(fmt.Sprintf("c09: %s: %v", g, err))
	}
	return w
}

// c09TryWorld returns an error for a configuration validation rejects.
func c09TryWorld(g c09Cfg, e *c09Env) (*c09World, error) {
	world.ClearAdvanceHooks()
	world.ResetClock()
	world.SeedRandom(e.seed, 0)
	idp := world.NewIdP()
	idp.NoRefreshToken = !g.IdPRefresh
	idp.AccessTTL = time.Duration(g.TokTTL) * time.Second
	if g.Big {
		idp.Users["alice"].Groups = c18BigGroups()
	}
	if g.RefreshErr {
		idp.Intercept = func(c *world.Call, _ *http.Request) *world.Fault {
			if c.Endpoint != "token" || c.Grant != "refresh_token" {
				return nil
			}
			return &world.Fault{Kind: "503", Respond: func(req *http.Request, _ func() *http.Response) (*http.Response, error) {
				return world.RawResponse(req, 503, "application/json", []byte(`{"error":"temporarily_unavailable"}`)), nil
			}}
		}
	}
	cfg := &ProxyCfg{Flags: append(g.providerFlags("static://200"), "--email-domain=*", "--cookie-secure=false",
		fmt.Sprintf("--cookie-expire=%ds", g.Expire), fmt.Sprintf("--cookie-refresh=%ds", g.Refresh))}
	g.moreWorld(idp, cfg)
	if g.Form {
		cfg.Flags = append(cfg.Flags, "--htpasswd-file="+e.htpasswdFile(), "--display-htpasswd-form=true")
	}
	if g.ExpireNS > 0 {
		cfg.Flags = append(cfg.Flags, fmt.Sprintf("--cookie-expire=%dns", g.ExpireNS))
	}
	if g.Redis {
		if e.redis == nil {
			e.redis = world.NewRedis()
			if err := e.redis.ListenUnix(filepath.Join(scratch(), fmt.Sprintf("c09-redis-%d.sock", os.Getpid()))); err != nil {
				panic(err)
			}
		} else {
			e.redis.Reset()
		}
		cfg.Redis = e.redis
	}
	px, err := buildProxy(cfg)
	if err != nil {
		return nil, err
	}
	w := &c09World{g: g, idp: idp, px: px, b: newBrowser(px, "http", c09Host), secrets: map[string][]byte{}}
	w.name = px.Opts.Cookie.Name
	w.nameRE = regexp.MustCompile("^" + regexp.QuoteMeta(w.name) + `(_\d+)?$`)
	return w, nil
}

func (w *c09World) close() {
	if w.px.Redis != nil {
		w.px.Redis.CloseClients()
	}
	world.ClearAdvanceHooks()
}

func (w *c09World) find(hdr string) int {
	for i, c := range w.creds {
		if c.Hdr == hdr {
			return i
		}
	}
	return -2
}

func (w *c09World) fail(r *c09Res, key, format string, a ...any) {
	r.Fails = append(r.Fails, c09Fail{Key: "C09/" + w.g.keyPrefix() + key + ":" + w.g.store(), Msg: fmt.Sprintf(format, a...)})
}

// login runs the authorization-code flow in the browser (or fills in the sign-in form).
func (w *c09World) login() (*c09Res, error) {
	res := &c09Res{Op: "login", NowMs: c09NowMs(), Presented: -1, Issued: -1, Class: "login"}
	r0 := 0
	var resp *world.Resp
	var err error
	if w.g.Form {
		resp = w.formLogin()
	} else {
		// start -> provider -> callback, as Browser.Login does; the start response carries the CSRF cookie
		var start *world.Resp
		var loginURL, cb string
		if start, loginURL, err = w.b.Start(c09Page); err == nil {
			w.observeCSRF(res, start)
			if cb, _, err = w.idp.Authorize(loginURL, "alice"); err == nil {
				resp = w.b.Callback(cb)
			}
		}
	}
	if err != nil {
		return res, err
	}
	if resp.Status != 302 {
		return res, fmt.Errorf("callback answered %d", resp.Status)
	}
	res.Status = resp.Status
	w.observe(res, resp, r0, true)
	if res.Issued < 0 {
		return res, fmt.Errorf("callback set no session cookie")
	}
	return res, nil
}

func (w *c09World) advance(o c09Op) *c09Res {
	world.Advance(time.Duration(o.D) * time.Millisecond)
	if o.D > 0 {
		w.fwd += o.D
	}
	w.b.Jar.Expire() // Appendix D: the jar drops expired entries when the clock advances
	return &c09Res{Op: o.String(), NowMs: c09NowMs(), Presented: -1, Issued: -1, Class: "advance"}
}

// request performs req / old / new and judges the answer.
func (w *c09World) request(o c09Op) *c09Res {
	res := &c09Res{Op: o.K, NowMs: c09NowMs(), Presented: -1, Issued: -1}
	var hdr string
	switch o.K {
	case "req":
		// identified by the session cookies the jar sends (other cookies do not make a credential)
		var own []string
		for _, ck := range w.b.Jar.For("http", c09Host, c09Page) {
			if w.nameRE.MatchString(ck.Name) {
				own = append(own, ck.Name+"="+ck.Value)
			}
		}
		hdr = strings.Join(own, "; ")
	case "old":
		hdr = w.creds[0].Hdr
	case "new":
		hdr = w.creds[len(w.creds)-1].Hdr
	default:
		panic("c09: unknown op " + o.K)
	}
	if hdr != "" {
		res.Presented = w.find(hdr)
	}
	g0, c0, r0 := w.idp.Grants, w.idp.NumCalls(), 0
	if w.px.Redis != nil {
		r0 = w.px.Redis.NumCalls()
	}
	var resp *world.Resp
	if o.K == "req" {
		resp = w.b.Get(c09Page)
	} else {
		// by hand, bypassing the jar; the answer's cookies are remembered but not given to the jar
		resp = world.Serve(w.px.H, &world.Req{Method: "GET", Target: c09Page, Host: c09Host, Headers: [][2]string{{"Cookie", hdr}}})
	}
	// the proxy's static upstream answers 200 "Authenticated" to whatever passes authentication
	res.Served = resp.Status == 200 && strings.TrimSpace(resp.Body) == "Authenticated"
	res.Status = resp.Status
	res.Grants = w.idp.Grants - g0
	for _, c := range w.idp.Calls[c0:] {
		if c.Endpoint == "token" && c.Status != 200 {
			res.TokenFail++
		}
		if c.Endpoint == "validate" {
			if c.Status == 200 {
				res.Vals++
			} else {
				res.TokenFail++
			}
		}
	}
	if resp.Panic != nil {
		w.fail(res, "panic@"+resp.PanicSite(), "request handling panicked: %v", resp.Panic)
	}
	w.judge(res, o)
	w.observe(res, resp, r0, false)
	if w.g.Redis && res.Presented >= 0 && !res.Served {
		w.ended = true
	}
	return res
}

// judge applies the lifetime model to the served / refused decision (model state as it was
// before the request).
func (w *c09World) judge(res *c09Res, o c09Op) {
	now, E := res.NowMs, int64(w.g.Expire)*1000
	if w.g.ExpireNS > 0 {
		E = 1 // (ms) every age the clock can produce is past it, except the instant of issue
	}
	switch {
	case res.Presented == -1:
		res.Class = "no-credential"
		if res.Served {
			w.fail(res, "served-without-credential", "a request without any session cookie was served")
		}
		return
	case res.Presented < 0:
		res.Class = "unknown-credential"
		return
	}
	c := w.creds[res.Presented]
	expired := func(t int64) bool { return E > 0 && now-t >= E }
	future := func(t int64) bool { return E > 0 && t-now >= c09FutureMs+1000 }
	alive := func(t int64) bool { return (E == 0 || now-t <= E-1000) && t-now <= c09FutureMs-1000 }

	// reading 1: the credential's own issue time. A credential re-issued after a provider
	// re-validation (no grant) has two of them: the moment the proxy issued it (T: the re-validation
	// counts as a refresh) and the issue time it inherited (T0 <= T: it does not). Refusal is demanded
	// only where every reading refuses (expiry by T, the future rule by T0), service only where every
	// reading serves.
	rejExp, rejFut, serve := expired(c.T), future(c.T0), alive(c.T) && alive(c.T0)
	if c.Set != c.T {
		// re-issued without an event that starts a lifetime: the moment it was set is a third
		// candidate for what its stamp says
		serve = serve && alive(c.Set)
	}
	tokExp := c.TokExp
	detail := fmt.Sprintf(" age=%gs", float64(now-c.T)/1000)
	readingsDiffer := expired(c.T) != expired(c.T0) || future(c.T) != future(c.T0)
	res.revalCred = c.T != c.T0
	if c.T != c.T0 {
		detail += fmt.Sprintf(" age-without-revalidations=%gs", float64(now-c.T0)/1000)
	}
	stale := c.T0
	if w.g.Redis {
		// reading 2 (server-side store): the ticket cookie only names the stored session, whose
		// lifetime restarted at its last refresh. An alarm needs both readings to agree.
		if expired(w.sessT) != rejExp || future(w.sessT0) != rejFut || expired(w.sessT) != expired(w.sessT0) || future(w.sessT) != future(w.sessT0) {
			readingsDiffer = true
		}
		rejExp, rejFut = rejExp && expired(w.sessT), rejFut && future(w.sessT0)
		if (expired(c.T) || future(c.T)) && !(expired(w.sessT) || future(w.sessT)) {
			// a pre-refresh ticket cookie past its own deadline while the refreshed session lives
			res.oldDied = !res.Served
		}
		serve = serve && alive(w.sessT) && alive(w.sessT0) && !w.ended && (E == 0 || w.fwd <= E-1000)
		tokExp = w.sessTokExp
		detail += fmt.Sprintf(" session-age=%gs", float64(now-w.sessT)/1000)
		if w.sessT != w.sessT0 {
			detail += fmt.Sprintf(" session-age-without-revalidations=%gs", float64(now-w.sessT0)/1000)
		}
		stale = w.sessT0
	} else if (rejExp || rejFut) && res.Presented < len(w.creds)-1 {
		res.oldDied = !res.Served
	}
	// a session of the sign-in form holds nothing a provider could refresh or validate it by: once
	// the refresh period has passed, whether it is kept is not a matter of this property
	res.formStale = w.g.Form && w.g.Refresh > 0 && now-stale > int64(w.g.Refresh)*1000
	// a provider whose token answer names no expiry: what the session's own expiry is without a
	// cookie lifetime to borrow is not specified; it matters once the session is due for re-validation
	res.legacyStale = w.g.Provider != "" && E == 0 && w.g.Refresh > 0 && now-stale > int64(w.g.Refresh)*1000
	if tokExp-1500 <= now && now <= tokExp+500 {
		// the token's expiry instant is computed on the real clock: not reproducible to the second
		res.jitter = true
	}
	res.Detail = detail
	res.ntKey = fmt.Sprintf("%s|%s|%d|%d", w.g, o.K, now-c.T, now-w.sessT)
	if c.T != c.T0 || w.sessT != w.sessT0 {
		res.ntKey += fmt.Sprintf("|%d|%d", now-c.T0, now-w.sessT0)
	}
	switch {
	case rejExp || rejFut:
		what := "expired"
		if !rejExp {
			what = "future"
		}
		res.Class = "must-reject-" + what
		if res.Served {
			if what == "expired" && c.ByRefusal {
				w.fail(res, "credential-set-by-refused-request-served-past-lifetime", "a credential the proxy set at %gs in a response that refused the session was honoured at %gs: %gs after the session was issued/last refreshed (%gs) with cookie-expire=%ds (status %d, served)",
					float64(c.Set)/1000, float64(now)/1000, float64(now-c.T)/1000, float64(c.T)/1000, w.g.Expire, res.Status)
			} else if what == "expired" {
				w.fail(res, "expired-credential-served", "credential issued at %gs was honoured at %gs: %gs after issue/last refresh with cookie-expire=%ds (status %d, served)",
					float64(c.T)/1000, float64(now)/1000, float64(now-c.T)/1000, w.g.Expire, res.Status)
			} else {
				w.fail(res, "future-credential-served", "credential issued at %gs was honoured at %gs: its issue time lies %gs in the future (status %d, served)",
					float64(c.T)/1000, float64(now)/1000, float64(c.T-now)/1000, res.Status)
			}
		}
	case o.K == "req" && serve && !res.formStale && !res.legacyStale && res.TokenFail == 0 && (now <= tokExp-2000 || res.Grants > 0):
		res.Class = "must-serve"
		if !res.Served {
			key := "valid-credential-rejected"
			if res.Presented > 0 {
				key = "refreshed-credential-rejected-early"
			}
			w.fail(res, key, "the browser's own credential, issued/refreshed at %gs, was refused at %gs: only %gs old with cookie-expire=%ds, cookie-refresh=%ds (status %d)",
				float64(c.T)/1000, float64(now)/1000, float64(now-c.T)/1000, w.g.Expire, w.g.Refresh, res.Status)
		}
	case readingsDiffer:
		res.Class = "ambiguous-reading"
	case !alive(c.T) && !(expired(c.T) || future(c.T)):
		res.Class = "ambiguous-band"
	case o.K != "req":
		res.Class = "replay-no-converse"
	case res.formStale:
		res.Class = "form-session-past-refresh"
	case res.legacyStale:
		res.Class = "session-without-expiry-past-refresh"
	default:
		res.Class = "converse-suspended"
	}
}

// observe records the credential a response issued, checks Max-Age and store TTL, and moves
// the model on.
func (w *c09World) observe(res *c09Res, resp *world.Resp, r0 int, login bool) {
	now := res.NowMs
	legit := login || res.Grants > 0
	// a provider that cannot refresh vouched for the session by a call in this request
	reval := !legit && res.Vals > 0 && res.TokenFail == 0
	var parts []string
	maxAge := 0
	for _, ck := range resp.Cookies() {
		if !w.nameRE.MatchString(ck.Name) || ck.Value == "" {
			continue
		}
		parts = append(parts, ck.Name+"="+ck.Value)
		maxAge = ck.MaxAge
		res.maxAges++
		if ck.MaxAge != w.g.Expire {
			w.fail(res, "max-age-differs", "session cookie %s set at %gs (%s) carries Max-Age=%d, configured cookie-expire=%ds", ck.Name, float64(now)/1000, res.Op, ck.MaxAge, w.g.Expire)
		}
	}
	if w.g.Redis {
		for _, sc := range w.px.Redis.Calls[r0:] {
			if sc.Op != "SET" || strings.HasSuffix(sc.Key, ".lock") || !w.px.Redis.M.Exists(sc.Key) {
				continue
			}
			res.ttls++
			ttl, want := w.px.Redis.M.TTL(sc.Key), time.Duration(w.g.Expire)*time.Second
			bad := ttl != want
			if w.g.ExpireNS > 0 {
				// the store rounds a sub-millisecond lifetime up to its own resolution
				bad = ttl <= 0 || ttl > time.Second
			}
			if !legit {
				// a re-save that is neither a login nor a refresh may keep the remaining lifetime;
				// it must not outlive the configured one
				bad = ttl > want || (ttl == 0 && want > 0)
			}
			if bad {
				w.fail(res, "store-ttl-differs", "store entry saved at %gs (%s) has TTL %v, configured cookie-expire=%ds", float64(now)/1000, res.Op, ttl, w.g.Expire)
			}
		}
	}
	if legit {
		w.sessT, w.sessT0, w.sessTokExp, w.fwd = now, now, w.tokExp(now), 0
		if login {
			w.ended = false
		}
	}
	if len(parts) == 0 {
		return
	}
	hdr := strings.Join(parts, "; ")
	idx := w.find(hdr)
	if idx < 0 {
		c := &c09Cred{Hdr: hdr, T: now, T0: now, TokExp: w.tokExp(now), Legit: legit, MaxAge: maxAge}
		if !legit && res.Presented >= 0 {
			// re-issued without a login or a provider-granted refresh: no new lifetime
			p := w.creds[res.Presented]
			c.T, c.T0, c.TokExp = p.T, p.T0, p.TokExp
			if reval {
				// ... unless the provider re-validated the session: under one reading of "issued or
				// last refreshed" the credential the proxy issued then starts a lifetime of its own
				c.T = now
			}
		}
		c.Stamp = w.noteCred(hdr)
		c.Set, c.ByRefusal = now, !login && !res.Served
		w.creds = append(w.creds, c)
		idx = len(w.creds) - 1
		if reval && res.Presented >= 0 {
			res.reval = true
			w.sessT = now
		}
	} else if legit {
		w.creds[idx].T, w.creds[idx].T0, w.creds[idx].TokExp, w.creds[idx].Legit = now, now, w.tokExp(now), true
		w.creds[idx].Set, w.creds[idx].ByRefusal = now, false
	}
	res.Issued = idx
}

// ---------------------------------------------------------------------------------------------
// canonical state (semantic contents, offsets from Epoch, never ciphertext)

func c09Sess(s *sessions.SessionState) string {
	if s == nil {
		return "nil"
	}
	created, ttl := "-", "-"
	if s.CreatedAt != nil {
		created = strconv.FormatInt(s.CreatedAt.Sub(world.Epoch).Milliseconds(), 10)
		if s.ExpiresOn != nil {
			// the expiry instant carries sub-second jitter of the real clock (computed by a dependency)
			ttl = strconv.FormatInt(int64(s.ExpiresOn.Sub(*s.CreatedAt).Round(time.Minute)/time.Minute), 10)
		}
	}
	return fmt.Sprintf("created=%s,tokttl=%sm,rt=%s,idtok=%v,email=%s", created, ttl, s.RefreshToken, s.IDToken != "", s.Email)
}

// c09Value joins the value of a (possibly split) session cookie from a Cookie header text.
func (w *c09World) value(hdr string) string {
	pairs := strings.Split(hdr, "; ")
	if len(pairs) == 1 {
		return strings.TrimPrefix(pairs[0], w.name+"=")
	}
	sort.Slice(pairs, func(a, b int) bool {
		return len(pairs[a]) < len(pairs[b]) || (len(pairs[a]) == len(pairs[b]) && pairs[a] < pairs[b])
	})
	var b strings.Builder
	for _, p := range pairs {
		if i := strings.Index(p, "="); i >= 0 {
			b.WriteString(p[i+1:])
		}
	}
	return b.String()
}

// noteCred returns the cleartext time stamp of a credential (offset from Epoch, seconds) and, for
// the Redis store, remembers the ticket secret so that the store entry can be summarised.
func (w *c09World) noteCred(hdr string) string {
	p := strings.Split(w.value(hdr), "|")
	if len(p) != 3 {
		return "?"
	}
	stamp := "?"
	if ts, err := strconv.ParseInt(p[1], 10, 64); err == nil {
		stamp = strconv.FormatInt(ts-world.Epoch.Unix(), 10)
	}
	if w.g.Redis {
		if raw, err := base64.URLEncoding.DecodeString(p[0]); err == nil {
			if tp := strings.Split(string(raw), "."); len(tp) == 3 {
				id, e1 := base64.RawURLEncoding.DecodeString(tp[1])
				sec, e2 := base64.RawURLEncoding.DecodeString(tp[2])
				if e1 == nil && e2 == nil {
					w.secrets[string(id)] = sec
				}
			}
		}
	}
	return stamp
}

func (w *c09World) credSummary(c *c09Cred) string {
	p := strings.Split(w.value(c.Hdr), "|")
	if len(p) != 3 {
		return "opaque"
	}
	raw, err := base64.URLEncoding.DecodeString(p[0])
	if err != nil {
		return "opaque"
	}
	if w.g.Redis {
		if tp := strings.Split(string(raw), "."); len(tp) == 3 {
			if id, err := base64.RawURLEncoding.DecodeString(tp[1]); err == nil {
				return "ticket:" + w.alias(string(id))
			}
		}
		return "opaque-ticket"
	}
	cs, ok := verifSessionStore(w.px.P).(*cookiestore.SessionStore)
	if !ok {
		return "opaque"
	}
	s, err := sessions.DecodeSessionState(raw, cs.CookieCipher, true)
	if err != nil {
		return "undecodable"
	}
	return c09Sess(s)
}

// alias names a store key by the order in which its ticket first appeared (ids are random).
func (w *c09World) alias(id string) string {
	var ids []string
	for _, c := range w.creds {
		p := strings.Split(w.value(c.Hdr), "|")
		if len(p) != 3 {
			continue
		}
		if raw, err := base64.URLEncoding.DecodeString(p[0]); err == nil {
			if tp := strings.Split(string(raw), "."); len(tp) == 3 {
				if x, err := base64.RawURLEncoding.DecodeString(tp[1]); err == nil {
					ids = append(ids, string(x))
				}
			}
		}
	}
	for i, x := range ids {
		if x == id {
			return fmt.Sprintf("k%d", i)
		}
	}
	return "k?" + strconv.Itoa(len(id))
}

func (w *c09World) canon(hist []c09Op) string {
	var b strings.Builder
	_, sb := c09Offset(hist)
	fmt.Fprintf(&b, "now=%d trail=%d setback=%v\n", c09NowMs(), c09Trailing(hist), sb)
	if w.g.Redis {
		fmt.Fprintf(&b, "model sessT=%d tokexp=%d fwd=%d ended=%v\n", w.sessT, w.sessTokExp, w.fwd, w.ended)
		if w.sessT0 != w.sessT {
			fmt.Fprintf(&b, "model sessT0=%d\n", w.sessT0)
		}
	}
	var jar []string
	for _, ck := range w.b.Jar.Cookies {
		exp := "session"
		if !ck.Expires.IsZero() {
			exp = strconv.FormatInt(ck.Expires.Sub(world.Epoch).Milliseconds(), 10)
		}
		what := "other"
		if w.nameRE.MatchString(ck.Name) {
			what = fmt.Sprintf("cred%d", w.find(ck.Name+"="+ck.Value))
		}
		jar = append(jar, fmt.Sprintf("jar %s %s%s exp=%s %s", ck.Name, ck.Domain, ck.Path, exp, what))
	}
	sort.Strings(jar)
	b.WriteString(strings.Join(jar, "\n"))
	for i, c := range w.creds {
		fmt.Fprintf(&b, "\ncred%d T=%d tokexp=%d legit=%v stamp=%s maxage=%d %s", i, c.T, c.TokExp, c.Legit, c.Stamp, c.MaxAge, w.credSummary(c))
		if c.T0 != c.T {
			fmt.Fprintf(&b, " T0=%d", c.T0)
		}
		if c.ByRefusal {
			fmt.Fprintf(&b, " by-refusal@%d", c.Set)
		}
	}
	if w.g.Redis {
		var ks []string
		for _, k := range w.px.Redis.SessionKeys() {
			sum := "opaque"
			if sec, ok := w.secrets[k]; ok {
				if ci, err := encryption.NewGCMCipher(sec); err == nil {
					if v, err := w.px.Redis.M.Get(k); err == nil {
						if s, err := sessions.DecodeSessionState([]byte(v), ci, false); err == nil {
							sum = c09Sess(s)
						} else {
							sum = "undecodable"
						}
					}
				}
			}
			ks = append(ks, fmt.Sprintf("redis %s ttl=%d %s", w.alias(k), w.px.Redis.M.TTL(k).Milliseconds(), sum))
		}
		sort.Strings(ks)
		b.WriteString("\n" + strings.Join(ks, "\n"))
	}
	ik := w.idp.StateKey()
	if i := strings.LastIndex(ik, "g"); i >= 0 {
		ik = ik[:i] // families (generation, revoked) without the call counters
	}
	b.WriteString("\nidp " + ik)
	return b.String()
}

// ---------------------------------------------------------------------------------------------
// executing one history

type c09Exec struct {
	Res      []*c09Res
	Key      [16]byte
	Canon    string
	NCreds   int
	JarEmpty bool
	Err      error
}

// c09Run replays login + hist on a fresh world and returns the observation of every step and the
// canonical key of the state reached.
func c09Run(g c09Cfg, hist []c09Op, e *c09Env) *c09Exec {
	w := c09NewWorld(g, e)
	defer w.close()
	x := &c09Exec{}
	r, err := w.login()
	x.Res = append(x.Res, r)
	if err != nil {
		x.Err = err
		return x
	}
	for _, o := range hist {
		if o.K == "adv" {
			x.Res = append(x.Res, w.advance(o))
		} else {
			x.Res = append(x.Res, w.request(o))
		}
	}
	x.Canon = w.canon(hist)
	h := sha256.Sum256([]byte(x.Canon))
	copy(x.Key[:], h[:16])
	x.NCreds = len(w.creds)
	x.JarEmpty = true
	for _, ck := range w.b.Jar.For("http", c09Host, c09Page) {
		if w.nameRE.MatchString(ck.Name) {
			x.JarEmpty = false
		}
	}
	return x
}

func (x *c09Exec) last() *c09Res { return x.Res[len(x.Res)-1] }

func (x *c09Exec) trace() string {
	var s []string
	for _, r := range x.Res {
		s = append(s, r.String())
	}
	return strings.Join(s, " ; ")
}

type c09Case struct {
	Cfg  c09Cfg  `json:"cfg"`
	Hist []c09Op `json:"history_after_login"`
}

// ---------------------------------------------------------------------------------------------
// the search

func c09Depth(quick bool) int {
	if quick {
		return 4
	}
	return 5
}

func c09Main(c *Ctx) {
	env := &c09Env{seed: c.Seed}
	defer env.close()
	// every world allocates a proxy's worth of garbage while little stays live
	defer debug.SetGCPercent(debug.SetGCPercent(400))
	quick := c.Quick()
	depth := c09Depth(quick)
	cfgs := c09Admitted(c, c09Configs(quick), env)
	c.Info["configurations"] = len(cfgs)
	c.Info["depth_after_login"] = depth
	alphaSizes := map[string]int{}
	unit := 0

	// determinism: the same history twice must give the same observations and the same state
	// (every shard, on a different configuration)
	// (every shard, on a different configuration from the front and one from the back of the list)
	for _, gi := range []int{c.Shard % len(cfgs), len(cfgs) - 1 - c.Shard%len(cfgs)} {
		g := cfgs[gi]
		r := int64(g.Refresh+1) * 1000
		probe := []c09Op{{K: "adv", D: r}, {K: "req"}, {K: "adv", D: 500}, {K: "old"}}
		a, b := c09Run(g, probe, env), c09Run(g, probe, env)
		if a.Err != nil || b.Err != nil || a.trace() != b.trace() || a.Canon != b.Canon {
			c.Unstable("%s: replaying one history twice gave different observations:\n%s\n%s\n%s\n%s", g, a.trace(), b.trace(), a.Canon, b.Canon)
			return
		}
		c.Inc("determinism_probes")
	}

	record := func(g c09Cfg, hist []c09Op, x *c09Exec) {
		r := x.last()
		c.Inc("traces_validated_against_impl")
		c.Inc("transitions")
		c.Inc("class_" + r.Class)
		c.Add("maxage_checked", int64(r.maxAges))
		c.Add("ttl_checked", int64(r.ttls))
		if r.Class != "advance" && r.Class != "login" {
			c.Inc("evaluations")
			c.Inc(fmt.Sprintf("status_%d", r.Status))
			st := "cookie"
			if g.Redis {
				st = "redis"
			}
			if r.Served {
				c.Inc("served_" + st)
			} else {
				c.Inc("refused_" + st)
			}
			if strings.HasPrefix(r.Class, "must-") {
				c.Inc(strings.ReplaceAll(r.Class, "-", "_") + "_" + st)
				c.Distinct("distinct_nontrivial", r.ntKey+"|"+r.Class)
			}
			if strings.HasPrefix(r.Class, "ambiguous") {
				c.Inc("ambiguous")
				if r.Served {
					c.Inc(strings.ReplaceAll(r.Class, "-", "_") + "_served")
				} else {
					c.Inc(strings.ReplaceAll(r.Class, "-", "_") + "_refused")
				}
			}
			if r.jitter {
				c.Inc("token_expiry_jitter_window")
			}
			if r.oldDied {
				c.Inc("pre_refresh_credential_refused_at_own_deadline_" + st)
			}
			if r.Grants > 0 {
				c.Inc("refresh_grants")
				if r.Issued >= 0 {
					c.Inc("restamped_credentials_" + st)
				}
			}
			c.Distinct("distinct_outcomes", fmt.Sprintf("%s|%v|%v|%d", r.Class, r.Served, r.Issued >= 0, r.Grants))
		}
		c09MoreRecord(c, g, r)
		cs := c09Case{Cfg: g, Hist: hist}
		for _, f := range r.Fails {
			f := f
			c.confirm(f.Key, fmt.Sprintf("%s; history: %s: %s", g, c09Hist(hist), f.Msg), len(hist), cs, func() (string, bool) {
				y := c09Run(g, hist, env)
				if y.Err != nil {
					return "", false
				}
				for _, f2 := range y.last().Fails {
					if f2.Key == f.Key {
						return f2.Key, true
					}
				}
				return "", false
			})
		}
		if strings.HasPrefix(r.Class, "must-") && len(hist) >= 3 {
			refreshed := false
			for _, p := range x.Res {
				refreshed = refreshed || p.Grants > 0
			}
			if refreshed {
				c.Sample(2, map[string]any{"cfg": g.String(), "history": c09Hist(hist), "trace": x.trace()})
			}
		}
	}

	for _, g := range cfgs {
		alpha := c09Alphabet(g, quick)
		alphaSizes[g.String()] = len(alpha)
		seen := map[[16]byte]bool{}
		var frontier []*c09Node

		// the state after login and its successors are the units of work distributed over shards
		root := &c09Node{NCreds: 1}
		rootMine := c.Mine(unit)
		unit++
		if rootMine {
			x := c09Run(g, nil, env)
			if x.Err != nil {
				c.Error("%s: login failed: %v", g, x.Err)
			} else {
				record(g, nil, x)
				c.Inc("states")
			}
		}
		for _, o := range c09Allowed(alpha, root, depth == 1) {
			mine := c.Mine(unit)
			unit++
			if mine {
				frontier = append(frontier, &c09Node{Hist: []c09Op{o}, NCreds: -1})
			}
		}
		// level 1 entries are executed first (their NCreds is not known yet), then expanded
		for d := 1; d <= depth && len(frontier) > 0; d++ {
			var next []*c09Node
			for _, n := range frontier {
				if c.Expired() {
					return
				}
				x := c09Run(g, n.Hist, env)
				if x.Err != nil {
					c.Error("%s: %s: login failed: %v", g, c09Hist(n.Hist), x.Err)
					continue
				}
				record(g, n.Hist, x)
				if seen[x.Key] {
					c.Inc("revisits")
					continue
				}
				seen[x.Key] = true
				c.Inc("states")
				c.SetMax("max_depth", int64(d))
				if d == depth {
					continue
				}
				n.NCreds, n.JarEmpty = x.NCreds, x.JarEmpty
				for _, o := range c09Allowed(alpha, n, d+1 == depth) {
					h := append(append([]c09Op{}, n.Hist...), o)
					next = append(next, &c09Node{Hist: h, NCreds: -1})
				}
			}
			frontier = next
		}
	}
	c09LifetimeSweep(c, env)
	c.Info["alphabet"] = alphaSizes
	c.Info["units"] = unit
	c09MoreInfo(c, cfgs)
}

func c09Post(c *Ctx) {
	need := []string{
		"must_serve_cookie", "must_serve_redis",
		"must_reject_expired_cookie", "must_reject_expired_redis",
		"must_reject_future_cookie", "must_reject_future_redis",
		"pre_refresh_credential_refused_at_own_deadline_cookie",
		"restamped_credentials_cookie", "restamped_credentials_redis",
		"refresh_grants", "maxage_checked", "ttl_checked", "ambiguous",
		"served_cookie", "served_redis", "refused_cookie", "refused_redis",
	}
	for _, k := range need {
		if c.Counters[k] == 0 {
			c.Error("vacuous exploration: counter %s is zero", k)
		}
	}
	c09MorePost(c)
	if n := c.Counters["token_expiry_jitter_window"]; n > 0 {
		c.Note("%d requests fell into the second in which the access token expires (instant computed on the real clock): their outcome is not reproducible to the second; they cannot fail", n)
	}
}

func c09Replay(c *Ctx, raw json.RawMessage) string {
	var cs c09Case
	if err := json.Unmarshal(raw, &cs); err != nil {
		return "not a C09 case: " + err.Error()
	}
	env := &c09Env{seed: c.Seed}
	defer env.close()
	x := c09Run(cs.Cfg, cs.Hist, env)
	if x.Err != nil {
		return "login failed: " + x.Err.Error()
	}
	for _, r := range x.Res {
		for _, f := range r.Fails {
			c.Violate(f.Key, f.Msg, len(cs.Hist), cs)
		}
	}
	return cs.Cfg.String() + ": " + x.trace()
}

func init() {
	register(&checkDef{
		id:    "C09",
		level: "model_checking",
		rule:  "breadth-first search over all operation histories (request from the jar, clock advances from the threshold-derived set incl. half-second and one setback, presenting the oldest / newest credential ever received by hand) up to the depth bound after a login, for every (cookie-expire, cookie-refresh) x store x provider-refresh-support x token-lifetime configuration; each history is replayed on a fresh world through the real handlers, states are de-duplicated on decrypted session contents, jar, store entries with TTL, provider state and clock offset; the lifetime model (reject at age >= expire or stamp >= 5min+1s in the future, serve the browser's own credential at age <= expire-1s, Max-Age and store TTL = expire at every issue) is evaluated on the last transition of every execution; non-trivial = a transition in which a credential was presented and the model demands a definite answer (must-serve / must-reject), distinct by configuration, operation, credential age and session age. The same search runs for sessions created by the htpasswd sign-in form, for a provider that cannot refresh and re-validates by a call (keycloak, --validate-url), for an identity provider whose ID-token time stamps lie 240 s behind / ahead of the proxy's clock, and for every cookie-refresh >= cookie-expire configuration validation admits (rejected ones are counted); a product lifetime {1s..10y} x cookie layout {one cookie, split session, ticket + store entry} x CSRF-cookie lifetime compares Max-Age of every cookie set and the TTL of every store entry with the configuration at login and at a refresh",
		assumptions: []string{
			"issue time of a credential = virtual time of the login or of the provider-granted refresh whose response set it; a session cookie re-issued without such an event inherits the issue time of the credential presented",
			"the one-second bands [expire-1s, expire) and (5min-1s, 5min+1s) are ambiguous (sub-second truncation of the stamp) and cannot fail",
			"server-side store: a pre-refresh ticket cookie of a session that was refreshed later is judged under both readings (its own issue time / the session's last refresh); an alarm needs both to agree",
			"the converse (a valid credential is served) is asserted only for the request the browser's jar produces, only while no provider call of that request failed, the access token is valid with a 2 s margin or was just refreshed, and (server-side store) no earlier presentation of the session was refused and the store has not seen expire-1s of forward time since the last save",
			"consecutive forward clock advances commute exactly; only non-decreasing runs are generated and the trailing advance is part of the state key",
			"access-token and ID-token expiry are decided by dependencies on the real clock: probed with margins only (access token 24 h or 45 s, ID tokens valid for the whole run)",
			"miniredis models Redis key expiry (FastForward in lock-step with the virtual clock)",
			"provider without refresh: 'issued or last refreshed' leaves open whether a successful re-validation after which the proxy issues a new credential is a refresh; refusal is demanded once cookie-expire has elapsed since the proxy issued the credential presented in such a request (server-side store: and since it last issued one for the session), service only while cookie-expire counted from the login has not elapsed; in between: ambiguous. A credential set without login, grant or successful validation call (e.g. by a response that refused the request) inherits the issue time of the credential presented",
			"a session of the sign-in form (no provider token) or of a provider whose token answer names no expiry under cookie-expire=0 may be refused once cookie-refresh has passed: early refusal is outside the property (counted)",
			"the lifetime counts on the proxy's clock whatever iat / auth_time / nbf the provider's tokens carry",
		},
		shards: func(tier string) int { return 16 },
		run:    func(c *Ctx) { concRunFor(c, "C09"); c09Main(c) },
		post:   c09Post,
		replay: func(c *Ctx, raw json.RawMessage) string {
			if out, ok := concReplayFor(c, "C09", raw); ok {
				return out
			}
			return c09Replay(c, raw)
		},
	})
}
