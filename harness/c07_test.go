//go:build verif

package main

import (
	"bytes"
	"encoding/json"
	"fmt"
	"io"
	"net/http"
	"net/http/httptest"
	"net/textproto"
	"sort"
	"strings"

	"github.com/oauth2-proxy/oauth2-proxy/v7/pkg/apis/options"
	sessionsapi "github.com/oauth2-proxy/oauth2-proxy/v7/pkg/apis/sessions"
	"github.com/oauth2-proxy/oauth2-proxy/v7/verifx/world"
)

// C07 — upstreams see identity headers only as derived from the authenticated session (PROD).
//
// Enumerated: header configurations (every combination of the legacy header flags + structured
// header lists) x credentials (cookie sessions from real logins and crafted sessions, bearer,
// basic auth, none, conflicting) x client spoof styles x paths (proxied, auth-only, three kinds
// of bypass). Oracle: a reference evaluation of the header configuration (written from the flag
// help texts and docs/docs/configuration/alpha_config.md) over the ground-truth session
// (identity from /oauth2/userinfo for the same request headers, tokens from the provider's issue
// log), compared with what the recording upstream received / the auth-only response carried.

// ---------------------------------------------------------------------------------------------
// reference model

// c07Val is one configured value of a header.
type c07Val struct {
	// Chains lists the admissible readings of "which claim": each chain is a claim with
	// fall-backs used when the previous claim is empty. One chain = no ambiguity.
	Chains  [][]string `json:"claims,omitempty"`
	Prefix  string     `json:"prefix,omitempty"`
	BasicPw *string    `json:"basic_auth_password,omitempty"`
	Secret  *string    `json:"secret,omitempty"`
}

type c07Hdr struct {
	Name     string `json:"name"`
	Preserve bool   `json:"preserve,omitempty"`
	Optional bool   `json:"optional,omitempty"` // documentation leaves open whether the name is configured at all
	// PreserveOpen: the name is configured by two list entries (spellings differing in letter case)
	// with different preserveRequestValue settings; Preserve then holds the laxer one and the
	// checks of this header are counted as ambiguous
	PreserveOpen bool     `json:"preserve_open,omitempty"`
	Values       []c07Val `json:"values"`
}

type c07HeaderCfg struct {
	Req  []c07Hdr `json:"request"`
	Resp []c07Hdr `json:"response"`
}

// c07Sess is the ground-truth session of one request.
type c07Sess struct {
	User   string   `json:"user"`
	Email  string   `json:"email"`
	Groups []string `json:"groups"`
	Pref   string   `json:"preferred_username"`
	AT     string   `json:"-"`
	IDT    string   `json:"-"`
	RT     string   `json:"-"`
	Bearer bool     `json:"bearer,omitempty"`
}

// c07Reading is one admissible reading of the details the statement/documentation leave open.
type c07Reading struct {
	Chain        int  // which claim chain of a value with several admissible chains
	BearerAT     bool // a bearer session's access token is the presented JWT (else: it has none)
	SecretNoSess bool // static secret values are sent even when there is no session
	BypassInject bool // a bypassed request that carries a valid credential has "a session"
}

func c07Readings() []c07Reading {
	var out []c07Reading
	for ch := 0; ch < 3; ch++ {
		for m := 0; m < 8; m++ {
			out = append(out, c07Reading{Chain: ch, BearerAT: m&1 != 0, SecretNoSess: m&2 != 0, BypassInject: m&4 != 0})
		}
	}
	return out
}

func c07Claim(s *c07Sess, claim string, rd c07Reading) []string {
	switch claim {
	case "user":
		return []string{s.User}
	case "email":
		return []string{s.Email}
	case "groups":
		return s.Groups
	case "preferred_username":
		return []string{s.Pref}
	case "access_token":
		if s.Bearer && !rd.BearerAT {
			return nil
		}
		return []string{s.AT}
	case "id_token":
		return []string{s.IDT}
	case "refresh_token":
		return []string{s.RT}
	}
	return nil
}

func c07NonEmpty(in []string) []string {
	var out []string
	for _, v := range in {
		if v != "" {
			out = append(out, v)
		}
	}
	return out
}

// c07Eval: the values header h must carry for session s (nil = none) under reading rd.
func c07Eval(h c07Hdr, s *c07Sess, bypass bool, rd c07Reading) []string {
	if s != nil && bypass && !rd.BypassInject {
		s = nil
	}
	var out []string
	for _, v := range h.Values {
		if v.Secret != nil {
			if s != nil || rd.SecretNoSess {
				out = append(out, *v.Secret)
			}
			continue
		}
		if s == nil || len(v.Chains) == 0 {
			continue
		}
		ci := rd.Chain
		if ci >= len(v.Chains) {
			ci = len(v.Chains) - 1
		}
		var vals []string
		for _, claim := range v.Chains[ci] {
			vals = c07NonEmpty(c07Claim(s, claim, rd))
			if len(vals) > 0 {
				break
			}
		}
		for _, x := range vals {
			if v.BasicPw != nil {
				out = append(out, "Basic "+b64Std([]byte(x+":"+*v.BasicPw)))
			} else {
				out = append(out, v.Prefix+x)
			}
		}
	}
	return out
}

// tokens: header lines split at commas, trimmed, empties dropped, sorted (RFC 9110 §5.3: several
// field lines and one comma-joined line are the same list).
func c07Tokens(lines []string) []string {
	out := []string{}
	for _, l := range lines {
		for _, t := range strings.Split(l, ",") {
			if t = strings.TrimSpace(t); t != "" {
				out = append(out, t)
			}
		}
	}
	sort.Strings(out)
	return out
}

func c07Key(tokens []string) string { return strings.Join(tokens, "\x00") }

// c07Minus removes the multiset b from a; ok=false if b is not contained in a.
func c07Minus(a, b []string) (rest []string, ok bool) {
	cnt := map[string]int{}
	for _, t := range b {
		cnt[t]++
	}
	for _, t := range a {
		if cnt[t] > 0 {
			cnt[t]--
			continue
		}
		rest = append(rest, t)
	}
	for _, n := range cnt {
		if n > 0 {
			return rest, false
		}
	}
	return rest, true
}

func c07Subset(a, of []string) bool {
	_, ok := c07Minus(of, a)
	return ok
}

// ---------------------------------------------------------------------------------------------
// configurations

type c07Flags struct {
	PassUser    bool   `json:"pass_user_headers"`
	PassBasic   bool   `json:"pass_basic_auth"`
	PassAT      bool   `json:"pass_access_token"`
	PassAuthz   bool   `json:"pass_authorization_header"`
	SetX        bool   `json:"set_xauthrequest"`
	SetBasic    bool   `json:"set_basic_auth"`
	PreferEmail bool   `json:"prefer_email_to_user"`
	Strip       bool   `json:"skip_auth_strip_headers"`
	SetAuthz    bool   `json:"set_authorization_header"`
	Password    string `json:"basic_auth_password"`
}

func (f c07Flags) args() []string {
	a := []string{
		fmt.Sprintf("--pass-user-headers=%v", f.PassUser),
		fmt.Sprintf("--pass-basic-auth=%v", f.PassBasic),
		fmt.Sprintf("--pass-access-token=%v", f.PassAT),
		fmt.Sprintf("--pass-authorization-header=%v", f.PassAuthz),
		fmt.Sprintf("--set-xauthrequest=%v", f.SetX),
		fmt.Sprintf("--set-basic-auth=%v", f.SetBasic),
		fmt.Sprintf("--prefer-email-to-user=%v", f.PreferEmail),
		fmt.Sprintf("--skip-auth-strip-headers=%v", f.Strip),
		fmt.Sprintf("--set-authorization-header=%v", f.SetAuthz),
	}
	if f.Password != "" {
		a = append(a, "--basic-auth-password="+f.Password)
	}
	return a
}

func c07One(claims ...string) [][]string { return [][]string{claims} }

// c07LegacyRef states, from the flag help texts (docs/docs/configuration/overview.md), which
// names each legacy flag configures and from which claim. Where the texts leave something open
// the entry is Optional or carries several claim chains.
func c07LegacyRef(f c07Flags) (cfg c07HeaderCfg, rejectWhy string) {
	preserve := !f.Strip
	// "Prefer to use the Email address as the Username ... Will only use Username if Email is
	// unavailable": e-mail, with or without the fall-back to the user name.
	userChains := c07One("user")
	if f.PreferEmail {
		userChains = [][]string{{"email"}, {"email", "user"}}
	}
	pw := f.Password
	if f.PassBasic && f.Password != "" {
		cfg.Req = append(cfg.Req, c07Hdr{Name: "Authorization", Preserve: preserve, Values: []c07Val{{Chains: userChains, BasicPw: &pw}}})
	}
	if f.PassBasic || f.PassUser {
		cfg.Req = append(cfg.Req,
			c07Hdr{Name: "X-Forwarded-User", Preserve: preserve, Values: []c07Val{{Chains: userChains}}},
			// the texts do not say that prefer-email-to-user removes X-Forwarded-Email
			c07Hdr{Name: "X-Forwarded-Email", Preserve: preserve, Optional: f.PreferEmail, Values: []c07Val{{Chains: c07One("email")}}},
			// the pass-basic-auth text does not list X-Forwarded-Groups, the pass-user-headers text does
			c07Hdr{Name: "X-Forwarded-Groups", Preserve: preserve, Optional: !f.PassUser, Values: []c07Val{{Chains: c07One("groups")}}},
			c07Hdr{Name: "X-Forwarded-Preferred-Username", Preserve: preserve, Values: []c07Val{{Chains: c07One("preferred_username")}}},
		)
	}
	if f.PassAT {
		cfg.Req = append(cfg.Req, c07Hdr{Name: "X-Forwarded-Access-Token", Preserve: preserve, Values: []c07Val{{Chains: c07One("access_token")}}})
	}
	if f.PassAuthz {
		cfg.Req = append(cfg.Req, c07Hdr{Name: "Authorization", Preserve: preserve, Values: []c07Val{{Chains: c07One("id_token"), Prefix: "Bearer "}}})
	}
	if f.SetX {
		cfg.Resp = append(cfg.Resp,
			c07Hdr{Name: "X-Auth-Request-User", Values: []c07Val{{Chains: c07One("user")}}},
			c07Hdr{Name: "X-Auth-Request-Email", Values: []c07Val{{Chains: c07One("email")}}},
			c07Hdr{Name: "X-Auth-Request-Groups", Values: []c07Val{{Chains: c07One("groups")}}},
			c07Hdr{Name: "X-Auth-Request-Preferred-Username", Values: []c07Val{{Chains: c07One("preferred_username")}}},
		)
		if f.PassAT {
			cfg.Resp = append(cfg.Resp, c07Hdr{Name: "X-Auth-Request-Access-Token", Values: []c07Val{{Chains: c07One("access_token")}}})
		}
	}
	if f.SetBasic {
		ch := c07One("user")
		if f.PreferEmail {
			// prefer-email-to-user is documented "in conjunction with pass-basic-auth and
			// pass-user-headers": for the response header all three readings are admissible
			ch = [][]string{{"user"}, {"email"}, {"email", "user"}}
		}
		cfg.Resp = append(cfg.Resp, c07Hdr{Name: "Authorization", Values: []c07Val{{Chains: ch, BasicPw: &pw}}})
		if f.Password == "" {
			rejectWhy = "set-basic-auth without a password"
		}
	}
	if f.SetAuthz {
		cfg.Resp = append(cfg.Resp, c07Hdr{Name: "Authorization", Values: []c07Val{{Chains: c07One("id_token"), Prefix: "Bearer "}}})
	}
	// "Names should be unique within a list of Headers"
	for _, list := range [][]c07Hdr{cfg.Req, cfg.Resp} {
		seen := map[string]bool{}
		for _, h := range list {
			if seen[h.Name] {
				rejectWhy = "two headers named " + h.Name
			}
			seen[h.Name] = true
		}
	}
	return cfg, rejectWhy
}

func c07CaseName(name, style string) string {
	switch style {
	case "lower":
		return strings.ToLower(name)
	case "upper":
		return strings.ToUpper(name)
	case "mixed":
		b := []byte(strings.ToLower(name))
		for i := 1; i < len(b); i += 2 {
			if b[i] >= 'a' && b[i] <= 'z' {
				b[i] -= 32
			}
		}
		return string(b)
	}
	return name
}

// structured header lists: 3 spellings of the configured names x 3 preserve patterns
func c07Structured() []c07HeaderCfg {
	s := func(v string) *string { return &v }
	base := []c07Hdr{
		{Name: "X-Verif-User", Values: []c07Val{{Chains: c07One("user")}}},
		{Name: "X-Verif-Groups", Values: []c07Val{{Chains: c07One("groups")}}},
		{Name: "X-Verif-Email-Prefixed", Values: []c07Val{{Chains: c07One("email"), Prefix: "mail:"}}},
		{Name: "X-Verif-Basic", Values: []c07Val{{Chains: c07One("user"), BasicPw: s("pw2")}}},
		{Name: "X-Verif-Secret", Values: []c07Val{{Secret: s("static-secret")}}},
		{Name: "X-Verif-Multi", Values: []c07Val{{Chains: c07One("user")}, {Secret: s("s2")}, {Chains: c07One("groups"), Prefix: "g:"}, {Chains: c07One("preferred_username")}}},
		{Name: "X-Verif-Unknown", Values: []c07Val{{Chains: c07One("no_such_claim")}}},
		{Name: "X-Verif-Novalues", Values: []c07Val{}},
		{Name: "X-Verif-Tokens", Values: []c07Val{{Chains: c07One("access_token")}, {Chains: c07One("id_token"), Prefix: "id:"}, {Chains: c07One("refresh_token"), Prefix: "rt:"}}},
		{Name: "Authorization", Values: []c07Val{{Chains: c07One("id_token"), Prefix: "Bearer "}}},
		{Name: "X-Forwarded-Email", Values: []c07Val{{Chains: c07One("email")}}},
	}
	var out []c07HeaderCfg
	for _, spelling := range []string{"canonical", "lower", "mixed"} {
		for _, pres := range []string{"off", "on", "alternating"} {
			var cfg c07HeaderCfg
			for i, h := range base {
				h.Name = c07CaseName(h.Name, spelling)
				r := h
				r.Preserve = pres == "on" || (pres == "alternating" && i%2 == 1)
				cfg.Req = append(cfg.Req, r)
				cfg.Resp = append(cfg.Resp, h)
			}
			out = append(out, cfg)
		}
	}
	return out
}

func c07ToOptions(in []c07Hdr) []options.Header {
	out := []options.Header{}
	for _, h := range in {
		oh := options.Header{Name: h.Name, PreserveRequestValue: h.Preserve, Values: []options.HeaderValue{}}
		for _, v := range h.Values {
			if v.Secret != nil {
				oh.Values = append(oh.Values, options.HeaderValue{SecretSource: &options.SecretSource{Value: []byte(*v.Secret)}})
				continue
			}
			cs := &options.ClaimSource{Claim: v.Chains[0][0], Prefix: v.Prefix}
			if v.BasicPw != nil {
				cs.BasicAuthPassword = &options.SecretSource{Value: []byte(*v.BasicPw)}
			}
			oh.Values = append(oh.Values, options.HeaderValue{ClaimSource: cs})
		}
		out = append(out, oh)
	}
	return out
}

type c07Config struct {
	Name       string    `json:"name"`
	Legacy     *c07Flags `json:"legacy_flags,omitempty"`
	Structured int       `json:"structured,omitempty"` // 1-based index into c07Structured()
	// Alpha: the header lists come from an alpha-config YAML file (c07_alpha_test.go)
	Alpha *c07AlphaSpec `json:"alpha_config,omitempty"`
	// Store: "" = cookie session store, "redis" = sessions in Redis, the cookie carries a ticket
	Store string `json:"session_store,omitempty"`
	// Refresh: built with --cookie-refresh=1m (the refresh part of c07_alpha_test.go)
	Refresh   bool `json:"cookie_refresh,omitempty"`
	ref       c07HeaderCfg
	rejectWhy string
}

func c07Configs(quick bool) []*c07Config {
	var out []*c07Config
	pwAlts := []string{"", "s3:cret"}
	authzAlts := []bool{false, true}
	for bits := 0; bits < 256; bits++ {
		for _, pw := range pwAlts {
			for _, sa := range authzAlts {
				if quick && sa {
					// quick: the 8 flags of the quantifier x password on/off; set-authorization-header
					// (a ninth flag) only in the thorough tier
					continue
				}
				f := c07Flags{PassUser: bits&1 != 0, PassBasic: bits&2 != 0, PassAT: bits&4 != 0, PassAuthz: bits&8 != 0,
					SetX: bits&16 != 0, SetBasic: bits&32 != 0, PreferEmail: bits&64 != 0, Strip: bits&128 != 0, SetAuthz: sa, Password: pw}
				cfg := &c07Config{Name: fmt.Sprintf("legacy-%03d-pw%v-sa%v", bits, pw != "", sa), Legacy: &f}
				cfg.ref, cfg.rejectWhy = c07LegacyRef(f)
				out = append(out, cfg)
			}
		}
	}
	for i, sc := range c07Structured() {
		out = append(out, &c07Config{Name: fmt.Sprintf("structured-%d", i+1), Structured: i + 1, ref: sc})
	}
	return out
}

// ---------------------------------------------------------------------------------------------
// the world of one shard: provider, upstream, credentials

type c07Cand struct {
	User   string
	AT     string
	IDT    string
	RT     string
	Bearer bool
}

type c07Cred struct {
	Kind   string
	Cookie string // Cookie header value ("" = none)
	Authz  string // credential carried in Authorization ("" = none)
	Cands  []c07Cand
}

type c07Env struct {
	c      *Ctx
	idp    *world.IdP
	up     *world.Upstream
	htfile string
	creds  []*c07Cred
	issued []map[string]any // token responses the provider issued, in order

	// session store in Redis (c07_alpha_test.go): one server per shard, shared by every proxy
	// built with Store "redis"; redisCreds are the tickets of sessions stored there
	rd         *world.Redis
	redisCreds []*c07Cred
	// what the last runCase saw (read by the refresh part) and a hook that runs between the
	// request and its evaluation (the refresh part learns the tokens the provider issued
	// during the request there)
	lastResp   *world.Resp
	lastUp     *world.UpReq
	afterServe func()
	alpha      *c07AlphaFixture
}

const c07Host = "app.example.com"

func c07BaseFlags(e *c07Env) []string {
	return append(baseFlags(e.up.URL()), "--email-domain=*", "--cookie-secure=false", "--cookie-refresh=0",
		"--htpasswd-file="+e.htfile, "--htpasswd-user-group=htgrp", "--skip-jwt-bearer-tokens=true",
		"--skip-auth-route=^/bypass", "--skip-auth-preflight=true", "--trusted-ip=10.9.9.9")
}

// mintStoreCreds logs the five provider users in at `mint` and saves the five crafted sessions through
// mint's session store; the credentials are the resulting cookies (whole sessions for the cookie
// store, tickets for Redis). Kinds are "<prefix>-oidc-<user>" and "<prefix>-crafted-<shape>".
func (e *c07Env) mintStoreCreds(mint *Proxy, prefix string) (out []*c07Cred) {
	c := e.c
	str := func(m map[string]any, k string) string { s, _ := m[k].(string); return s }
	// cookie sessions from real logins
	for _, u := range []string{"alice", "nogrp", "three", "comma", "nopref"} {
		b := newBrowser(mint, "http", c07Host)
		n := len(e.issued)
		resp, _, err := b.Login(e.idp, u, "/app")
		if err != nil || resp.Status != 302 || len(e.issued) != n+1 {
			c.Error("C07 fixture: login of %s failed: %v status %d issued %d", u, err, resp.Status, len(e.issued)-n)
			continue
		}
		tok := e.issued[n]
		ck := b.Jar.Header("http", c07Host, "/")
		out = append(out, &c07Cred{Kind: prefix + "-oidc-" + u, Cookie: ck,
			Cands: []c07Cand{{User: e.idp.Users[u].Sub, AT: str(tok, "access_token"), IDT: str(tok, "id_token"), RT: str(tok, "refresh_token")}}})
	}
	// crafted cookie sessions: fields a login at this provider cannot produce
	crafted := []struct {
		kind string
		s    sessionsapi.SessionState
	}{
		{"crafted-noemail", sessionsapi.SessionState{User: "u-noemail", Groups: []string{"cg"}, PreferredUsername: "pn", AccessToken: "at-crafted-1", IDToken: "idt.crafted.1", RefreshToken: "rt-crafted-1"}},
		{"crafted-nouser", sessionsapi.SessionState{Email: "nouser@example.com", Groups: []string{"cg"}, PreferredUsername: "pn2", AccessToken: "at-crafted-2", IDToken: "idt.crafted.2"}},
		{"crafted-useronly", sessionsapi.SessionState{User: "u-only"}},
		{"crafted-emptygroupitem", sessionsapi.SessionState{User: "u-eg", Email: "eg@example.com", Groups: []string{"", "g2", ""}, AccessToken: "at-crafted-4"}},
		{"crafted-notokens", sessionsapi.SessionState{User: "u-nt", Email: "nt@example.com", Groups: []string{"x", "y"}, PreferredUsername: "nt"}},
	}
	for _, cs := range crafted {
		s := cs.s
		s.CreatedAtNow()
		rec := httptest.NewRecorder()
		req := httptest.NewRequest("GET", "http://"+c07Host+"/", nil)
		if err := verifSessionStore(mint.P).Save(rec, req, &s); err != nil {
			c.Error("C07 fixture: cannot save crafted session %s: %v", cs.kind, err)
			continue
		}
		jar := world.NewJar()
		jar.SetCookies("http", c07Host, "/", rec.Header())
		out = append(out, &c07Cred{Kind: prefix + "-" + cs.kind, Cookie: jar.Header("http", c07Host, "/"),
			Cands: []c07Cand{{User: s.User, AT: s.AccessToken, IDT: s.IDToken, RT: s.RefreshToken}}})
	}
	return out
}

func c07NewEnv(c *Ctx) *c07Env {
	e := &c07Env{c: c, idp: world.NewIdP(), up: world.NewUpstream("u")}
	e.htfile = writeHtpasswd(map[string]string{"hugo": "pw1"})
	// tap the token endpoint: what the provider issued is the ground truth for the tokens
	e.idp.Intercept = func(call *world.Call, _ *http.Request) *world.Fault {
		if call.Endpoint != "token" {
			return nil
		}
		return &world.Fault{Kind: "tap", Respond: func(_ *http.Request, healthy func() *http.Response) (*http.Response, error) {
			r := healthy()
			body, _ := io.ReadAll(r.Body)
			r.Body = io.NopCloser(bytes.NewReader(body))
			var m map[string]any
			if json.Unmarshal(body, &m) == nil {
				e.issued = append(e.issued, m)
			}
			return r, nil
		}}
	}
	e.idp.Users["nogrp"] = &world.User{Sub: "nogrp-sub", Email: "nogrp@example.com", EmailVerified: true, PreferredUsername: "nogrp"}
	e.idp.Users["three"] = &world.User{Sub: "three-sub", Email: "three@example.com", EmailVerified: true, Groups: []string{"g1", "g2", "g3"}, PreferredUsername: "three"}
	e.idp.Users["comma"] = &world.User{Sub: "comma-sub", Email: "comma@example.com", EmailVerified: true, Groups: []string{"a,b", "c"}, PreferredUsername: "comma"}
	e.idp.Users["nopref"] = &world.User{Sub: "nopref-sub", Email: "nopref@example.com", EmailVerified: true, Groups: []string{"staff"}}
	e.idp.Users["bearer-noemail"] = &world.User{Sub: "bne-sub", Groups: []string{"b1"}, PreferredUsername: "bne"}

	mint := mustProxy(&ProxyCfg{Flags: c07BaseFlags(e)})
	e.creds = append(e.creds, e.mintStoreCreds(mint, "cookie")...)
	var aliceCookie string
	if cr := e.cred("cookie-oidc-alice"); cr != nil {
		aliceCookie = cr.Cookie
	}
	// Authorization-borne credentials
	e.creds = append(e.creds, &c07Cred{Kind: "basic-htpasswd", Authz: basicAuth("hugo", "pw1"), Cands: []c07Cand{{User: "hugo"}}})
	jwtAlice := e.idp.MintIDToken(e.idp.Users["alice"], nil)
	e.creds = append(e.creds, &c07Cred{Kind: "bearer", Authz: "Bearer " + jwtAlice, Cands: []c07Cand{{User: "alice-sub", AT: jwtAlice, IDT: jwtAlice, Bearer: true}}})
	jwtNE := e.idp.MintIDToken(e.idp.Users["bearer-noemail"], nil)
	e.creds = append(e.creds, &c07Cred{Kind: "bearer-noemail", Authz: "Bearer " + jwtNE, Cands: []c07Cand{{User: "bne-sub", AT: jwtNE, IDT: jwtNE, Bearer: true}}})
	// a cookie of alice and a bearer token of bob in one request: whichever the proxy
	// authenticates (userinfo tells), the headers must describe that one
	jwtBob := e.idp.MintIDToken(e.idp.Users["bob"], nil)
	var aliceCand c07Cand
	if len(e.creds) > 0 && e.creds[0].Kind == "cookie-oidc-alice" {
		aliceCand = e.creds[0].Cands[0]
	}
	e.creds = append(e.creds, &c07Cred{Kind: "cookie-alice+bearer-bob", Cookie: aliceCookie, Authz: "Bearer " + jwtBob,
		Cands: []c07Cand{aliceCand, {User: "bob-sub", AT: jwtBob, IDT: jwtBob, Bearer: true}}})
	e.creds = append(e.creds, &c07Cred{Kind: "none"})
	e.up.Take()
	return e
}

func (e *c07Env) cred(kind string) *c07Cred {
	for _, cr := range e.creds {
		if cr.Kind == kind {
			return cr
		}
	}
	return nil
}

func (e *c07Env) build(cfg *c07Config) (*Proxy, error) {
	var rd *world.Redis
	if cfg.Store == "redis" {
		rd = e.redis()
	}
	var extra []string
	if cfg.Refresh {
		extra = []string{"--cookie-refresh=1m"} // pflag: the last occurrence of a flag wins
	}
	if cfg.Alpha != nil {
		return e.buildAlpha(cfg, rd, extra)
	}
	if cfg.Legacy != nil {
		return buildProxy(&ProxyCfg{Flags: append(append(c07BaseFlags(e), cfg.Legacy.args()...), extra...), Redis: rd})
	}
	flags := append(append(c07BaseFlags(e), "--pass-basic-auth=false", "--pass-user-headers=false"), extra...)
	return buildProxy(&ProxyCfg{Flags: flags, Redis: rd, Mutate: func(o *options.Options) {
		o.InjectRequestHeaders = c07ToOptions(cfg.ref.Req)
		o.InjectResponseHeaders = c07ToOptions(cfg.ref.Resp)
	}})
}

// ---------------------------------------------------------------------------------------------
// client header sets

var c07Styles = []string{"none", "canonical", "lower", "upper", "mixed", "repeated", "comma", "connection", "empty-first", "connection-lines"}

// thorough tier only
var c07ExtraStyles = []string{"repeated-credential-last", "empty-value", "comma-no-space"}

func c07StylesFor(quick bool) []string {
	if quick {
		return c07Styles
	}
	return append(append([]string{}, c07Styles...), c07ExtraStyles...)
}

// names the client spoofs in every request: everything any configuration of this check may configure
var c07SpoofNames = []string{
	"X-Forwarded-User", "X-Forwarded-Email", "X-Forwarded-Groups", "X-Forwarded-Preferred-Username", "X-Forwarded-Access-Token",
	"X-Auth-Request-User", "X-Auth-Request-Email", "X-Auth-Request-Groups", "X-Auth-Request-Preferred-Username", "X-Auth-Request-Access-Token",
	"X-Verif-User", "X-Verif-Groups", "X-Verif-Email-Prefixed", "X-Verif-Basic", "X-Verif-Secret", "X-Verif-Multi", "X-Verif-Unknown",
	"X-Verif-Novalues", "X-Verif-Tokens",
}

// c07ClientHeaders builds the header set of one request: credential + spoofed names in `style`.
func c07ClientHeaders(cr *c07Cred, style string) [][2]string {
	var h [][2]string
	if cr.Cookie != "" {
		h = append(h, [2]string{"Cookie", cr.Cookie})
	}
	h = append(h, [2]string{"X-Unrelated", "keep-" + style}, [2]string{"X_Forwarded_User", "underscore-" + style})
	evilAuthz := func(tag string) string { return "Basic " + b64Std([]byte("evil-"+style+tag+":x")) }
	switch style {
	case "none":
		if cr.Authz != "" {
			h = append(h, [2]string{"Authorization", cr.Authz})
		}
	case "connection":
		// no value under the configured names; the names are listed as hop-by-hop in Connection
		if cr.Authz != "" {
			h = append(h, [2]string{"Authorization", cr.Authz})
		}
		h = append(h, [2]string{"Connection", "keep-alive, Authorization, " + strings.Join(c07SpoofNames, ", ")})
	case "connection-lines":
		// the same over several Connection lines, the first of which is an ordinary option (a field
		// that occurs more than once is one comma-separated list, RFC 9110 5.3)
		if cr.Authz != "" {
			h = append(h, [2]string{"Authorization", cr.Authz})
		}
		h = append(h, [2]string{"Connection", "keep-alive"}, [2]string{"Connection", "Authorization, " + strings.Join(c07SpoofNames[:len(c07SpoofNames)/2], ", ")},
			[2]string{"connection", strings.ToLower(strings.Join(c07SpoofNames[len(c07SpoofNames)/2:], ", "))})
	case "canonical", "lower", "upper", "mixed":
		for i, n := range c07SpoofNames {
			h = append(h, [2]string{c07CaseName(n, style), fmt.Sprintf("evil-%s-%d", style, i)})
		}
		az := cr.Authz // the credential itself is a client value under a possibly configured name
		if az == "" {
			az = evilAuthz("")
		}
		h = append(h, [2]string{c07CaseName("Authorization", style), az})
	case "repeated":
		for i, n := range c07SpoofNames {
			h = append(h, [2]string{n, fmt.Sprintf("evil-rep-%d-a", i)}, [2]string{strings.ToLower(n), fmt.Sprintf("evil-rep-%d-b", i)})
		}
		if cr.Authz != "" {
			h = append(h, [2]string{"Authorization", cr.Authz}, [2]string{"authorization", evilAuthz("")})
		} else {
			h = append(h, [2]string{"Authorization", evilAuthz("a")}, [2]string{"AUTHORIZATION", evilAuthz("b")})
		}
	case "repeated-credential-last":
		for i, n := range c07SpoofNames {
			h = append(h, [2]string{strings.ToUpper(n), fmt.Sprintf("evil-rcl-%d-a", i)}, [2]string{n, fmt.Sprintf("evil-rcl-%d-b", i)}, [2]string{c07CaseName(n, "mixed"), fmt.Sprintf("evil-rcl-%d-c", i)})
		}
		h = append(h, [2]string{"authorization", evilAuthz("")})
		if cr.Authz != "" {
			h = append(h, [2]string{"Authorization", cr.Authz})
		}
	case "empty-first":
		// every name twice: an empty first occurrence, then a value, in another letter case ("any multiplicity")
		for i, n := range c07SpoofNames {
			h = append(h, [2]string{n, ""}, [2]string{strings.ToLower(n), fmt.Sprintf("evil-ef-%d", i)})
		}
		if cr.Authz != "" {
			h = append(h, [2]string{"Authorization", cr.Authz})
		}
	case "empty-value":
		for _, n := range c07SpoofNames {
			h = append(h, [2]string{n, ""})
		}
		if cr.Authz != "" {
			h = append(h, [2]string{"Authorization", cr.Authz})
		} else {
			h = append(h, [2]string{"Authorization", ""})
		}
	case "comma-no-space":
		for i, n := range c07SpoofNames {
			h = append(h, [2]string{strings.ToLower(n), fmt.Sprintf("evil-cns-%d-a,evil-cns-%d-b", i, i)})
		}
		if cr.Authz != "" {
			h = append(h, [2]string{"Authorization", evilAuthz("") + "," + cr.Authz})
		} else {
			h = append(h, [2]string{"Authorization", evilAuthz("a") + "," + evilAuthz("b")})
		}
	case "comma":
		for i, n := range c07SpoofNames {
			h = append(h, [2]string{n, fmt.Sprintf("evil-com-%d-a, evil-com-%d-b,evil-com-%d-c", i, i, i)})
		}
		if cr.Authz != "" {
			h = append(h, [2]string{"Authorization", cr.Authz + ", " + evilAuthz("")})
		} else {
			h = append(h, [2]string{"Authorization", evilAuthz("a") + ", " + evilAuthz("b")})
		}
	}
	return h
}

func c07ClientTokens(hdrs [][2]string, name string) []string {
	var lines []string
	for _, h := range hdrs {
		if strings.EqualFold(h[0], name) {
			lines = append(lines, h[1])
		}
	}
	return c07Tokens(lines)
}

// ---------------------------------------------------------------------------------------------
// paths

type c07Path struct {
	Name, Method, Target, Remote string
	Bypass, AuthOnly             bool
}

var c07Paths = []c07Path{
	{Name: "proxied", Method: "GET", Target: "/app/x?q=1"},
	{Name: "auth-only", Method: "GET", Target: "/oauth2/auth", AuthOnly: true},
	{Name: "bypass-route", Method: "GET", Target: "/bypass/x", Bypass: true},
	{Name: "bypass-trusted-ip", Method: "GET", Target: "/app/y", Remote: "10.9.9.9:4711", Bypass: true},
	{Name: "bypass-preflight", Method: "OPTIONS", Target: "/app/z", Bypass: true},
	{Name: "auth-only-trusted-ip", Method: "GET", Target: "/oauth2/auth", Remote: "10.9.9.9:4711", Bypass: true, AuthOnly: true},
}

// ---------------------------------------------------------------------------------------------
// one case

type c07Case struct {
	Config  *c07Config `json:"config"`
	Cred    string     `json:"credential"`
	Style   string     `json:"client_header_style"`
	Path    string     `json:"path"`
	Session *c07Sess   `json:"session_ground_truth"`
	Header  string     `json:"header,omitempty"`
	Sent    []string   `json:"client_sent,omitempty"`
	Expect  [][]string `json:"admissible_values,omitempty"`
	Observe []string   `json:"observed_values,omitempty"`
	Outcome string     `json:"outcome,omitempty"`
}

// truth asks /oauth2/userinfo which session the same request headers authenticate.
func (e *c07Env) truth(px *Proxy, cr *c07Cred, hdrs [][2]string) (*c07Sess, error) {
	resp := world.Serve(px.H, &world.Req{Method: "GET", Target: "/oauth2/userinfo", Host: c07Host, Headers: hdrs})
	if resp.Panic != nil {
		return nil, fmt.Errorf("userinfo panicked: %v", resp.Panic)
	}
	if resp.Status == http.StatusUnauthorized {
		return nil, nil
	}
	if resp.Status != http.StatusOK {
		return nil, fmt.Errorf("userinfo status %d", resp.Status)
	}
	var ui struct {
		User   string   `json:"user"`
		Email  string   `json:"email"`
		Groups []string `json:"groups"`
		Pref   string   `json:"preferredUsername"`
	}
	if err := json.Unmarshal([]byte(resp.Body), &ui); err != nil {
		return nil, fmt.Errorf("userinfo body %q: %v", resp.Body, err)
	}
	s := &c07Sess{User: ui.User, Email: ui.Email, Groups: ui.Groups, Pref: ui.Pref}
	for _, cand := range cr.Cands {
		if cand.User == ui.User {
			s.AT, s.IDT, s.RT, s.Bearer = cand.AT, cand.IDT, cand.RT, cand.Bearer
			return s, nil
		}
	}
	return nil, fmt.Errorf("userinfo reports user %q which no presented credential belongs to", ui.User)
}

type c07Fail struct {
	Key, Msg string
	Case     c07Case
}

// check one configured header against the observation
// c07AmbiguityReasons names the open details that change the expectation of this header check.
func c07AmbiguityReasons(h c07Hdr, s *c07Sess, bypass bool) []string {
	base := c07Reading{Chain: 0, BearerAT: true, SecretNoSess: true, BypassInject: true}
	k0 := c07Key(c07Tokens(c07Eval(h, s, bypass, base)))
	var out []string
	alt := func(name string, rd c07Reading) {
		if c07Key(c07Tokens(c07Eval(h, s, bypass, rd))) != k0 {
			out = append(out, name)
		}
	}
	r := base
	r.Chain = 1
	alt("prefer-email-reading", r)
	r.Chain = 2
	if len(out) == 0 {
		alt("prefer-email-reading", r)
	}
	r = base
	r.BearerAT = false
	alt("bearer-access-token", r)
	r = base
	r.SecretNoSess = false
	alt("secret-without-session", r)
	r = base
	r.BypassInject = false
	alt("bypass-with-credential", r)
	if h.Optional {
		out = append(out, "optional-name")
	}
	if h.PreserveOpen {
		out = append(out, "preserve-differs-between-spellings")
	}
	return out
}

func c07CheckHeader(h c07Hdr, request bool, s *c07Sess, bypass bool, client, obs []string, style string) (ok bool, ambiguous bool, adm [][]string, why string) {
	seen := map[string]bool{}
	for _, rd := range c07Readings() {
		t := c07Tokens(c07Eval(h, s, bypass, rd))
		if !seen[c07Key(t)] {
			seen[c07Key(t)] = true
			adm = append(adm, t)
		}
	}
	ambiguous = len(adm) > 1 || h.Optional || (request && h.PreserveOpen)
	if !request {
		client = nil
	}
	for _, e := range adm {
		if request && h.Preserve {
			// the operator chose to preserve: injected values plus nothing but what the client sent
			if rest, has := c07Minus(obs, e); has && c07Subset(rest, client) {
				return true, ambiguous, adm, ""
			}
		} else if c07Key(e) == c07Key(obs) {
			return true, ambiguous, adm, ""
		}
	}
	if h.Optional && c07Key(obs) == c07Key(client) {
		return true, ambiguous, adm, "optional-untouched"
	}
	// classify
	foreign := false
	for _, t := range obs {
		isClient := false
		for _, ct := range client {
			if ct == t {
				isClient = true
			}
		}
		inExp := false
		for _, e := range adm {
			for _, et := range e {
				if et == t {
					inExp = true
				}
			}
		}
		if isClient && !inExp {
			foreign = true
		}
	}
	switch {
	case foreign && !(request && h.Preserve):
		why = "client-value"
	case strings.HasPrefix(style, "connection") && len(obs) == 0:
		why = "connection-drop"
	default:
		why = "mismatch"
	}
	return false, ambiguous, adm, why
}

// runCase executes one (configuration, credential, style, path) case. It returns the failures
// (one per header name at most) and whether the request was served (forwarded / 202).
func (e *c07Env) runCase(px *Proxy, cfg *c07Config, cr *c07Cred, style string, p c07Path, sess *c07Sess, count bool) (fails []c07Fail, served bool) {
	c := e.c
	hdrs := c07ClientHeaders(cr, style)
	e.up.Take()
	resp := world.Serve(px.H, &world.Req{Method: p.Method, Target: p.Target, Host: c07Host, Headers: hdrs, Remote: p.Remote})
	log := e.up.Take()
	e.lastResp, e.lastUp = resp, nil
	if len(log) > 0 {
		e.lastUp = log[0]
	}
	if e.afterServe != nil {
		e.afterServe()
	}
	base := c07Case{Config: cfg, Cred: cr.Kind, Style: style, Path: p.Name, Session: sess}
	if resp.Panic != nil {
		cs := base
		cs.Outcome = fmt.Sprintf("panic: %v", resp.Panic)
		return []c07Fail{{Key: "C07/panic@" + resp.PanicSite(), Msg: fmt.Sprintf("%s: %s %s with %s/%s panics: %v", cfg.Name, p.Method, p.Target, cr.Kind, style, resp.Panic), Case: cs}}, false
	}
	inc := func(name string) {
		if count {
			c.Inc(name)
		}
	}
	var list []c07Hdr
	var get func(name string) []string
	where := "upstream request"
	if p.AuthOnly {
		if resp.Status != http.StatusAccepted {
			inc("not_served:" + p.Name)
			return nil, false
		}
		list = cfg.ref.Resp
		get = func(name string) []string { return resp.Header.Values(name) }
		where = "auth-only response"
		// nothing the client sent under a spoofed name may be reflected in any response header
		for name, vals := range resp.Header {
			for _, t := range c07Tokens(vals) {
				if strings.HasPrefix(t, "evil-") || strings.HasPrefix(t, "underscore-") {
					cs := base
					cs.Header, cs.Observe = name, vals
					fails = append(fails, c07Fail{Key: "C07/auth-only-response-reflects-client-value", Msg: fmt.Sprintf("%s: auth-only response header %s carries the client-supplied value %q", cfg.Name, name, t), Case: cs})
				}
			}
		}
	} else {
		if len(log) == 0 {
			inc("not_served:" + p.Name)
			return nil, false
		}
		if len(log) > 1 {
			c.Error("C07: one request produced %d upstream requests", len(log))
		}
		up := log[0]
		list = cfg.ref.Req
		get = func(name string) []string { return up.Header.Values(name) }
		if count {
			if c07Key(c07Tokens(get("X-Unrelated"))) == c07Key([]string{"keep-" + style}) {
				c.Inc("unrelated_header_arrived")
			}
			if len(get("X_forwarded_user")) > 0 {
				c.Inc("info_underscore_variant_arrived")
			}
		}
	}
	served = true
	if sess == nil && !p.Bypass {
		inc("served_without_session_and_without_bypass") // C01's business; headers are still checked
	}
	anyAmb := false
	for _, h := range list {
		canon := textproto.CanonicalMIMEHeaderKey(h.Name)
		obs := c07Tokens(get(canon))
		client := c07ClientTokens(hdrs, h.Name)
		ok, amb, adm, why := c07CheckHeader(h, !p.AuthOnly, sess, p.Bypass, client, obs, style)
		inc("header_checks")
		if amb {
			anyAmb = true
			inc("ambiguous_header_checks")
			if count {
				for _, r := range c07AmbiguityReasons(h, sess, p.Bypass) {
					c.Inc("ambiguous_because:" + r)
				}
			}
		}
		if !p.AuthOnly {
			if len(client) > 0 && !h.Preserve {
				inc("spoofed_nonpreserved_names_checked")
			}
			if len(client) > 0 && h.Preserve {
				inc("spoofed_preserved_names_checked")
			}
			if len(client) > 0 && sess == nil && p.Bypass {
				// a request that reaches the upstream without a session: strip on / off for this name
				if h.Preserve {
					inc("bypass_without_session_spoofed_preserved_names_checked")
				} else {
					inc("bypass_without_session_spoofed_nonpreserved_names_checked")
				}
			}
		}
		if ok {
			if why == "optional-untouched" && len(client) > 0 {
				inc("info_optional_name_left_untouched_client_value_arrived")
			}
			if len(obs) > 0 {
				inc("header_checks_with_value")
			} else {
				inc("header_checks_without_value")
			}
			continue
		}
		cs := base
		cs.Header, cs.Sent, cs.Expect, cs.Observe = canon, client, adm, obs
		var key string
		switch why {
		case "client-value":
			key = "C07/client-value-reaches-upstream@" + p.Name
			if p.AuthOnly {
				key = "C07/auth-only-response-reflects-client-value"
			}
		case "connection-drop":
			key = "C07/connection-header-removes-injected-value"
		default:
			key = "C07/wrong-values@" + p.Name
		}
		fails = append(fails, c07Fail{Key: key, Case: cs,
			Msg: fmt.Sprintf("%s, credential %s, client headers %q, %s %s: %s header %s carries %q; admissible (derived from the session): %q; client sent %q under that name (preserve=%v)",
				cfg.Name, cr.Kind, style, p.Method, p.Target, where, canon, obs, adm, client, h.Preserve)})
	}
	if anyAmb {
		inc("ambiguous")
	}
	return fails, served
}

// conversion: the names (and the preserve bit) the flags produced, against the table
func c07CheckConversion(c *Ctx, cfg *c07Config, px *Proxy) {
	cmp := func(kind string, ref []c07Hdr, got []options.Header) {
		g := map[string]options.Header{}
		for _, h := range got {
			g[textproto.CanonicalMIMEHeaderKey(h.Name)] = h
		}
		r := map[string]bool{}
		for _, h := range ref {
			r[h.Name] = true
			gh, ok := g[h.Name]
			c.Inc("conversion_checks")
			if !ok {
				if !h.Optional {
					c.Violate("C07/legacy-conversion-missing-"+kind+"-name", fmt.Sprintf("flags %v: the documentation makes %s a configured %s header, the converted options do not contain it", cfg.Legacy.args(), h.Name, kind), len(ref), cfg)
				}
				continue
			}
			if kind == "request" && gh.PreserveRequestValue != h.Preserve {
				c.Violate("C07/legacy-conversion-preserve", fmt.Sprintf("flags %v: %s has preserveRequestValue=%v, skip-auth-strip-headers=%v demands %v", cfg.Legacy.args(), h.Name, gh.PreserveRequestValue, cfg.Legacy.Strip, h.Preserve), len(ref), cfg)
			}
		}
		for n := range g {
			if !r[n] {
				c.Inc("info_conversion_extra_names")
			}
		}
	}
	cmp("request", cfg.ref.Req, px.Opts.InjectRequestHeaders)
	cmp("response", cfg.ref.Resp, px.Opts.InjectResponseHeaders)
}

var c07Confirmed = map[string]int{}

func c07Report(e *c07Env, px *Proxy, cfg *c07Config, cr *c07Cred, style string, p c07Path, f c07Fail) {
	size := len(cfg.ref.Req) + len(cfg.ref.Resp)
	if style != "none" {
		size += 2
	}
	if !strings.HasPrefix(cr.Kind, "cookie-oidc-alice") {
		size++
	}
	// the first cases of every key are re-executed 5x; once a key is confirmed that often the
	// remaining cases of the same key are only counted
	if c07Confirmed[f.Key] >= 8 {
		e.c.Violate(f.Key, f.Msg, size, f.Case)
		return
	}
	c07Confirmed[f.Key]++
	again := func() (string, bool) {
		hdrs := c07ClientHeaders(cr, style)
		sess, err := e.truth(px, cr, hdrs)
		if err != nil {
			return "truth-error", false
		}
		fails, _ := e.runCase(px, cfg, cr, style, p, sess, false)
		for _, g := range fails {
			if g.Key == f.Key && g.Case.Header == f.Case.Header {
				return g.Key, true
			}
		}
		return "", false
	}
	e.c.confirm(f.Key, f.Msg, size, f.Case, again)
}

// runConfig runs every credential x style x path case of one configuration (with its per-configuration
// non-vacuity assertions); false = validation rejected the configuration.
func (e *c07Env) runConfig(cfg *c07Config, creds []*c07Cred, styles []string) bool {
	c := e.c
	px, err := e.build(cfg)
	if err != nil {
		c.Inc("configurations_rejected_by_validation")
		if cfg.rejectWhy == "" {
			c.Error("C07: configuration %s rejected although the reference table sees no reason: %v", cfg.Name, err)
		}
		return false
	}
	c.Inc("configurations_built")
	if cfg.rejectWhy != "" {
		// accepted although e.g. two headers share a name: not this property's business; the
		// reference evaluation simply concatenates
		c.Inc("info_configurations_accepted_despite_" + strings.ReplaceAll(strings.Fields(cfg.rejectWhy)[0], "-", "_"))
	}
	if cfg.Legacy != nil {
		c07CheckConversion(c, cfg, px)
	}
	servedBy := map[string]int{}
	spoofChecked := 0
	for _, cr := range creds {
		for _, style := range styles {
			hdrs := c07ClientHeaders(cr, style)
			sess, err := e.truth(px, cr, hdrs)
			if err != nil {
				c.Error("C07: %s %s/%s: %v", cfg.Name, cr.Kind, style, err)
				continue
			}
			c.Inc("ground_truth_queries")
			if sess != nil {
				c.Inc("ground_truth_session:" + cr.Kind)
			} else {
				c.Inc("ground_truth_no_session")
			}
			for _, p := range c07Paths {
				before := c.Counters["spoofed_nonpreserved_names_checked"]
				fails, served := e.runCase(px, cfg, cr, style, p, sess, true)
				c.Inc("evaluations")
				spoofChecked += int(c.Counters["spoofed_nonpreserved_names_checked"] - before)
				if served {
					cls := p.Name + "/no-session"
					if sess != nil {
						cls = p.Name + "/session"
					}
					servedBy[cls]++
					c.Inc("served:" + cls)
					if len(cfg.ref.Req)+len(cfg.ref.Resp) > 0 {
						c.Distinct("distinct_nontrivial", cfg.Name+"|"+cr.Kind+"|"+style+"|"+p.Name)
					}
					c.Sample(4, c07Case{Config: cfg, Cred: cr.Kind, Style: style, Path: p.Name, Session: sess, Outcome: "held"})
				} else if sess != nil || p.Bypass {
					c.Inc("info_expected_served_but_was_not")
				}
				for _, f := range fails {
					c07Report(e, px, cfg, cr, style, p, f)
				}
			}
		}
	}
	// non-vacuity, per configuration
	for _, cls := range []string{"proxied/session", "auth-only/session", "bypass-route/session", "bypass-route/no-session",
		"bypass-trusted-ip/no-session", "bypass-preflight/no-session", "auth-only-trusted-ip/no-session", "auth-only-trusted-ip/session"} {
		if servedBy[cls] == 0 {
			c.Error("C07 vacuous: configuration %s never served a %s request", cfg.Name, cls)
		}
	}
	nonPres := 0
	for _, h := range cfg.ref.Req {
		if !h.Preserve {
			nonPres++
		}
	}
	if nonPres > 0 && spoofChecked == 0 {
		c.Error("C07 vacuous: configuration %s has %d non-preserved request names but no spoofed one was checked", cfg.Name, nonPres)
	}
	return true
}

func c07Run(c *Ctx) {
	e := c07NewEnv(c)
	defer e.up.Close()
	cfgs := c07Configs(c.Quick())
	c.Info["alphabet"] = map[string]int{"configurations": len(cfgs), "structured_configurations": len(c07Structured()), "credentials": len(e.creds),
		"client_header_styles": len(c07StylesFor(c.Quick())), "paths": len(c07Paths), "spoofed_names_per_request": len(c07SpoofNames) + 1, "readings": len(c07Readings())}
	var kinds []string
	for _, cr := range e.creds {
		kinds = append(kinds, cr.Kind)
	}
	c.Info["credentials"] = kinds
	styles := c07StylesFor(c.Quick())
	c.Info["client_header_styles"] = styles
	c07Concurrent(c, e)
	for ci, cfg := range cfgs {
		if !c.Mine(ci) {
			continue
		}
		if c.Expired() {
			return
		}
		e.runConfig(cfg, e.creds, styles)
	}
	// Redis session store, alpha-config YAML header lists, refreshed sessions (c07_alpha_test.go)
	c07Extended(c, e, cfgs, styles)
	for _, cr := range e.creds {
		if cr.Kind != "none" && c.Counters["configurations_built"] > 0 && c.Counters["ground_truth_session:"+cr.Kind] == 0 {
			c.Error("C07 vacuous: credential %s never authenticated", cr.Kind)
		}
	}
	if c.Counters["configurations_built"] > 0 && c.Counters["unrelated_header_arrived"] == 0 {
		c.Error("C07 vacuous: the unrelated client header never arrived at the upstream")
	}
}

func init() {
	register(&checkDef{
		id:    "C07",
		level: "exploration",
		rule:  "full product header configurations (all combinations of the legacy header flags x basic-auth-password on/off [thorough: x set-authorization-header] that pass validation + structured lists: 3 name spellings x 3 preserve patterns x 11 value shapes) x credentials (5 login sessions, 5 crafted cookie sessions, htpasswd, 2 bearer, cookie+bearer conflict, none) x 10 client header styles (every configured name spoofed canonical/lower/upper/mixed case, repeated, comma-joined, listed in Connection on one line and over several lines, empty first occurrence, none) [thorough: + credential-last repetition, empty values, comma-joined without space] x 6 paths (proxied, auth-only, bypass by route / trusted IP / preflight, auth-only from trusted IP); reference: header specification evaluated over the session reported by /oauth2/userinfo for the same headers and the provider's token issue log; non-trivial = served case (upstream hit or 202) under a configuration with at least one configured name. Further factors (c07_alpha_test.go): (1) session store: the structured lists and the legacy combinations [quick: those with a password and without prefer-email-to-user] built again with the Redis store x 10 Redis-stored sessions + conflict + none x styles x paths; (2) header lists written as an alpha-config YAML file and loaded through --alpha-config: value shape of entry A x value shape of entry B (user, multi-valued groups, absent claim, basicAuthPassword, static secret, several values [thorough: + prefixed e-mail, no values]) x relation of the two names (distinct, the same name twice = must be rejected, spellings differing only in letter case [thorough: + both non-canonical]) x preserveRequestValue of A x of B x secret source (value, fromFile, fromEnv [thorough: + ${VAR} substitution]; only for lists with a secret) + fixed tail (three tokens, Authorization), request and response lists, x 3 [thorough: 5] credentials x styles x 6 paths (incl. the three bypass kinds without a session, preserveRequestValue standing for skip-auth-strip-headers) [thorough: x both stores]; (3) refresh histories with --cookie-refresh=1m: token-bearing configurations x {Redis, cookie} x 2 users x styles x request that triggers the refresh (proxied, auth-only [thorough: + bypass by route, preflight]) followed by one request on each of the 6 paths: tokens must be those of the refresh grant in the provider's issue log, no header may contain a token of the previous generation",
		assumptions: []string{
			"header values are compared as comma-separated lists (several field lines = one comma-joined line), order ignored, empty items ignored",
			"admissible readings (counted as ambiguous when they differ): prefer-email-to-user with or without fall-back to the user name, and with or without effect on set-basic-auth; X-Forwarded-Email under prefer-email-to-user and X-Forwarded-Groups under pass-basic-auth alone configured or not; a bearer session's access token is the JWT or nothing; static secret values with or without a session; a bypassed request carrying a valid credential has a session or not",
			"for names the operator preserves the upstream may see the injected values plus any subset of what the client sent, nothing else",
			"header names differing from a configured name by more than letter case (X_Forwarded_User) are outside the statement; their arrival is counted as info only",
			"cookies minted by one proxy instance are presented to the others (same cookie secret and name)",
			"list entries whose names differ only in letter case configure one header (RFC 9110 field names are case-insensitive): it must carry the values of all of them; if their preserveRequestValue settings differ both treatments of client values are admissible (counted as ambiguous); the same name twice must be rejected by validation or, if accepted, is read the same way",
			"the request that makes the proxy refresh a session is already a request of the refreshed session: it carries the tokens issued by that refresh grant",
			"the part of the alpha-config file that is not under test (upstreams, server, provider) is the rendering of the structures --convert-config-to-alpha produces for the flags of the main part; the header lists are written as text by the harness",
		},
		shards: func(tier string) int { return 16 },
		run:    c07Run,
		post:   c07Post,
		replay: func(c *Ctx, raw json.RawMessage) string {
			var cr0 c07ConcReplay
			if json.Unmarshal(raw, &cr0) == nil && cr0.Kind == "concurrent-requests" {
				e := c07NewEnv(c)
				defer e.up.Close()
				return c07ConcReplayOne(c, e, cr0)
			}
			var rf c07RefreshCase
			if json.Unmarshal(raw, &rf) == nil && rf.Kind == "refresh" {
				e := c07NewEnv(c)
				defer e.up.Close()
				return c07RefreshReplay(c, e, rf)
			}
			var cs c07Case
			if err := json.Unmarshal(raw, &cs); err != nil || cs.Config == nil {
				return "not a C07 case"
			}
			e := c07NewEnv(c)
			defer e.up.Close()
			defer func() {
				if e.rd != nil {
					e.rd.Close()
				}
			}()
			cfg := c07ResolveConfig(cs.Config)
			if cfg != nil && cfg.Alpha != nil && cs.Cred == "" {
				// the loaded-list comparison of the alpha part
				px, err := e.build(cfg)
				if err != nil {
					return "configuration rejected: " + err.Error()
				}
				c07AlphaLoaded(c, cfg, px)
				return fmt.Sprintf("loaded lists compared, differences=%d", len(c.Violations))
			}
			cr := e.cred(cs.Cred)
			if cr == nil && strings.HasPrefix(cs.Cred, "redis-") {
				e.redisCredentials()
				cr = e.redisCred(cs.Cred)
			}
			var path *c07Path
			for i := range c07Paths {
				if c07Paths[i].Name == cs.Path {
					path = &c07Paths[i]
				}
			}
			if cfg == nil || cr == nil || path == nil {
				return "case refers to an unknown configuration, credential or path"
			}
			px, err := e.build(cfg)
			if err != nil {
				return "configuration rejected: " + err.Error()
			}
			sess, err := e.truth(px, cr, c07ClientHeaders(cr, cs.Style))
			if err != nil {
				return "ground truth: " + err.Error()
			}
			fails, served := e.runCase(px, cfg, cr, cs.Style, *path, sess, false)
			for _, f := range fails {
				c.Violate(f.Key, f.Msg, 1, f.Case)
			}
			return fmt.Sprintf("served=%v failures=%d", served, len(fails))
		},
	})
}
