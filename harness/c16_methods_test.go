//go:build verif

package main

import (
	"fmt"
	"net/url"
	"strings"
	"time"

	"github.com/oauth2-proxy/oauth2-proxy/v7/verifx/world"
)

// C16, second part — request methods, the Redis store, never-honoured forwarding-style headers.
//
// The first part (c16_test.go) is a product over GET requests (plus one form POST) on cookie-store
// configurations. This part runs the same paired-run oracle over
//
//   - every method of {GET, HEAD, POST, PUT, DELETE, OPTIONS, PATCH} on every endpoint class
//     (application path with / without a credential, from a trusted peer, skip-auth and api routes,
//     auth-only, userinfo, start, sign_in, sign_out, callback: error, bogus state, valid — also with
//     the callback parameters in a form body), with and without --skip-auth-preflight;
//   - configurations that keep the session in Redis (the ticket cookie's Domain is chosen per
//     request; the operations on the store are part of the decision view);
//   - an alphabet of 18 headers: the six the statement names plus twelve forwarding-style headers
//     other proxies and frameworks honour (Forwarded, X-Forwarded-Port/-Prefix/-Scheme/-Server,
//     X-Original-URL/-Host, X-Rewrite-URL, X-Forwarded-Method, X-Envoy-External-Address,
//     CF-Connecting-IP, True-Client-IP): every single header and every pair, each header with one
//     value that would open something if believed (whitelisted host, https, skip-auth URI, trusted
//     address, allowed method) and one that would not.
//
// Reverse-proxy ON (c16RunOnMethods): for each of the five header names --real-client-ip-header
// accepts, every method, every value of the configured header and both kinds of peer, no
// assignment of the other 17 headers moves the trusted-IP outcome.
//
// Non-triviality is measured, as in the first part, but a twin in reverse-proxy mode says nothing
// about headers the proxy never reads. The rule here: a header value counts if the request
// property it imitates, set to that value, changes the answer — the forwarded host/scheme/URI
// given to the reverse-proxy twin in the header it does read, the method and the peer address
// put into the request itself.

var c16xMethods = []string{"GET", "HEAD", "POST", "PUT", "DELETE", "OPTIONS", "PATCH"}

const (
	c16xOpen    = "/open/x"       // --skip-auth-route=^/open (every method)
	c16xGetOnly = "/public/info"  // --skip-auth-route=GET=^/public
	c16xAPI     = "/api/data?q=1" // --api-route=^/api
	c16xProxied = "/oauth2/sign_in?rd=/x"
)

type c16xHeader struct {
	Name   string
	Vals   [2]string
	Kind   string // request property the header imitates: host port scheme uri prefix method addr forwarded
	Listed bool   // one of the twelve further headers (quick tier: all pairs among these)
	IP     bool   // carries a client address
}

var c16xHeaders = func() []c16xHeader {
	hosts := [2]string{"other.example.com", "evil.test"}
	addrs := [2]string{c16TrustedAddr, c16UntrustedAddr}
	uris := [2]string{c16xOpen, c16xProxied}
	schemes := [2]string{"https", "http"}
	return []c16xHeader{
		{"X-Forwarded-Host", hosts, "host", false, false},
		{"X-Forwarded-Proto", schemes, "scheme", false, false},
		{"X-Forwarded-Uri", uris, "uri", false, false},
		{"X-Forwarded-For", addrs, "addr", false, true},
		{"X-Real-IP", addrs, "addr", false, true},
		{"X-ProxyUser-IP", addrs, "addr", false, true},
		{"Forwarded", [2]string{"for=" + c16TrustedAddr + ";host=other.example.com;proto=https", "for=" + c16UntrustedAddr + ";host=evil.test;proto=http"}, "forwarded", true, true},
		{"X-Forwarded-Port", [2]string{"8443", "80"}, "port", true, false},
		{"X-Forwarded-Prefix", [2]string{"/open", "/oauth2"}, "prefix", true, false},
		{"X-Forwarded-Scheme", schemes, "scheme", true, false},
		{"X-Forwarded-Server", hosts, "host", true, false},
		{"X-Original-URL", uris, "uri", true, false},
		{"X-Original-Host", hosts, "host", true, false},
		{"X-Rewrite-URL", uris, "uri", true, false},
		{"X-Forwarded-Method", [2]string{"GET", "OPTIONS"}, "method", true, false},
		{"X-Envoy-External-Address", addrs, "addr", true, true},
		{"CF-Connecting-IP", addrs, "addr", true, true},
		{"True-Client-IP", addrs, "addr", true, true},
	}
}()

func c16xPart(i, digit int) string { return fmt.Sprintf("%s#%d", c16xHeaders[i].Name, digit) }

// c16xLookup: "Name#digit" -> header, value.
func c16xLookup(p string) (*c16xHeader, string) {
	i := strings.Index(p, "#")
	if i < 0 {
		return nil, ""
	}
	for k := range c16xHeaders {
		h := &c16xHeaders[k]
		if h.Name == p[:i] && (p[i+1:] == "1" || p[i+1:] == "2") {
			return h, h.Vals[int(p[i+1]-'1')]
		}
	}
	return nil, ""
}

func c16xLinesOfPart(p string) [][2]string {
	if h, v := c16xLookup(p); h != nil {
		return [][2]string{{h.Name, v}}
	}
	return nil
}

func c16xSingles(idx []int) []*c16Assign {
	var out []*c16Assign
	for _, i := range idx {
		for d := 1; d <= 2; d++ {
			p := c16xPart(i, d)
			out = append(out, &c16Assign{Lines: c16xLinesOfPart(p), Parts: []string{p}, Key: p})
		}
	}
	return out
}

func c16xPairs(idx []int) []*c16Assign {
	var out []*c16Assign
	for a := 0; a < len(idx); a++ {
		for b := a + 1; b < len(idx); b++ {
			for da := 1; da <= 2; da++ {
				for db := 1; db <= 2; db++ {
					pa, pb := c16xPart(idx[a], da), c16xPart(idx[b], db)
					out = append(out, &c16Assign{Lines: append(c16xLinesOfPart(pa), c16xLinesOfPart(pb)...), Parts: []string{pa, pb}, Key: pa + "," + pb})
				}
			}
		}
	}
	return out
}

// c16xIdx selects header indices by predicate.
func c16xIdx(keep func(h *c16xHeader) bool) []int {
	var out []int
	for i := range c16xHeaders {
		if keep(&c16xHeaders[i]) {
			out = append(out, i)
		}
	}
	return out
}

// ---------------------------------------------------------------------------------------------
// Redis configurations: one store per configuration, shared by the proxy and its twin; the
// content after the credential login is put back before every run (sign_out deletes the session,
// a completed login adds one), so every run starts on the same store.

type c16Store struct {
	R    *world.Redis
	vals map[string]string
	ttls map[string]time.Duration
}

func (e *c16Env) storeFor(cfg *c16Config) *c16Store {
	if s := e.stores[cfg.Name]; s != nil {
		return s
	}
	s := &c16Store{R: world.NewRedis()}
	e.stores[cfg.Name] = s
	return s
}

func (s *c16Store) snapshot() {
	s.vals, s.ttls = map[string]string{}, map[string]time.Duration{}
	for _, k := range s.R.M.Keys() {
		if v, err := s.R.M.Get(k); err == nil {
			s.vals[k], s.ttls[k] = v, s.R.M.TTL(k)
		}
	}
}

func (s *c16Store) restore() {
	s.R.M.FlushAll()
	for k, v := range s.vals {
		_ = s.R.M.Set(k, v)
		if t := s.ttls[k]; t > 0 {
			s.R.M.SetTTL(k, t)
		}
	}
	if s.R.NumCalls() > 20000 { // bound the call log; nothing is in flight between two runs
		s.R.Calls = nil
	}
}

func (e *c16Env) closeStores() {
	for _, s := range e.stores {
		s.R.Close()
	}
}

// ---------------------------------------------------------------------------------------------
// configurations and requests

func c16xConfigs() []*c16Config {
	routes := []string{"--skip-auth-route=GET=^/public", "--skip-auth-route=^/open", "--api-route=^/api"}
	domA := []string{"--cookie-domain=app.example.com", "--cookie-domain=other.example.com"}
	domB := []string{"--cookie-domain=.example.com", "--cookie-domain=evil.test"}
	spb := []string{"--skip-provider-button=true", "--code-challenge-method=S256", "--skip-auth-preflight=true"}
	a := c16Cat(c16TrustedFlags, routes, c16WhitelistFlags, domA)
	b := c16Cat(c16TrustedFlags, routes, c16WhitelistFlags, domB, spb)
	return []*c16Config{
		{Name: "x-signin", Flags: a, Trusted: true, Skip: true, API: true, Whitelist: true},
		{Name: "x-preflight-idp", Flags: b, Trusted: true, Skip: true, API: true, Whitelist: true, SPB: true, Preflight: true},
		{Name: "x-redis-signin", Flags: a, Trusted: true, Skip: true, API: true, Whitelist: true, Redis: true},
		{Name: "x-redis-preflight-idp", Flags: b, Trusted: true, Skip: true, API: true, Whitelist: true, SPB: true, Preflight: true, Redis: true},
		{Name: "x-force-https", Flags: routes, Skip: true, API: true, ForceHTTPS: true},
	}
}

// c16xSibling: the cookie-store configuration with the same flags (finding keys: is a difference
// specific to the Redis store?).
var c16xSibling = map[string]string{"x-redis-signin": "x-signin", "x-redis-preflight-idp": "x-preflight-idp"}

// c16xRequests: the endpoint classes for one method; the quick tier leaves out four variants of
// classes that stay represented (second start / callback-error / sign_out / auth-only request).
func c16xRequests(cfg *c16Config, method string, quick bool) []*c16Request {
	var out []*c16Request
	skip := map[string]bool{}
	if quick {
		skip = map[string]bool{"auth+cred": true, "start-rd-absolute": true, "sign_out": true, "callback-bogus-state": true}
	}
	add := func(name, target string, mod func(r *c16Request)) {
		if skip[name] {
			return
		}
		r := &c16Request{Name: method + " " + name, Method: method, Target: target, Host: c16Host, TLS: cfg.ForceHTTPS}
		if mod != nil {
			mod(r)
		}
		out = append(out, r)
	}
	cred := func(r *c16Request) { r.Cred = true }
	trusted := func(r *c16Request) { r.Remote = c16TrustedRemote }
	bodied := method == "POST" || method == "PUT" || method == "PATCH" // methods whose form body the server parses
	if cfg.ForceHTTPS {
		plain := func(r *c16Request) { r.TLS = false }
		add("protected", c16Protected, nil)
		add("plain:protected", c16Protected, plain)
		add("plain:open", c16xOpen, plain)
		add("plain:protected+cred", c16Protected, func(r *c16Request) { r.TLS = false; r.Cred = true })
		add("plain:start", "/oauth2/start?rd=%2Fprivate%2Fpage", plain)
		add("plain:auth", "/oauth2/auth", plain)
		return out
	}
	add("protected", c16Protected, nil)
	add("protected+cred", c16Protected, cred)
	add("protected@trusted-remote", c16Protected, trusted)
	add("get-only-route", c16xGetOnly, nil)
	add("open-route", c16xOpen, nil)
	add("api-route", c16xAPI, nil)
	add("auth", "/oauth2/auth", nil)
	add("auth+cred", "/oauth2/auth", cred)
	add("userinfo+cred", "/oauth2/userinfo", cred)
	add("start-rd-relative", "/oauth2/start?rd=%2Fprivate%2Fpage", nil)
	add("start-rd-absolute", "/oauth2/start?rd=https%3A%2F%2Fother.example.com%2Fx", nil)
	add("sign_in-rd-absolute", "/oauth2/sign_in?rd=https%3A%2F%2Fother.example.com%2Fx", nil)
	add("sign_out-rd-absolute+cred", "/oauth2/sign_out?rd=https%3A%2F%2Fother.example.com%2Fbye", cred)
	add("sign_out", "/oauth2/sign_out", nil)
	add("callback-error", "/oauth2/callback?error=access_denied", nil)
	add("callback-bogus-state", "/oauth2/callback?code=c&state=bogus%3A%2Fx", nil)
	add("callback-valid", "", func(r *c16Request) { r.Flow = "callback" })
	if bodied {
		form := func(r *c16Request) { r.Body = url.Values{"rd": {"https://other.example.com/bye"}}.Encode() }
		add("sign_out-rd-in-body+cred", "/oauth2/sign_out", func(r *c16Request) { form(r); r.Cred = true })
		add("start-rd-in-body", "/oauth2/start", form)
		add("callback-valid-form-post", "", func(r *c16Request) { r.Flow = "callback"; r.FormFlow = true })
	}
	return out
}

// c16xAllowed is the reference (docs/configuration/overview.md: --skip-auth-route,
// --skip-auth-preflight, --trusted-ip): may the request pass without a session?
func c16xAllowed(cfg *c16Config, r *c16Request) bool {
	path := pathOf(r.Target)
	switch {
	case r.Cred:
		return true
	case cfg.Trusted && r.Remote == c16TrustedRemote:
		return true
	case cfg.Preflight && r.Method == "OPTIONS":
		return true
	case cfg.Skip && strings.HasPrefix(path, "/open"):
		return true
	case cfg.Skip && strings.HasPrefix(path, "/public") && r.Method == "GET":
		return true
	}
	return false
}

// c16xFixture checks the baseline of an application-path or auth-only request against the
// reference (a wrong baseline is a harness error, never a violation).
func (e *c16Env) c16xFixture(b *c16xBlock) {
	cfg, r := b.Cfg, b.Rq
	if r.Flow != "" {
		if cls := b.Base.class(); cls != "login-complete" {
			e.c.Error("fixture: config %s request %s: the login flow ends in class %q, not in a redirect with a session cookie (%s)", cfg.Name, r.Name, cls, b.BaseStr)
		}
		return
	}
	path := pathOf(r.Target)
	cls := b.Base.class()
	want := ""
	switch {
	case cfg.ForceHTTPS && !r.TLS:
		want = "https-redirect"
	case path == "/oauth2/auth":
		want = "401"
		if c16xAllowed(cfg, r) {
			want = "202"
		}
	case !strings.HasPrefix(path, "/oauth2/"):
		if c16xAllowed(cfg, r) {
			want = "upstream"
		} else if cls == "upstream" {
			want = "anything but upstream"
		}
	}
	if want != "" && cls != want {
		e.c.Error("fixture: config %s request %s: baseline class %q, the documentation prescribes %q (%s)", cfg.Name, r.Name, cls, want, c16Clip(b.BaseStr, 600))
	}
}

// ---------------------------------------------------------------------------------------------
// blocks

type c16xBlock struct {
	No      int
	Cfg     *c16Config
	Rq      *c16Request
	Px      *Proxy
	Base    *c16Obs
	BaseStr string
	Eff     map[string]bool // part -> the imitated request property, set to the value, changes the answer
	single  map[string]int
}

// believed executes the request with the property that header part p imitates set to p's value
// and reports whether (and in which group of observed fields) the answer changes.
func (e *c16Env) believed(b *c16xBlock, p string, twinBase **c16Obs) (bool, string) {
	h, v := c16xLookup(p)
	gen := uint64(b.No)
	onTwin := func(lines [][2]string) (bool, string) {
		tw := e.proxy(b.Cfg, "X-Real-IP")
		if *twinBase == nil {
			*twinBase = e.run(tw, b.Cfg, b.Rq, nil, gen)
		}
		e.c.Inc("twin_runs")
		o := e.run(tw, b.Cfg, b.Rq, lines, gen)
		g, _ := c16Diff(*twinBase, o)
		return o.str() != (*twinBase).str(), g
	}
	direct := func(mod func(r *c16Request)) (bool, string) {
		r := *b.Rq
		mod(&r)
		e.c.Inc("twin_runs")
		o := e.run(b.Px, b.Cfg, &r, nil, gen)
		g, _ := c16Diff(b.Base, o)
		return o.str() != b.BaseStr, g
	}
	target := b.Rq.Target
	if target == "" {
		target = "/oauth2/callback"
	}
	switch h.Kind {
	case "host":
		return onTwin([][2]string{{"X-Forwarded-Host", v}})
	case "port":
		return onTwin([][2]string{{"X-Forwarded-Host", c16Host + ":" + v}})
	case "scheme":
		return onTwin([][2]string{{"X-Forwarded-Proto", v}})
	case "uri":
		return onTwin([][2]string{{"X-Forwarded-Uri", v}})
	case "prefix":
		return onTwin([][2]string{{"X-Forwarded-Uri", v + target}})
	case "forwarded":
		var lines [][2]string
		for _, kv := range strings.Split(v, ";") {
			switch {
			case strings.HasPrefix(kv, "for="):
				lines = append(lines, [2]string{"X-Real-IP", kv[4:]})
			case strings.HasPrefix(kv, "host="):
				lines = append(lines, [2]string{"X-Forwarded-Host", kv[5:]})
			case strings.HasPrefix(kv, "proto="):
				lines = append(lines, [2]string{"X-Forwarded-Proto", kv[6:]})
			}
		}
		return onTwin(lines)
	case "method":
		return direct(func(r *c16Request) { r.Method = v })
	case "addr":
		return direct(func(r *c16Request) { r.Remote = v + ":5555" })
	}
	return false, ""
}

func (e *c16Env) xblock(no int, cfg *c16Config, rq *c16Request) *c16xBlock {
	if b := e.xblocks[no]; b != nil {
		return b
	}
	c := e.c
	b := &c16xBlock{No: no, Cfg: cfg, Rq: rq, Px: e.proxy(cfg, ""), Eff: map[string]bool{}, single: map[string]int{}}
	gen := uint64(no)
	b.Base = e.run(b.Px, cfg, rq, nil, gen)
	b.BaseStr = b.Base.str()
	if again := e.run(b.Px, cfg, rq, nil, gen); again.str() != b.BaseStr {
		c.Unstable("config %s request %s: the baseline is not reproducible on an identically seeded world: %s vs %s", cfg.Name, rq.Name, b.BaseStr, again.str())
	}
	e.c16xFixture(b)
	c.Inc("mx_blocks")
	c.Inc("mx_base_class_" + b.Base.class())
	if rq.Flow == "" && !strings.HasPrefix(pathOf(rq.Target), "/oauth2/") && !(cfg.ForceHTTPS && !rq.TLS) {
		// application paths: passed on to the upstream or stopped, per method
		if b.Base.class() == "upstream" {
			c.Inc("mx_base_" + rq.Method + "_reached_upstream")
		} else {
			c.Inc("mx_base_" + rq.Method + "_stopped")
		}
	}
	if cfg.Preflight && rq.Method == "OPTIONS" && !rq.Cred && rq.Remote == "" && b.Base.class() == "upstream" {
		c.Inc("mx_preflight_passed_without_session")
	}
	if !cfg.Preflight && rq.Method == "OPTIONS" && !rq.Cred && rq.Remote == "" && pathOf(rq.Target) == pathOf(c16Protected) && b.Base.class() != "upstream" {
		c.Inc("mx_preflight_stopped_without_session")
	}
	var twinBase *c16Obs
	for i := range c16xHeaders {
		for d := 1; d <= 2; d++ {
			p := c16xPart(i, d)
			if diff, group := e.believed(b, p, &twinBase); diff {
				b.Eff[p] = true
				c.Inc("mx_would_matter_" + c16xHeaders[i].Name)
				c.Inc("mx_would_move_" + group)
				if cfg.Redis {
					c.Inc("mx_redis_would_move_" + group)
				}
			}
		}
	}
	e.xblocks[no] = b
	return b
}

func (b *c16xBlock) mkCase(a *c16Assign, obs *c16Obs) *c16Case {
	return &c16Case{Mode: "rp-off-methods", Config: b.Cfg.Name, Flags: b.Cfg.Flags, Request: b.Rq.Name, Method: b.Rq.Method, Body: b.Rq.Body, Target: b.Rq.Target, Host: b.Rq.Host, Remote: b.Rq.Remote,
		TLS: b.Rq.TLS, Cred: b.Rq.Cred, Headers: a.Lines, Expected: b.BaseStr, Observed: obs.str()}
}

// xkey builds the finding key of a difference: the first constituent header that has an effect
// on its own, the group of fields that differ and — if the same pair is equal under GET, or on
// the cookie-store sibling configuration — a mark that the difference is specific to other methods
// or to the Redis store.
func (e *c16Env) xkey(b *c16xBlock, a *c16Assign, x, y *c16Obs) string {
	gen := uint64(b.No)
	culprit := "combination"
	for _, p := range a.Parts {
		if b.single[p] == 0 {
			b.single[p] = 1
			if e.run(b.Px, b.Cfg, b.Rq, c16xLinesOfPart(p), gen).str() != b.BaseStr {
				b.single[p] = 2
			}
		}
		if b.single[p] == 2 {
			culprit = c16HeaderOfPart(p)
			break
		}
	}
	group, _ := c16Diff(x, y)
	if group == "" {
		group = "response"
	}
	key := fmt.Sprintf("C16/rp-off/%s/%s", culprit, group)
	if sib := c16xSibling[b.Cfg.Name]; sib != "" {
		for _, cfg := range c16xConfigs() {
			if cfg.Name == sib {
				px := e.proxy(cfg, "")
				if e.run(px, cfg, b.Rq, nil, gen).str() == e.run(px, cfg, b.Rq, a.Lines, gen).str() {
					return key + "@redis-store"
				}
			}
		}
	}
	if b.Rq.Method != "GET" {
		r := *b.Rq
		r.Method = "GET"
		// (comparable only if GET ends in the same class: a form body is not read under GET)
		if g0 := e.run(b.Px, b.Cfg, &r, nil, gen); g0.class() == x.class() && g0.str() == e.run(b.Px, b.Cfg, &r, a.Lines, gen).str() {
			return key + "@not-under-GET"
		}
	}
	return key
}

func (e *c16Env) xpair(b *c16xBlock, a *c16Assign) {
	c := e.c
	obs := e.run(b.Px, b.Cfg, b.Rq, a.Lines, uint64(b.No))
	c.Inc("evaluations")
	c.Inc("mx_pairs_reverse_proxy_off")
	c.Inc("mx_method_" + b.Rq.Method)
	if b.Cfg.Redis {
		c.Inc("mx_pairs_redis_store")
		for _, ck := range obs.Cookies {
			if strings.Contains(ck, "Domain=") {
				c.Inc("mx_redis_responses_with_cookie_domain")
				break
			}
		}
	}
	nontrivial := false
	for _, p := range a.Parts {
		if b.Eff[p] {
			nontrivial = true
		}
	}
	if nontrivial {
		if c.Distinct("distinct_nontrivial", fmt.Sprintf("mx-off|%d|%s", b.No, a.Key)) {
			c.Inc("mx_nontrivial")
			c.Inc("mx_nontrivial_method_" + b.Rq.Method)
		}
		if len(a.Parts) > 1 && b.Rq.Method != "GET" {
			c.Sample(5, b.mkCase(a, obs))
		}
	}
	if obs.str() == b.BaseStr {
		return
	}
	key := e.xkey(b, a, b.Base, obs)
	_, detail := c16Diff(b.Base, obs)
	msg := fmt.Sprintf("reverse-proxy OFF, config %s %v: request %s (%s) answered differently with forwarding headers %v: %s [without | with]", b.Cfg.Name, b.Cfg.Flags, b.Rq.Name, b.Rq.Target, a.Lines, detail)
	size := len(a.Lines)*1000 + len(b.Rq.Target) + len(b.Cfg.Flags)*10
	if b.Rq.Flow != "" {
		size += 500
	}
	cs := b.mkCase(a, obs)
	if e.confirmed[key] >= 2 {
		c.Violate(key, msg, size, cs)
		return
	}
	e.confirmed[key]++
	c.confirm(key, msg, size, cs, func() (string, bool) {
		x := e.run(b.Px, b.Cfg, b.Rq, nil, uint64(b.No))
		y := e.run(b.Px, b.Cfg, b.Rq, a.Lines, uint64(b.No))
		return e.xkey(b, a, x, y), x.str() != y.str()
	})
}

// runMethods: reverse-proxy OFF over methods x endpoint classes x (cookie | Redis) configurations.
func (e *c16Env) runMethods() {
	c := e.c
	all := c16xIdx(func(h *c16xHeader) bool { return true })
	singles := c16xSingles(all)
	pairIdx := all
	if c.Quick() {
		pairIdx = c16xIdx(func(h *c16xHeader) bool { return h.Listed })
	}
	pairs := c16xPairs(pairIdx)
	cfgs := c16xConfigs()
	unit, blockNo, nBlocks := 0, 1<<22, 0
	for _, cfg := range cfgs {
		for _, m := range c16xMethods {
			for _, rq := range c16xRequests(cfg, m, c.Quick()) {
				unit++
				blockNo++
				nBlocks++
				if !c.Mine(unit) || c.Expired() {
					continue
				}
				b := e.xblock(blockNo, cfg, rq)
				for _, a := range singles {
					e.xpair(b, a)
				}
				for _, a := range pairs {
					e.xpair(b, a)
				}
				if again := e.run(b.Px, cfg, rq, nil, uint64(b.No)); again.str() != b.BaseStr {
					c.Error("config %s request %s: baseline drifted during the block: %s vs %s", cfg.Name, rq.Name, b.BaseStr, again.str())
				}
			}
		}
	}
	c.Info["alphabet_methods_part_reverse_proxy_off"] = map[string]any{
		"methods": c16xMethods, "headers": len(c16xHeaders), "further_headers": len(c16xIdx(func(h *c16xHeader) bool { return h.Listed })),
		"values_per_header_incl_absent": 3, "configurations": len(cfgs), "redis_configurations": len(c16xSibling),
		"config_method_request_blocks": nBlocks, "singles_per_block": len(singles), "pairs_per_block": len(pairs), "headers_in_pairs": len(pairIdx),
	}
}

// ---------------------------------------------------------------------------------------------
// reverse-proxy ON: every method, the wider set of other headers

func (e *c16Env) runOnMethods() {
	c := e.c
	type hval struct {
		Name, Val string
		Want      int // 1 trusted, 0 untrusted, -1 not pinned down by the documentation
	}
	hvals := []hval{
		{"absent", "", -1},
		{"trusted", c16TrustedAddr, 1},
		{"untrusted", c16UntrustedAddr, 0},
	}
	if !c.Quick() {
		hvals = append(hvals, hval{"unparsable", "not-an-address", -1})
	}
	reqs := []*c16Request{
		{Name: "protected", Target: c16Protected, Host: c16Host},
		{Name: "auth", Target: "/oauth2/auth", Host: c16Host},
	}
	if !c.Quick() {
		reqs = append(reqs, &c16Request{Name: "userinfo", Target: "/oauth2/userinfo", Host: c16Host})
	}
	remotes := []string{"", c16TrustedRemote}
	unit, blockNo, nBlocks := 0, 1<<23, 0
	sizes := map[string]any{}
	nConfigured := 0
	for hi := range c16xHeaders {
		H := &c16xHeaders[hi]
		if !H.IP || H.Kind != "addr" || H.Name == "True-Client-IP" {
			continue // the five names --real-client-ip-header accepts
		}
		nConfigured++
		// same name and flags as the first part's configuration: the proxy is shared
		cfg := &c16Config{Name: "rp-on:" + H.Name, Flags: c16Cat(c16TrustedFlags, c16WhitelistFlags), Trusted: true, Whitelist: true}
		others := c16xIdx(func(h *c16xHeader) bool { return h.Name != H.Name })
		ipOthers := c16xIdx(func(h *c16xHeader) bool { return h.Name != H.Name && h.IP })
		singles := c16xSingles(others)
		pairIdx := others
		if c.Quick() {
			pairIdx = ipOthers
		}
		pairs := c16xPairs(pairIdx)
		sizes = map[string]any{"methods": c16xMethods, "values_of_configured_header": len(hvals), "requests": len(reqs), "remote_addresses": len(remotes),
			"other_headers": len(others), "other_address_headers": len(ipOthers), "singles_per_block": len(singles), "pairs_per_block": len(pairs), "headers_in_pairs": len(pairIdx)}
		for _, m := range c16xMethods {
			for _, rq := range reqs {
				for _, remote := range remotes {
					for _, hv := range hvals {
						unit++
						blockNo++
						nBlocks++
						if !c.Mine(unit) || c.Expired() {
							continue
						}
						px := e.proxy(cfg, H.Name)
						r := *rq
						r.Method, r.Remote, r.Name = m, remote, m+" "+rq.Name
						var fixed [][2]string
						if hv.Val != "" {
							fixed = [][2]string{{H.Name, hv.Val}}
						}
						gen := uint64(blockNo)
						base := e.run(px, cfg, &r, fixed, gen)
						baseOut := c16TrustedOutcome(base)
						c.Inc(fmt.Sprintf("mxon_baseline_trusted_%v", baseOut))
						c.Inc(fmt.Sprintf("mxon_baseline_%s_trusted_%v", m, baseOut))
						if hv.Want >= 0 && baseOut != (hv.Want == 1) {
							c.Error("vacuity: reverse-proxy ON, %s=%q, request %s: trusted-IP outcome %v, the documentation prescribes %v; the configured header does not decide, so the exploration means nothing (%s)",
								H.Name, hv.Val, r.Name, baseOut, hv.Want == 1, c16Clip(base.str(), 600))
						}
						single := map[string]int{}
						check := func(a *c16Assign) {
							lines := append(append([][2]string{}, fixed...), a.Lines...)
							obs := e.run(px, cfg, &r, lines, gen)
							got := c16TrustedOutcome(obs)
							c.Inc("evaluations")
							c.Inc("mxon_pairs_reverse_proxy_on")
							c.Inc("mxon_method_" + m)
							if hv.Want < 0 {
								c.Inc("ambiguous") // the reference leaves the outcome open; only the relational clause applies
							}
							// non-trivial: an address-bearing other header whose address lies on the other side
							// of the trusted networks than the outcome so far
							opposite := c16UntrustedAddr
							if !baseOut {
								opposite = c16TrustedAddr
							}
							for _, p := range a.Parts {
								if h, v := c16xLookup(p); h != nil && h.IP && strings.Contains(v, opposite) {
									if c.Distinct("distinct_nontrivial", fmt.Sprintf("mx-on|%d|%s", blockNo, a.Key)) {
										c.Inc("mxon_nontrivial")
									}
									break
								}
							}
							if got == baseOut {
								return
							}
							culprit := "combination"
							for _, p := range a.Parts {
								if single[p] == 0 {
									single[p] = 1
									l2 := append(append([][2]string{}, fixed...), c16xLinesOfPart(p)...)
									if c16TrustedOutcome(e.run(px, cfg, &r, l2, gen)) != baseOut {
										single[p] = 2
									}
								}
								if single[p] == 2 {
									culprit = c16HeaderOfPart(p)
									break
								}
							}
							key := fmt.Sprintf("C16/rp-on/%s-affects-trusted-ip", culprit)
							msg := fmt.Sprintf("reverse-proxy ON with --real-client-ip-header=%s (%s, remote %q): request %s: trusted-IP outcome %v becomes %v when the other headers %v are added", H.Name, hv.Name, remote, r.Name, baseOut, got, a.Lines)
							cs := &c16Case{Mode: "rp-on", Config: H.Name, Flags: cfg.Flags, Request: r.Name, Method: m, Target: r.Target, Host: r.Host, Remote: remote, Fixed: fixed, Headers: a.Lines,
								Expected: fmt.Sprintf("trusted=%v", baseOut), Observed: fmt.Sprintf("trusted=%v %s", got, obs.str())}
							size := len(a.Lines)*1000 + len(fixed)*100 + len(r.Target)
							if e.confirmed[key] >= 2 {
								c.Violate(key, msg, size, cs)
								return
							}
							e.confirmed[key]++
							c.confirm(key, msg, size, cs, func() (string, bool) {
								x := c16TrustedOutcome(e.run(px, cfg, &r, fixed, gen))
								y := c16TrustedOutcome(e.run(px, cfg, &r, lines, gen))
								return key, x != y
							})
						}
						for _, a := range singles {
							check(a)
						}
						for _, a := range pairs {
							check(a)
						}
					}
				}
			}
		}
	}
	sizes["configured_headers"] = nConfigured
	sizes["blocks"] = nBlocks
	c.Info["alphabet_methods_part_reverse_proxy_on"] = sizes
}

// ---------------------------------------------------------------------------------------------
// non-vacuity over the merged counters of all shards, replay

func c16xPost(c *Ctx) {
	need := func(name, why string) {
		if c.Counters[name] == 0 {
			c.Error("vacuity: counter %s is 0: %s", name, why)
		}
	}
	for _, m := range c16xMethods {
		need("mx_method_"+m, "no reverse-proxy-OFF pair was executed with this method")
		need("mx_nontrivial_method_"+m, "no header value would have mattered for any request with this method")
		need("mxon_method_"+m, "no reverse-proxy-ON pair was executed with this method")
		need("mx_base_"+m+"_reached_upstream", "no application-path baseline with this method reached the upstream")
		need("mx_base_"+m+"_stopped", "no application-path baseline with this method was stopped")
		need("mxon_baseline_"+m+"_trusted_true", "reverse-proxy ON: no baseline with this method was trusted")
		need("mxon_baseline_"+m+"_trusted_false", "reverse-proxy ON: no baseline with this method was untrusted")
	}
	for i := range c16xHeaders {
		need("mx_would_matter_"+c16xHeaders[i].Name, "believing this header would change no answer anywhere, so ignoring it proves nothing")
	}
	for _, g := range []string{"decision", "redirect", "cookie"} {
		need("mx_would_move_"+g, "no header value, if believed, would move this group of observed fields")
		need("mx_redis_would_move_"+g, "on the Redis configurations no header value, if believed, would move this group of observed fields")
	}
	for _, cls := range []string{"upstream", "401", "202", "200", "signin-page", "idp-redirect", "redirect", "login-complete", "error-page", "https-redirect"} {
		need("mx_base_class_"+cls, "no baseline of the methods part ended in this class")
	}
	need("mx_redis_responses_with_cookie_domain", "no Redis-store response set a cookie with a Domain attribute")
	need("mx_preflight_passed_without_session", "--skip-auth-preflight never let an OPTIONS request through")
	need("mx_preflight_stopped_without_session", "without --skip-auth-preflight no OPTIONS request was stopped")
	need("mxon_nontrivial", "no other header carried an address on the other side of the trusted networks")
}

// c16xReplay re-executes one recorded case of the methods part (reverse-proxy OFF).
func c16xReplay(c *Ctx, e *c16Env, cs *c16Case) string {
	for _, cfg := range c16xConfigs() {
		if cfg.Name != cs.Config {
			continue
		}
		for _, rq := range c16xRequests(cfg, cs.Method, false) {
			if rq.Name != cs.Request {
				continue
			}
			px := e.proxy(cfg, "")
			x := e.run(px, cfg, rq, nil, 1)
			y := e.run(px, cfg, rq, cs.Headers, 1)
			if x.str() != y.str() {
				g, d := c16Diff(x, y)
				c.Violate("C16/rp-off/replayed/"+g, d, 1, cs)
			}
			return c16Clip(fmt.Sprintf("without headers: %s; with headers: %s", x.str(), y.str()), 2400)
		}
	}
	return "unknown configuration or request in the replay file"
}
