//go:build verif

package main

import (
	"encoding/base64"
	"encoding/json"
	"fmt"
	"net/url"
	"regexp"
	"runtime/debug"
	"sort"
	"strconv"
	"strings"
	"time"

	"github.com/oauth2-proxy/oauth2-proxy/v7/pkg/cookies"
	"github.com/oauth2-proxy/oauth2-proxy/v7/verifx/world"
)

// C03 — a login completes only in the browser that started it (state <-> CSRF cookie). SEQ.
//
// Breadth-first search over operation histories. Operations:
//   start(b)                 browser b in {A,B} starts a login (/oauth2/start?rd=/pK, or a protected
//                            page under --skip-provider-button)
//   advance                  the virtual clock passes the CSRF cookie lifetime (at most once)
//   complete(sender, x, S, C, code)
//                            a callback request whose state parameter is variant S of the state of
//                            login x, whose cookies are what the jar of browser `sender` really holds
//                            (sender A/B) or a hand-made Cookie header C (sender "crafted"), and whose
//                            authorization code was freshly issued by the provider for login `code`
// A state is reached by replaying its history on a fresh world (proxy, jars, provider, clock,
// random stream) through the real handlers. Hand-made requests touch no jar, so they are
// evaluated as transitions that lead back to the same state; everything a browser sends may
// change its jar and is a candidate successor.
//
// Oracle (written from the statement, not from the code):
//   only-if   a session cookie in the callback response  =>  the received state carries the
//             unmodified nonce of login x AND the Cookie header contains the unmodified CSRF cookie
//             (name and value) this proxy set when it started login x.
//   error     a request that must not succeed is answered with an error page (status >= 400)
//             and no session cookie.
//   if        a browser that sends, from its jar, the unmodified state of its own login x with a
//             fresh code for x, while the model says the login is still outstanding, gets a
//             session cookie (status class and redirect target are counted, not required).
//             Outstanding (model, from the history alone):
//             per-request names: started in this browser, CSRF lifetime not passed, no earlier
//             callback of this browser for x; single name: additionally x is the most recent
//             start of the browser and the browser sent no callback at all since.
//   state     in every state, the CSRF cookie of every outstanding login is still sent by its
//             browser to the callback path.
//
// Bounds: quick <= 2 logins in A, <= 1 in B, histories of <= 5 operations, 8 configurations
// (per-request x encode-state x PKCE, logins started alternately through /oauth2/start and a
// protected page); modified states are paired with the cookie variants own/none/all/dup-own-first
// and browsers send a reduced set of modified states. thorough <= 3 logins in A, <= 1 in B,
// <= 7 operations, 16 configurations (both start paths separately), full product.
// Knobs for sizing experiments: VERIF_C03_MAXA, VERIF_C03_DEPTH, VERIF_C03_FULL, VERIF_C03_BATCH,
// VERIF_C03_SKELETON, VERIF_ONLY (one configuration).

// ---------------------------------------------------------------------------------------------
// configuration

type c03Cfg struct {
	PerRequest bool   `json:"csrf_per_request"`
	Encode     bool   `json:"encode_state"`
	PKCE       bool   `json:"pkce_s256"`
	Via        string `json:"start_via"` // "start" = /oauth2/start, "page" = protected page with skip-provider-button, "mixed" = odd logins start, even logins page
}

func (k c03Cfg) String() string {
	return fmt.Sprintf("perreq=%v,encode=%v,pkce=%v,via=%s", k.PerRequest, k.Encode, k.PKCE, k.Via)
}

const (
	c03Secret2    = "fedcba9876543210fedcba9876543210"
	c03Host       = "app.example.com"
	c03CSRFExpire = 15 * time.Minute
)

func (k c03Cfg) flags(secret string) []string {
	f := []string{
		"--provider=oidc",
		"--oidc-issuer-url=" + world.Issuer,
		"--client-id=" + world.ClientID,
		"--client-secret=" + world.ClientSecret,
		"--cookie-secret=" + secret,
		"--http-address=-",
		"--upstream=static://200",
		"--email-domain=*",
		"--cookie-secure=false",
		"--cookie-csrf-expire=15m",
		"--cookie-csrf-per-request=" + strconv.FormatBool(k.PerRequest),
		"--encode-state=" + strconv.FormatBool(k.Encode),
	}
	if k.PKCE {
		f = append(f, "--code-challenge-method=S256")
	}
	if k.Via != "start" {
		f = append(f, "--skip-provider-button=true")
	}
	return f
}

func c03Configs(quick bool) []c03Cfg {
	vias := []string{"start", "page"}
	if quick {
		vias = []string{"mixed"}
	}
	var out []c03Cfg
	for _, via := range vias {
		for _, pr := range []bool{true, false} {
			for _, enc := range []bool{false, true} {
				for _, pk := range []bool{false, true} {
					out = append(out, c03Cfg{PerRequest: pr, Encode: enc, PKCE: pk, Via: via})
				}
			}
		}
	}
	return out
}

type c03Bound struct {
	MaxA, MaxB int // logins per browser
	MaxOps     int // history length including the final operation
	Full       bool
}

func c03Bounds(quick bool) c03Bound {
	if quick {
		return c03Bound{MaxA: int(envInt("VERIF_C03_MAXA", 2)), MaxB: 1, MaxOps: int(envInt("VERIF_C03_DEPTH", 5)), Full: envInt("VERIF_C03_FULL", 0) == 1}
	}
	return c03Bound{MaxA: int(envInt("VERIF_C03_MAXA", 3)), MaxB: 1, MaxOps: int(envInt("VERIF_C03_DEPTH", 7)), Full: envInt("VERIF_C03_FULL", 1) == 1}
}

// ---------------------------------------------------------------------------------------------
// operations

const c03Crafted = 2

type c03Op struct {
	Kind    string `json:"op"`                // start | advance | complete
	Browser int    `json:"browser"`           // start: 0=A 1=B; complete: sender 0=A's jar, 1=B's jar, 2=hand-made header
	Login   int    `json:"login,omitempty"`   // complete: login x whose state is the base (1-based, start order)
	State   string `json:"state,omitempty"`   // state variant
	Cookies string `json:"cookies,omitempty"` // cookie variant (hand-made header only)
	Other   int    `json:"other,omitempty"`   // login y the cookie variant refers to
	Code    int    `json:"code,omitempty"`    // login the provider issued the code for
}

func (o c03Op) String() string {
	switch o.Kind {
	case "start":
		return "start(" + "AB"[o.Browser:o.Browser+1] + ")"
	case "advance":
		return "advance"
	}
	s := []string{"jarA", "jarB", "crafted"}[o.Browser]
	c := ""
	if o.Browser == c03Crafted {
		c = ",cookies=" + o.Cookies
		if o.Other > 0 {
			c += fmt.Sprintf(":%d", o.Other)
		}
	}
	return fmt.Sprintf("complete(%s,login=%d,state=%s%s,code=%d)", s, o.Login, o.State, c, o.Code)
}

func c03HistString(h []c03Op) string {
	var p []string
	for _, o := range h {
		p = append(p, o.String())
	}
	return strings.Join(p, " ")
}

// state variants: name -> class by construction (exact | changed | ambiguous).
// "changed": the nonce the proxy receives is not the nonce of login x under any reading.
// "ambiguous": the nonce component is intact but the rest of the state parameter is not; the
// statement does not say whether the application-redirect component takes part in the match.
type c03SV struct {
	Name  string
	Class string
}

func c03StateVariants(encode bool) []c03SV {
	v := []c03SV{
		{"exact", "exact"},
		{"nonce-first-char", "changed"},
		{"nonce-case-flip", "changed"},
		{"nonce-last-char", "changed"},
		{"nonce-truncated", "changed"},
		{"nonce-extended", "changed"},
		{"empty", "changed"},
		{"absent", "changed"},
		{"nonce-only", "ambiguous"},
		{"redirect-changed", "ambiguous"},
	}
	if encode {
		v = append(v, c03SV{"raw-first-char", "changed"}, c03SV{"raw-truncated", "changed"},
			c03SV{"raw-not-encoded", "changed"}, c03SV{"raw-garbage-suffix", "ambiguous"})
	} else {
		v = append(v, c03SV{"raw-encoded", "changed"})
	}
	return v
}

func c03Swap(s string, i int) string {
	if i < 0 || i >= len(s) {
		return s + "A"
	}
	r := byte('A')
	if s[i] == 'A' {
		r = 'B'
	}
	return s[:i] + string(r) + s[i+1:]
}

func c03CaseFlip(s string) string {
	for i := len(s) / 4; i < len(s); i++ {
		ch := s[i]
		switch {
		case ch >= 'a' && ch <= 'z':
			return s[:i] + string(ch-32) + s[i+1:]
		case ch >= 'A' && ch <= 'Z':
			return s[:i] + string(ch+32) + s[i+1:]
		}
	}
	return c03Swap(s, len(s)/2)
}

// c03MakeState renders variant `name` of login l's state; present=false means the parameter is left out.
func c03MakeState(l *c03Login, name string, encode bool) (value string, present bool) {
	enc := func(plain string) string {
		if encode {
			return base64.RawURLEncoding.EncodeToString([]byte(plain))
		}
		return plain
	}
	n, r := l.Nonce, l.Redirect
	switch name {
	case "exact":
		return l.State, true
	case "nonce-first-char":
		return enc(c03Swap(n, 0) + ":" + r), true
	case "nonce-case-flip":
		return enc(c03CaseFlip(n) + ":" + r), true
	case "nonce-last-char":
		return enc(c03Swap(n, len(n)-1) + ":" + r), true
	case "nonce-truncated":
		return enc(n[:len(n)/2] + ":" + r), true
	case "nonce-extended":
		return enc(n + "A:" + r), true
	case "empty":
		return "", true
	case "absent":
		return "", false
	case "nonce-only":
		return enc(n), true
	case "redirect-changed":
		return enc(n + ":" + r + "x"), true
	case "raw-first-char":
		return c03Swap(l.State, 0), true
	case "raw-truncated":
		return l.State[:16], true
	case "raw-not-encoded":
		return n + ":" + r, true
	case "raw-garbage-suffix":
		return l.State + "!", true
	case "raw-encoded":
		return base64.RawURLEncoding.EncodeToString([]byte(n + ":" + r)), true
	}
	panic("unknown state variant " + name)
}

// cookie variants of hand-made headers. needsOther: the variant refers to a second login y.
type c03CV struct {
	Name       string
	NeedsOther bool
	PerReqOnly bool // identical to another variant when all logins share one cookie name
	CodeOfY    bool // also try a code issued for login y (whose verifier/nonce the cookie carries)
}

var c03CookieVariants = []c03CV{
	{Name: "own"},
	{Name: "none"},
	{Name: "other", NeedsOther: true, CodeOfY: true},
	{Name: "other-renamed", NeedsOther: true, PerReqOnly: true, CodeOfY: true}, // y's value under x's name
	{Name: "own-renamed", NeedsOther: true, PerReqOnly: true},                  // x's value under y's name
	{Name: "tamper-value"},
	// a knowledgeable alteration: only the last byte of the ciphertext changes (AES-CFB: only the last
	// byte of the plaintext, the decoded structure stays well-formed); name, timestamp and signature are
	// the genuine ones. Sent after the genuine cookie has been presented in the same process.
	{Name: "tamper-value-tail"},
	{Name: "tamper-tail-unsigned"}, // the same alteration with the signature cut off ("value|timestamp|")
	{Name: "tamper-ts"},
	{Name: "tamper-sig"},
	{Name: "sig-stripped"},
	{Name: "resigned"},
	{Name: "dup-other-first", NeedsOther: true, CodeOfY: true}, // x's name twice: y's value, then x's
	{Name: "dup-own-first", NeedsOther: true},                  // x's name twice: x's value, then y's
	{Name: "dup-tampered-first"},
	{Name: "all"},
}

// reduced product (quick tier unless VERIF_C03_FULL=1): modified states are paired with these
// cookie variants only; unmodified states of every login are paired with every cookie variant.
var c03ReducedForModifiedState = map[string]bool{"own": true, "none": true, "all": true, "dup-own-first": true}

var c03ReducedJarStates = map[string]bool{"exact": true, "nonce-first-char": true, "nonce-case-flip": true, "absent": true, "redirect-changed": true, "raw-garbage-suffix": true, "raw-first-char": true}

type c03Sim struct {
	browser []int // browser of login k (index k-1)
	adv     bool
}

func c03Simulate(hist []c03Op) c03Sim {
	var s c03Sim
	for _, o := range hist {
		switch o.Kind {
		case "start":
			s.browser = append(s.browser, o.Browser)
		case "advance":
			s.adv = true
		}
	}
	return s
}

func (s c03Sim) count(b int) int {
	n := 0
	for _, x := range s.browser {
		if x == b {
			n++
		}
	}
	return n
}

// latest login of browser b (0 = none)
func (s c03Sim) latest(b int) int {
	for k := len(s.browser); k >= 1; k-- {
		if s.browser[k-1] == b {
			return k
		}
	}
	return 0
}

// c03Enumerate lists every operation applicable after hist, simplest first.
func c03Enumerate(cfg c03Cfg, bd c03Bound, hist []c03Op) []c03Op {
	sim := c03Simulate(hist)
	var ops []c03Op
	if sim.count(0) < bd.MaxA {
		ops = append(ops, c03Op{Kind: "start", Browser: 0})
	}
	if sim.count(1) < bd.MaxB {
		ops = append(ops, c03Op{Kind: "start", Browser: 1})
	}
	L := len(sim.browser)
	if L > 0 && !sim.adv {
		ops = append(ops, c03Op{Kind: "advance"})
	}
	svs := c03StateVariants(cfg.Encode)
	// what a browser sends from its jar
	for sender := 0; sender < 2; sender++ {
		if sim.count(sender) == 0 && sim.count(1-sender) == 0 {
			continue
		}
		for x := 1; x <= L; x++ {
			for _, sv := range svs {
				if !bd.Full {
					// reduced product: a browser that never started a login has no CSRF cookie, it
					// sends the unmodified states only; other browsers send one modification per
					// way the proxy can react (other cookie name, same name, no state, intact nonce)
					if sim.count(sender) == 0 && sv.Name != "exact" {
						continue
					}
					if !c03ReducedJarStates[sv.Name] {
						continue
					}
				}
				ops = append(ops, c03Op{Kind: "complete", Browser: sender, Login: x, State: sv.Name, Code: x})
				// the jar may hold another login's cookie (single name): also with that login's code
				if y := sim.latest(sender); y != 0 && y != x {
					ops = append(ops, c03Op{Kind: "complete", Browser: sender, Login: x, State: sv.Name, Code: y})
				}
			}
		}
	}
	// hand-made headers
	for x := 1; x <= L; x++ {
		for _, sv := range svs {
			for _, cv := range c03CookieVariants {
				if cv.PerReqOnly && !cfg.PerRequest {
					continue
				}
				if !bd.Full && sv.Class != "exact" && !c03ReducedForModifiedState[cv.Name] {
					continue
				}
				if !cv.NeedsOther {
					ops = append(ops, c03Op{Kind: "complete", Browser: c03Crafted, Login: x, State: sv.Name, Cookies: cv.Name, Code: x})
					continue
				}
				for y := 1; y <= L; y++ {
					if y == x {
						continue
					}
					ops = append(ops, c03Op{Kind: "complete", Browser: c03Crafted, Login: x, State: sv.Name, Cookies: cv.Name, Other: y, Code: x})
					if cv.CodeOfY {
						ops = append(ops, c03Op{Kind: "complete", Browser: c03Crafted, Login: x, State: sv.Name, Cookies: cv.Name, Other: y, Code: y})
					}
				}
			}
		}
	}
	return ops
}

// ---------------------------------------------------------------------------------------------
// one execution on a fresh world

type c03Login struct {
	Idx         int
	Browser     int
	Target      string // request that started it
	Gen         uint64 // random stream of the start request
	LoginURL    string
	State       string // state parameter as sent to the provider
	Nonce       string // its nonce component
	Redirect    string // its application-redirect component
	CookieName  string
	CookieValue string
	MustHold    bool // model: still outstanding, the converse applies
	Started     time.Duration
}

type c03World struct {
	seed   int64
	cfg    c03Cfg
	idp    *world.IdP
	px     *Proxy
	px2    *Proxy
	br     [2]*Browser
	logins []*c03Login
	adv    bool
	sessRE *regexp.Regexp
	fail   string // harness-level failure (start did not work etc.)
}

func c03User(browser int) string {
	if browser == 1 {
		return "bob"
	}
	return "alice"
}

func newC03World(seed int64, cfg c03Cfg) (*c03World, error) {
	world.ResetClock()
	world.SeedRandom(seed, 0)
	w := &c03World{seed: seed, cfg: cfg}
	w.idp = world.NewIdP()
	px, err := buildProxy(&ProxyCfg{Flags: cfg.flags(cookieSecret32)})
	if err != nil {
		return nil, err
	}
	w.px = px
	w.br[0] = newBrowser(px, "http", c03Host)
	w.br[1] = newBrowser(px, "http", c03Host)
	w.br[1].Remote = "192.0.2.2:40000"
	w.sessRE = regexp.MustCompile("^" + regexp.QuoteMeta(px.Opts.Cookie.Name) + `(_\d+)?$`)
	return w, nil
}

func (w *c03World) hasSessionCookie(b *Browser) bool {
	for _, c := range b.Jar.For(b.Scheme, b.Host, "/") {
		if w.sessRE.MatchString(c.Name) {
			return true
		}
	}
	return false
}

// c03SplitState decodes a state parameter the strict way (the harness's own reading).
func c03SplitState(state string, encode bool) (nonce, redirect string, ok bool) {
	plain := state
	if encode {
		b, err := base64.RawURLEncoding.DecodeString(state)
		if err != nil {
			return "", "", false
		}
		plain = string(b)
	}
	i := strings.Index(plain, ":")
	if i < 0 {
		return "", "", false
	}
	return plain[:i], plain[i+1:], true
}

func (w *c03World) startTarget(b, k int) string {
	page := false
	switch w.cfg.Via {
	case "page":
		page = true
	case "mixed":
		page = k%2 == 0
	}
	// a browser that already has a session is served the page, so it starts explicitly
	if page && !w.hasSessionCookie(w.br[b]) {
		return fmt.Sprintf("/p%d", k)
	}
	return w.px.Opts.ProxyPrefix + "/start?rd=" + url.QueryEscape(fmt.Sprintf("/p%d", k))
}

// startOn sends the start request and extracts login URL, state and the CSRF cookie set.
func (w *c03World) startOn(b *Browser, target string) (loginURL, state, ckName, ckValue string, err error) {
	resp := b.Get(target)
	if resp.Panic != nil {
		return "", "", "", "", fmt.Errorf("start panicked: %v", resp.Panic)
	}
	if resp.Status != 302 || !strings.HasPrefix(resp.Location(), world.Issuer+"/authorize?") {
		return "", "", "", "", fmt.Errorf("start %s: status %d location %q", target, resp.Status, resp.Location())
	}
	loginURL = resp.Location()
	u, perr := url.Parse(loginURL)
	if perr != nil {
		return "", "", "", "", perr
	}
	state = u.Query().Get("state")
	n := 0
	for _, c := range resp.Cookies() {
		if strings.HasSuffix(c.Name, "_csrf") && c.Value != "" && c.MaxAge >= 0 {
			ckName, ckValue = c.Name, c.Value
			n++
		}
	}
	if n != 1 {
		return "", "", "", "", fmt.Errorf("start %s set %d CSRF cookies", target, n)
	}
	return loginURL, state, ckName, ckValue, nil
}

func (w *c03World) start(b int, n int) {
	k := len(w.logins) + 1
	if k > 1 {
		// logins of one history start in different seconds (CSRF cookies carry a timestamp with
		// one-second resolution; anything that orders or compares them must not matter)
		world.Advance(2 * time.Second)
	}
	l := &c03Login{Idx: k, Browser: b, Gen: uint64(n + 1), Started: world.Offset()}
	l.Target = w.startTarget(b, k)
	world.SeedRandom(w.seed, l.Gen)
	var err error
	l.LoginURL, l.State, l.CookieName, l.CookieValue, err = w.startOn(w.br[b], l.Target)
	if err != nil {
		w.fail = err.Error()
		return
	}
	var ok bool
	l.Nonce, l.Redirect, ok = c03SplitState(l.State, w.cfg.Encode)
	if !ok || len(l.Nonce) < 20 {
		w.fail = fmt.Sprintf("start %s: state %q has no nonce:redirect form", l.Target, l.State)
		return
	}
	// model
	l.MustHold = true
	if !w.cfg.PerRequest {
		for _, o := range w.logins {
			if o.Browser == b {
				o.MustHold = false
			}
		}
	}
	w.logins = append(w.logins, l)
}

func (w *c03World) advance() {
	world.Advance(c03CSRFExpire + time.Minute)
	w.adv = true
	for _, l := range w.logins {
		l.MustHold = false
	}
	for _, b := range w.br {
		b.Jar.Expire()
	}
}

// resigned: the cookie a proxy with ANOTHER cookie secret sets for the same login content (the
// random stream of the original start is replayed, so nonce, verifier and state are identical).
func (w *c03World) resigned(x *c03Login) (value string, sameContent bool, err error) {
	if w.px2 == nil {
		px2, err := buildProxy(&ProxyCfg{Flags: w.cfg.flags(c03Secret2)})
		if err != nil {
			return "", false, err
		}
		w.px2 = px2
	}
	b2 := newBrowser(w.px2, "http", c03Host)
	b2.Remote = w.br[x.Browser].Remote
	world.SeedRandom(w.seed, x.Gen)
	_, state, name, val, err := w.startOn(b2, x.Target)
	if err != nil {
		return "", false, err
	}
	return val, state == x.State && name == x.CookieName, nil
}

type c03Pair [2]string

func c03Header(cs []c03Pair) string {
	var p []string
	for _, c := range cs {
		p = append(p, c[0]+"="+c[1])
	}
	return strings.Join(p, "; ")
}

func c03HeaderHas(hdr, name, value string) bool {
	for _, p := range strings.Split(hdr, ";") {
		p = strings.TrimSpace(p)
		if p == name+"="+value {
			return true
		}
	}
	return false
}

func c03TamperPart(v string, part int) string {
	ps := strings.Split(v, "|")
	if len(ps) != 3 {
		return c03Swap(v, 0)
	}
	switch part {
	case 0, 2:
		ps[part] = c03Swap(ps[part], 0)
	case 1:
		if n, err := strconv.ParseInt(ps[1], 10, 64); err == nil {
			ps[1] = strconv.FormatInt(n+1, 10)
		} else {
			ps[1] = c03Swap(ps[1], 0)
		}
	}
	return strings.Join(ps, "|")
}

// c03TamperTail flips the lowest bit of the last byte the value part encodes.
func c03TamperTail(v string) string {
	ps := strings.Split(v, "|")
	for _, enc := range []*base64.Encoding{base64.URLEncoding, base64.RawURLEncoding, base64.StdEncoding, base64.RawStdEncoding} {
		raw, err := enc.DecodeString(ps[0])
		if err != nil || len(raw) == 0 {
			continue
		}
		raw[len(raw)-1] ^= 1
		ps[0] = enc.EncodeToString(raw)
		return strings.Join(ps, "|")
	}
	return c03TamperPart(v, 0)
}

// craft builds the hand-made Cookie header of a variant.
func (w *c03World) craft(op c03Op, x *c03Login) (hdr string, note string, err error) {
	var y *c03Login
	if op.Other > 0 {
		y = w.logins[op.Other-1]
	}
	own := c03Pair{x.CookieName, x.CookieValue}
	switch op.Cookies {
	case "own":
		return c03Header([]c03Pair{own}), "", nil
	case "none":
		return "", "", nil
	case "other":
		return c03Header([]c03Pair{{y.CookieName, y.CookieValue}}), "", nil
	case "other-renamed":
		return c03Header([]c03Pair{{x.CookieName, y.CookieValue}}), "", nil
	case "own-renamed":
		return c03Header([]c03Pair{{y.CookieName, x.CookieValue}}), "", nil
	case "tamper-value":
		return c03Header([]c03Pair{{x.CookieName, c03TamperPart(x.CookieValue, 0)}}), "", nil
	case "tamper-value-tail":
		return c03Header([]c03Pair{{x.CookieName, c03TamperTail(x.CookieValue)}}), "", nil
	case "tamper-tail-unsigned":
		ps := strings.Split(c03TamperTail(x.CookieValue), "|")
		if len(ps) == 3 {
			ps[2] = ""
		}
		return c03Header([]c03Pair{{x.CookieName, strings.Join(ps, "|")}}), "", nil
	case "tamper-ts":
		return c03Header([]c03Pair{{x.CookieName, c03TamperPart(x.CookieValue, 1)}}), "", nil
	case "tamper-sig":
		return c03Header([]c03Pair{{x.CookieName, c03TamperPart(x.CookieValue, 2)}}), "", nil
	case "sig-stripped":
		ps := strings.Split(x.CookieValue, "|")
		return c03Header([]c03Pair{{x.CookieName, strings.Join(ps[:len(ps)-1], "|") + "|"}}), "", nil
	case "resigned":
		v, same, err := w.resigned(x)
		if err != nil {
			return "", "", err
		}
		if same {
			note = "resigned-same-content"
		} else {
			note = "resigned-other-content"
		}
		return c03Header([]c03Pair{{x.CookieName, v}}), note, nil
	case "dup-other-first":
		return c03Header([]c03Pair{{x.CookieName, y.CookieValue}, own}), "", nil
	case "dup-own-first":
		return c03Header([]c03Pair{own, {x.CookieName, y.CookieValue}}), "", nil
	case "dup-tampered-first":
		return c03Header([]c03Pair{{x.CookieName, c03TamperPart(x.CookieValue, 2)}, own}), "", nil
	case "all":
		var cs []c03Pair
		for _, l := range w.logins {
			cs = append(cs, c03Pair{l.CookieName, l.CookieValue})
		}
		return c03Header(cs), "", nil
	}
	return "", "", fmt.Errorf("unknown cookie variant %q", op.Cookies)
}

// c03Obs is what one completion attempt showed, plus the facts the oracle needs.
type c03Obs struct {
	Status       int    `json:"status"`
	Session      bool   `json:"session_cookie"`
	Location     string `json:"location,omitempty"`
	Panic        string `json:"panic,omitempty"`
	StateClass   string `json:"state_class"`
	OwnPresented bool   `json:"own_csrf_presented"`
	ValidOther   bool   `json:"other_logins_csrf_presented"`
	MustSucceed  bool   `json:"must_succeed"`
	Note         string `json:"note,omitempty"`
	panicSite    string
}

func (o *c03Obs) outcome() string {
	return fmt.Sprintf("status=%d session=%v panic=%v", o.Status, o.Session, o.Panic != "")
}

func (w *c03World) complete(op c03Op, n int) *c03Obs {
	if op.Login < 1 || op.Login > len(w.logins) || op.Code < 1 || op.Code > len(w.logins) || (op.Other != 0 && (op.Other < 1 || op.Other > len(w.logins))) {
		w.fail = "operation refers to a login that was not started: " + op.String()
		return nil
	}
	x := w.logins[op.Login-1]
	cl := w.logins[op.Code-1]
	obs := &c03Obs{}
	for _, sv := range c03StateVariants(w.cfg.Encode) {
		if sv.Name == op.State {
			obs.StateClass = sv.Class
		}
	}
	if obs.StateClass == "" {
		w.fail = "unknown state variant " + op.State
		return nil
	}
	// the hand-made header first (the re-signed cookie replays a random stream)
	hdr := ""
	if op.Browser == c03Crafted {
		var err error
		hdr, obs.Note, err = w.craft(op, x)
		if err != nil {
			w.fail = "crafting cookies: " + err.Error()
			return nil
		}
	}
	world.SeedRandom(w.seed, uint64(1000+n))
	cb, _, err := w.idp.Authorize(cl.LoginURL, c03User(cl.Browser))
	if err != nil {
		w.fail = "provider refused the authorization request: " + err.Error()
		return nil
	}
	u, err := url.Parse(cb)
	if err != nil {
		w.fail = err.Error()
		return nil
	}
	q := u.Query()
	if v, present := c03MakeState(x, op.State, w.cfg.Encode); present {
		q.Set("state", v)
		if obs.StateClass != "exact" && v == x.State {
			w.fail = "state variant " + op.State + " did not change the state"
			return nil
		}
	} else {
		q.Del("state")
	}
	target := u.Path + "?" + q.Encode()

	var resp *world.Resp
	if op.Browser < c03Crafted {
		b := w.br[op.Browser]
		req := b.Req("GET", target)
		for _, h := range req.Headers {
			if h[0] == "Cookie" {
				hdr = h[1]
			}
		}
		// model: which logins may lose their cookie through this request
		obs.MustSucceed = x.Browser == op.Browser && obs.StateClass == "exact" && x.MustHold && op.Code == op.Login
		for _, l := range w.logins {
			if l.Browser != op.Browser {
				continue
			}
			if !w.cfg.PerRequest || l == x {
				l.MustHold = false
			}
		}
		resp = b.Do(req)
	} else {
		r := &world.Req{Method: "GET", Target: target, Host: c03Host, Remote: "198.51.100.7:40000"}
		if hdr != "" {
			r.Headers = append(r.Headers, [2]string{"Cookie", hdr})
		}
		resp = world.Serve(w.px.H, r)
	}
	obs.OwnPresented = c03HeaderHas(hdr, x.CookieName, x.CookieValue)
	for _, l := range w.logins {
		if l != x && c03HeaderHas(hdr, l.CookieName, l.CookieValue) {
			obs.ValidOther = true
		}
	}
	obs.Status = resp.Status
	obs.Location = resp.Location()
	if resp.Panic != nil {
		obs.Panic = fmt.Sprint(resp.Panic)
		obs.panicSite = resp.PanicSite()
	}
	for _, c := range resp.Cookies() {
		if w.sessRE.MatchString(c.Name) && c.Value != "" && c.MaxAge >= 0 {
			obs.Session = true
		}
	}
	return obs
}

// judge applies the oracle to one completion attempt. It returns finding key and message ("" = fine)
// and a class for the counters.
func c03Judge(cfg c03Cfg, op c03Op, o *c03Obs) (key, msg, class string) {
	cookieClass := "jar"
	if op.Browser == c03Crafted {
		cookieClass = op.Cookies
	}
	if o.Panic != "" {
		return "C03/panic@" + o.panicSite, "callback panicked: " + o.Panic, "panic"
	}
	legit := o.StateClass != "changed" && o.OwnPresented
	if o.Session {
		switch {
		case !o.OwnPresented:
			return "C03/session-without-own-csrf-cookie/" + cookieClass,
				fmt.Sprintf("callback established a session although the CSRF cookie of login %d was not presented unmodified (cookies: %s, state variant %s): status %d", op.Login, cookieClass, op.State, o.Status), "violation"
		case o.StateClass == "changed":
			return "C03/session-with-modified-state/" + op.State,
				fmt.Sprintf("callback established a session although the state nonce was modified (%s): status %d", op.State, o.Status), "violation"
		case o.StateClass == "ambiguous":
			return "", "", "ambiguous-accepted"
		}
		if o.Status < 300 || o.Status > 399 {
			return "", "", "accepted-non-redirect"
		}
		return "", "", "accepted"
	}
	// no session cookie
	if o.MustSucceed {
		what := "single CSRF cookie name, most recent login of the browser"
		if cfg.PerRequest {
			what = "per-request CSRF cookies, login still outstanding"
		}
		lost := ""
		if !o.OwnPresented {
			lost = "; the browser's jar no longer held the CSRF cookie of this login"
		}
		mode := "single-name"
		if cfg.PerRequest {
			mode = "per-request"
		}
		return "C03/own-login-rejected/" + mode,
			fmt.Sprintf("the browser that started login %d sent its unmodified state and its jar's cookies with a fresh code, but got status %d and no session cookie (%s)%s", op.Login, o.Status, what, lost), "violation"
	}
	if !legit && o.Status < 400 {
		return "C03/mismatch-without-error-page",
			fmt.Sprintf("mismatching callback (cookies: %s, state variant %s) was answered with status %d (location %q) instead of an error page", cookieClass, op.State, o.Status, o.Location), "violation"
	}
	if legit {
		return "", "", "legit-but-rejected" // nothing required: not jar-realisable, or the code was for another login
	}
	return "", "", "rejected"
}

// label names a login by browser and ordinal within that browser.
func (w *c03World) label(l *c03Login) string {
	n := 0
	for _, o := range w.logins {
		if o.Browser == l.Browser {
			n++
		}
		if o == l {
			break
		}
	}
	return fmt.Sprintf("%s%d", "AB"[l.Browser:l.Browser+1], n)
}

// canon renders the reached state: decrypted CSRF contents mapped to login numbers, jar
// membership, model flags, sessions, clock offset. No ciphertext bytes, no absolute times.
func (w *c03World) canon() string {
	var parts []string
	known := map[string]bool{}
	for _, l := range w.logins {
		b := w.br[l.Browser]
		inJar := false
		for _, c := range b.Jar.For(b.Scheme, b.Host, w.px.Opts.ProxyPrefix+"/callback") {
			if c.Name == l.CookieName && c.Value == l.CookieValue {
				inJar = true
			}
		}
		known[l.CookieName+"="+l.CookieValue] = true
		dec := "-"
		if inJar {
			dec = "?"
			r := &world.Req{Method: "GET", Target: "/", Host: c03Host, Headers: [][2]string{{"Cookie", l.CookieName + "=" + l.CookieValue}}}
			if hr, err := r.Parse(); err == nil {
				if cs, err := cookies.LoadCSRFCookie(hr, l.CookieName, w.px.P.CookieOptions); err == nil {
					dec = "unknown-nonce"
					for _, m := range w.logins {
						if cs.HashOAuthState() == m.Nonce {
							dec = w.label(m)
						}
					}
					if (cs.GetCodeVerifier() != "") != w.cfg.PKCE {
						dec += "!verifier"
					}
				}
			}
		}
		parts = append(parts, fmt.Sprintf("%s:t=+%ds:jar=%v:dec=%s:must=%v", w.label(l), int(l.Started/time.Second), inJar, dec, l.MustHold))
	}
	// logins are named per browser (A1, A2, B1): the interleaving of the two browsers' starts is
	// not part of the state (the proxy keeps nothing, the jars are separate)
	sort.Strings(parts)
	for i, b := range w.br {
		sess := "-"
		extra := 0
		for _, c := range b.Jar.For(b.Scheme, b.Host, "/") {
			switch {
			case w.sessRE.MatchString(c.Name):
				sess = "?"
			case known[c.Name+"="+c.Value]:
			default:
				extra++
			}
		}
		if sess == "?" {
			r := b.Req("GET", "/")
			if hr, err := r.Parse(); err == nil {
				if s, err := verifSessionStore(w.px.P).Load(hr); err == nil && s != nil {
					sess = s.Email
				}
			}
		}
		parts = append(parts, fmt.Sprintf("jar%s:sess=%s:extra=%d", "AB"[i:i+1], sess, extra))
	}
	parts = append(parts, fmt.Sprintf("clock=+%ds", int(world.Offset()/time.Second)))
	return strings.Join(parts, " ")
}

// invariant evaluated in every state: an outstanding login's CSRF cookie is in its browser's jar.
func (w *c03World) stateInvariant() (key, msg string) {
	for _, l := range w.logins {
		if !l.MustHold {
			continue
		}
		b := w.br[l.Browser]
		found := false
		for _, c := range b.Jar.For(b.Scheme, b.Host, w.px.Opts.ProxyPrefix+"/callback") {
			if c.Name == l.CookieName && c.Value == l.CookieValue {
				found = true
			}
		}
		if !found {
			mode := "single-name"
			if w.cfg.PerRequest {
				mode = "per-request"
			}
			return "C03/outstanding-login-lost-its-csrf-cookie/" + mode,
				fmt.Sprintf("login %d of browser %s is still outstanding but its CSRF cookie %s is no longer sent to the callback", l.Idx, "AB"[l.Browser:l.Browser+1], l.CookieName)
		}
	}
	return "", ""
}

type c03Result struct {
	Fail   string // harness-level failure
	Obs    *c03Obs
	Key    string // violation key of the final operation ("" = none)
	Msg    string
	Class  string
	Canon  string
	InvKey string
	InvMsg string
	Logins int
	Via    string // start operations: which way the login was started
}

// c03Reach builds a fresh world and replays hist on it.
func c03Reach(seed int64, cfg c03Cfg, hist []c03Op) (*c03World, string) {
	w, err := newC03World(seed, cfg)
	if err != nil {
		return nil, "building the proxy: " + err.Error()
	}
	for n, o := range hist {
		w.apply(o, n)
		if w.fail != "" {
			return nil, fmt.Sprintf("replaying operation %d (%s): %s", n, o.String(), w.fail)
		}
	}
	return w, ""
}

func (w *c03World) apply(o c03Op, n int) *c03Obs {
	switch o.Kind {
	case "start":
		w.start(o.Browser, n)
	case "advance":
		w.advance()
	case "complete":
		return w.complete(o, n)
	default:
		w.fail = "unknown operation " + o.Kind
	}
	return nil
}

// step applies op as operation number n of the world's history, judges it and describes the
// state reached.
func (w *c03World) step(op c03Op, n int) *c03Result {
	res := &c03Result{}
	res.Obs = w.apply(op, n)
	if w.fail != "" {
		res.Fail = fmt.Sprintf("operation %s: %s", op.String(), w.fail)
		return res
	}
	if res.Obs != nil {
		res.Key, res.Msg, res.Class = c03Judge(w.cfg, op, res.Obs)
	}
	res.Canon = w.canon()
	res.InvKey, res.InvMsg = w.stateInvariant()
	res.Logins = len(w.logins)
	if op.Kind == "start" && len(w.logins) > 0 {
		res.Via = "protected_page"
		if strings.Contains(w.logins[len(w.logins)-1].Target, "/start?") {
			res.Via = "start_endpoint"
		}
	}
	return res
}

// c03Run replays hist on a fresh world, then applies op (nil = only reach the state).
func c03Run(seed int64, cfg c03Cfg, hist []c03Op, op *c03Op) *c03Result {
	w, fail := c03Reach(seed, cfg, hist)
	if fail != "" {
		return &c03Result{Fail: fail}
	}
	if op != nil {
		return w.step(*op, len(hist))
	}
	res := &c03Result{Canon: w.canon(), Logins: len(w.logins)}
	res.InvKey, res.InvMsg = w.stateInvariant()
	return res
}

// ---------------------------------------------------------------------------------------------
// the search

type c03Case struct {
	Cfg  c03Cfg  `json:"config"`
	Hist []c03Op `json:"history"`
	Op   *c03Op  `json:"operation,omitempty"`
	Text string  `json:"text,omitempty"`
	Obs  *c03Obs `json:"observed,omitempty"`
}

type c03Node struct {
	hist  []c03Op
	canon string
}

func c03Append(h []c03Op, ops ...c03Op) []c03Op {
	return append(append([]c03Op{}, h...), ops...)
}

// c03Search explores one configuration. sub/subs partition the hand-made (state-preserving)
// transitions among the processes that share the configuration; every one of them walks the same
// state graph, and only sub 0 counts states and the transitions of requests sent by browsers.
//
// Worlds: a state is reached by replaying its history on a fresh world. An operation that turns
// out to lead back to the same canonical state (every hand-made request; browser requests that
// change neither jar nor model) leaves the world in that state, so the next operation of the same
// state is applied to it directly (at most `batch` operations per world); an operation that
// changes the state ends the world. A violation is only reported after it has been reproduced on
// fresh worlds, first with the shortest history (state history + the operation alone).
func c03Search(c *Ctx, cfg c03Cfg, bd c03Bound, sub, subs int) {
	owner := sub == 0
	cfgKey := cfg.String()
	batch := int(envInt("VERIF_C03_BATCH", 32))
	skeleton := envInt("VERIF_C03_SKELETON", 0) == 1 // sizing aid: browser requests only (the run is then reported as not exhaustive)
	if skeleton {
		c.Exhaustive = false
	}
	confirmed := map[string]int{}
	report := func(key, msg string, hist []c03Op, alt []c03Op, op *c03Op, obs *c03Obs) (builtWorlds bool) {
		if confirmed[key] >= 3 {
			// the search is breadth-first, so the first cases of a key are its shortest; later
			// ones are only counted
			c.Violate(key, msg, 1<<30, nil)
			return false
		}
		confirmed[key]++
		builtWorlds = true
		try := func(h []c03Op) bool {
			r := c03Run(c.Seed, cfg, h, op)
			return r.Fail == "" && (r.Key == key || r.InvKey == key)
		}
		h := hist
		if !try(h) {
			h = alt
			if !try(h) {
				// observed in the shared world (real requests, real answers) but neither the history alone nor
				// the history plus the shared world's earlier requests reproduce it on a fresh proxy: the
				// answer depends on state that outlives a proxy instance. Reported, marked as such.
				c.Unstable("%s: %s [%d operations in the shared world] => %v gave %q but does not reproduce on a fresh world", cfgKey, c03HistString(hist), len(alt), op, key)
				c.Inc("unreproducible_violations")
				c.Violate(key, "[observed once in a world shared with earlier requests, not reproducible on a fresh proxy] "+msg, 1<<29, c03Case{Cfg: cfg, Hist: alt, Op: op, Obs: obs, Text: c03HistString(alt)})
				return true
			}
		}
		cs := c03Case{Cfg: cfg, Hist: h, Op: op, Obs: obs}
		cs.Text = c03HistString(h)
		size := len(h)*1000 + 1
		if op != nil {
			cs.Text += " => " + op.String()
			size += 10*op.Login + len(op.State) + len(op.Cookies)
		}
		c.confirm(key, fmt.Sprintf("[%s] %s: %s", cfgKey, cs.Text, msg), size, cs, func() (string, bool) {
			r := c03Run(c.Seed, cfg, h, op)
			if r.Fail != "" {
				return "fail:" + r.Fail, false
			}
			if r.Key == key || r.InvKey == key {
				return key, true
			}
			return r.Key, false
		})
		return true
	}

	root := c03Run(c.Seed, cfg, nil, nil)
	if root.Fail != "" {
		c.Error("%s: %s", cfgKey, root.Fail)
		return
	}
	seen := map[string]bool{root.Canon: true}
	if owner {
		c.Distinct("states", cfgKey+"|"+root.Canon)
		c.Inc("traces_validated_against_impl")
	}
	frontier := []c03Node{{nil, root.Canon}}
	determinismChecked := 0
	failures := 0
	fail := func(node c03Node, what string) {
		failures++
		if failures <= 3 {
			c.Error("%s: %s => %s", cfgKey, c03HistString(node.hist), what)
		}
	}
	for depth := 0; len(frontier) > 0 && depth < bd.MaxOps; depth++ {
		var next []c03Node
		for ni, node := range frontier {
			ops := c03Enumerate(cfg, bd, node.hist)
			craftedNo := 0
			var w *c03World
			var prefix []c03Op
			for i := range ops {
				op := ops[i]
				crafted := op.Kind == "complete" && op.Browser == c03Crafted
				mine := owner
				if crafted {
					mine = craftedNo%subs == sub
					craftedNo++
					if !mine || skeleton {
						continue
					}
				}
				if c.Expired() {
					return
				}
				if w == nil || len(prefix) >= batch {
					var f string
					w, f = c03Reach(c.Seed, cfg, node.hist)
					prefix = nil
					if f != "" {
						fail(node, f)
						break
					}
					if mine {
						c.Inc("traces_validated_against_impl")
					}
					if got := w.canon(); got != node.canon {
						c.Error("%s: state abstraction broken: history %s was recorded as %q but replays to %q", cfgKey, c03HistString(node.hist), node.canon, got)
					}
				}
				r := w.step(op, len(node.hist)+len(prefix))
				if r.Fail != "" {
					fail(node, r.Fail)
					w = nil
					continue
				}
				if mine {
					if r.Via != "" {
						c.Inc("nv_login_started_via_" + r.Via)
					}
					c.Inc("transitions")
					c.SetMax("max_depth", int64(len(node.hist)+1))
					c.SetMax("max_logins", int64(r.Logins))
				}
				// determinism / batching cross-check: the same operation alone on a fresh world, twice
				otherWorlds := false // other worlds were built meanwhile: they own the process-wide provider, clock and random stream now
				if mine && op.Kind == "complete" && (determinismChecked < 4 || (ni == 0 && crafted)) {
					determinismChecked++
					otherWorlds = true
					for k := 0; k < 2 && (k == 0 || determinismChecked <= 4); k++ {
						r2 := c03Run(c.Seed, cfg, node.hist, &op)
						if r2.Fail != r.Fail || r2.Canon != r.Canon || r2.Key != r.Key || (r2.Obs != nil && r.Obs != nil && r2.Obs.outcome() != r.Obs.outcome()) {
							o1, o2 := "", ""
							if r.Obs != nil {
								o1 = r.Obs.outcome()
							}
							if r2.Obs != nil {
								o2 = r2.Obs.outcome()
							}
							c.Unstable("replay divergence: %s: %s [+%d operations in the same world] => %s: in the shared world %s %q, alone %s %q (states %q / %q)", cfgKey, c03HistString(node.hist), len(prefix), op.String(), o1, r.Key, o2, r2.Key, r.Canon, r2.Canon)
						}
						c.Inc("traces_validated_against_impl")
					}
					c.Inc("crosschecked_alone_on_fresh_world")
				}
				if r.Obs != nil && mine {
					c03Count(c, cfg, node, op, r)
					if r.Key != "" {
						opc := op
						if report(r.Key, r.Msg, node.hist, c03Append(node.hist, prefix...), &opc, r.Obs) {
							otherWorlds = true
						}
					}
				}
				if r.Canon == node.canon && op.Kind == "complete" {
					// back in the same state: the world stays usable
					prefix = append(prefix, op)
					if mine {
						c.Inc("transitions_self_loop")
					}
					if otherWorlds {
						w, prefix = nil, nil
					}
					continue
				}
				full := c03Append(c03Append(node.hist, prefix...), op)
				w, prefix = nil, nil
				if crafted {
					c.Error("%s: hand-made request changed the state: %s => %s: %q -> %q", cfgKey, c03HistString(node.hist), op.String(), node.canon, r.Canon)
					continue
				}
				if r.InvKey != "" && owner {
					report(r.InvKey, r.InvMsg, c03Append(node.hist, op), full, nil, nil)
				}
				if !seen[r.Canon] {
					seen[r.Canon] = true
					if owner {
						c.Distinct("states", cfgKey+"|"+r.Canon)
						if len(c.Samples) < 2 && op.Kind == "complete" {
							c.Sample(2, map[string]any{"config": cfg, "history": c03HistString(c03Append(node.hist, op)), "state": r.Canon})
						}
					}
					next = append(next, c03Node{c03Append(node.hist, op), r.Canon})
				} else if owner {
					c.Inc("transitions_to_known_state")
				}
			}
			if owner {
				c.Inc("states_expanded")
			}
		}
		frontier = next
	}
	if owner {
		c.Add("states_at_depth_bound_not_expanded", int64(len(frontier)))
	}
}

// c03Count records the measured coverage of one evaluated completion attempt.
func c03Count(c *Ctx, cfg c03Cfg, node c03Node, op c03Op, r *c03Result) {
	o := r.Obs
	c.Inc("evaluations")
	c.Inc("class_" + r.Class)
	c.Inc("statevariant_" + op.State)
	cookieClass := "jar"
	if op.Browser == c03Crafted {
		cookieClass = op.Cookies
	}
	c.Inc("cookies_" + cookieClass)
	// one counter per outcome class; the parent replaces them by their number (distinct over all shards)
	c.Inc(fmt.Sprintf("oc|%s|%s|own=%v|other=%v|%s", o.StateClass, cookieClass, o.OwnPresented, o.ValidOther, o.outcome()))
	// non-trivial: state nonce of a started login intact AND a CSRF cookie validly signed by
	// this proxy presented, so that only the pairing decides
	if o.StateClass != "changed" && (o.OwnPresented || o.ValidOther) {
		c.Distinct("distinct_nontrivial", cfg.String()+"|"+node.canon+"|"+op.String())
	}
	sim := c03Simulate(node.hist)
	switch {
	case o.MustSucceed && o.Session:
		c.Inc("nv_own_login_completed_from_jar")
		if cfg.PerRequest && op.Login != sim.latest(op.Browser) {
			c.Inc("nv_perrequest_older_outstanding_login_completed")
		}
		if o.Location == fmt.Sprintf("/p%d", op.Login) {
			c.Inc("nv_redirected_to_requested_page")
		}
	case o.StateClass == "exact" && !o.OwnPresented && o.ValidOther && !o.Session:
		c.Inc("nv_cross_pairing_rejected")
		if op.Browser < c03Crafted {
			c.Inc("nv_cross_pairing_from_jar_rejected")
		}
	}
	if op.Browser < c03Crafted && !cfg.PerRequest && o.StateClass == "exact" && !o.Session && op.Login != sim.latest(op.Browser) && sim.browser[op.Login-1] == op.Browser {
		c.Inc("nv_singlename_superseded_login_rejected")
	}
	if op.Browser < c03Crafted && sim.adv && !o.OwnPresented && !o.Session {
		c.Inc("nv_after_csrf_lifetime_rejected")
	}
	if op.Browser == c03Crafted && sim.adv && o.OwnPresented && o.Session {
		c.Inc("info_crafted_cookie_accepted_after_csrf_lifetime")
	}
	if o.Note != "" {
		c.Inc("nv_" + o.Note)
	}
	if op.Browser != c03Crafted && sim.browser[op.Login-1] != op.Browser && !o.Session {
		c.Inc("nv_other_browser_rejected")
	}
	if op.Code != op.Login {
		c.Inc("code_of_cookie_login")
	}
	if len(c.Samples) < 6 && (r.Class == "accepted" || (r.Class == "rejected" && o.ValidOther)) && len(node.hist) >= 3 {
		c.Sample(6, map[string]any{"config": cfg, "history": c03HistString(node.hist), "operation": op.String(), "observed": o})
	}
}

var c03MustSee = []string{
	"nv_own_login_completed_from_jar", "nv_perrequest_older_outstanding_login_completed",
	"nv_cross_pairing_rejected", "nv_cross_pairing_from_jar_rejected", "nv_singlename_superseded_login_rejected",
	"nv_after_csrf_lifetime_rejected", "nv_resigned-same-content", "nv_other_browser_rejected",
	"nv_redirected_to_requested_page", "nv_login_started_via_start_endpoint", "nv_login_started_via_protected_page", "class_accepted", "class_rejected", "code_of_cookie_login",
}

func init() {
	register(&checkDef{
		id:    "C03",
		level: "model_checking",
		rule: "breadth-first search over histories of start(A|B) / advance-past-CSRF-lifetime / callback operations, every history replayed on a fresh proxy+jars+provider through the real handlers, states de-duplicated on decrypted jar contents; " +
			"in every state every pairing {state of login x: exact, 10-13 modifications} x {jar of A, jar of B, hand-made header: own, none, other login's, renamed, tampered value/timestamp/signature, signature stripped, re-signed with another secret, duplicates in both orders, all} x {code issued for x, code issued for the cookie's login} is sent to /oauth2/callback; " +
			"non-trivial = the state nonce of a started login is intact and a CSRF cookie validly signed by this proxy is presented, so only the pairing decides; " +
			"second search (same technique, counters ext_*): Redis session store, cookie-expire 0 / cookie-csrf-expire 1m / cookie-expire shorter than cookie-csrf-expire with clock steps of 20s, 7m, 16m between start and callback, callbacks sent again (browser re-sends its last callback; recorded state + CSRF cookie with the spent code or a fresh one), and a second proxy instance (other cookie secret, other cookie name, both) at another port of the same host sharing the browsers' jars, every callback sent to either instance",
		assumptions: []string{
			"state match is read on the nonce component: a state whose nonce is intact but whose redirect component or encoding is altered is admissible either way (counted as class_ambiguous-accepted / not required to succeed)",
			"the converse (login must complete) is required only for requests a browser sends from its jar while the history-only model says the login is outstanding; hand-made headers are judged in the only-if direction",
			"hand-made requests are evaluated as self-loops: they touch no jar and the cookie session store keeps no server-side state (checked: the canonical state after each such request equals the state before)",
			"every completion attempt uses a code the provider freshly issued (for the state's login, and where a cookie of another login is involved also for that login), so a rejection is never caused by code reuse",
			"default --insecure-oidc-skip-nonce=true: the ID-token nonce does not back up the state check",
			"'unexpired' is required of what a browser sends from its jar (Max-Age = cookie-csrf-expire); a hand-made request presenting the CSRF cookie after that lifetime but inside cookie-expire (or with cookie-expire=0) is admissible either way (class ambiguous-accepted-past-csrf-lifetime), and so are a replay of a completed login's state + CSRF cookie with a fresh code and a jar-sent callback after a cookie-expire that is shorter than cookie-csrf-expire",
			"a session out of a replay whose code the provider had already redeemed is reported (C03/session-from-spent-code) although state and cookie match: such a session cannot stem from the login the callback claims to complete",
			"callbacks sent to the instance that did not start the login carry a code issued for that instance's redirect URI, so that the provider's redirect-URI check does not stand in for the proxy's own check",
		},
		shards: func(tier string) int { return 16 },
		run: func(c *Ctx) {
			// every execution builds a proxy (flag parsing, validation, templates): mostly garbage
			debug.SetGCPercent(400)
			c03Concurrent(c)
			c03OtherTab(c)
			c03Ext(c) // second search: Redis store, lifetimes, replays, second instance (c03_ext_test.go)
			if c.Expired() {
				return
			}
			cfgs := c03Configs(c.Quick())
			bd := c03Bounds(c.Quick())
			c.Info["configurations"] = len(cfgs)
			c.Info["bound"] = map[string]any{"logins_in_A": bd.MaxA, "logins_in_B": bd.MaxB, "max_operations": bd.MaxOps, "full_product_for_modified_states": bd.Full}
			c.Info["alphabet"] = map[string]any{"state_variants_plain": len(c03StateVariants(false)), "state_variants_encoded": len(c03StateVariants(true)), "cookie_variants_crafted": len(c03CookieVariants), "senders": 3}
			only := int(envInt("VERIF_ONLY", -1))
			S, C := c.Shards, len(cfgs)
			for ci, cfg := range cfgs {
				if only >= 0 && ci != only {
					continue
				}
				sub, subs := 0, 1
				if S >= C {
					if c.Shard%C != ci {
						continue
					}
					sub = c.Shard / C
					subs = (S - ci + C - 1) / C // shards s with s%C == ci
				} else if ci%S != c.Shard {
					continue
				}
				t0 := time.Now()
				c03Search(c, cfg, bd, sub, subs)
				c.Info[fmt.Sprintf("diag_wall_s[%s part %d/%d]", cfg.String(), sub, subs)] = int(time.Since(t0).Seconds())
				if c.Expired() {
					return
				}
			}
		},
		finish: func(c *Ctx) {
			n := 0
			var accepted []string
			for k := range c.Counters {
				if strings.HasPrefix(k, "oc|") {
					n++
					if strings.Contains(k, "session=true") {
						accepted = append(accepted, strings.TrimPrefix(k, "oc|"))
					}
					delete(c.Counters, k)
				}
			}
			c.Counters["distinct_outcomes"] = int64(n)
			sort.Strings(accepted)
			c.Info["outcome_classes_with_session"] = accepted
		},
		post: func(c *Ctx) {
			for _, k := range c03MustSee {
				if c.Counters[k] == 0 {
					c.Error("vacuous: counter %s is zero", k)
				}
			}
			for _, cv := range c03CookieVariants {
				if c.Counters["cookies_"+cv.Name] == 0 {
					c.Error("vacuous: cookie variant %s never sent", cv.Name)
				}
			}
			for _, enc := range []bool{false, true} {
				for _, sv := range c03StateVariants(enc) {
					if c.Counters["statevariant_"+sv.Name] == 0 {
						c.Error("vacuous: state variant %s never sent", sv.Name)
					}
				}
			}
			if c.Counters["states"] < 10 || c.Counters["cookies_jar"] == 0 {
				c.Error("vacuous: %d states", c.Counters["states"])
			}
			c03ExtPost(c)
		},
		replay: func(c *Ctx, raw json.RawMessage) string {
			var cr0 c03ConcReplay
			if json.Unmarshal(raw, &cr0) == nil && cr0.Kind == "concurrent-callbacks" {
				return c03ConcReplayOne(c, cr0)
			}
			if out, ok := c03ExtReplay(c, raw); ok {
				return out
			}
			var cs c03Case
			if err := json.Unmarshal(raw, &cs); err != nil {
				return err.Error()
			}
			r := c03Run(c.Seed, cs.Cfg, cs.Hist, cs.Op)
			if r.Fail != "" {
				return "could not re-run: " + r.Fail
			}
			text := c03HistString(cs.Hist)
			if cs.Op != nil {
				text += " => " + cs.Op.String()
			}
			if r.Key != "" {
				c.Violate(r.Key, fmt.Sprintf("[%s] %s: %s", cs.Cfg.String(), text, r.Msg), 1, cs)
			}
			if r.InvKey != "" {
				c.Violate(r.InvKey, fmt.Sprintf("[%s] %s: %s", cs.Cfg.String(), text, r.InvMsg), 1, cs)
			}
			out := "state: " + r.Canon
			if r.Obs != nil {
				b, _ := json.Marshal(r.Obs)
				out = "observed " + string(b) + " class " + r.Class + "; " + out
			}
			return out
		},
	})
}
