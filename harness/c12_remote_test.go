//go:build verif

package main

import (
	"errors"
	"fmt"
	"net/http"
	"os"
	"sort"
	"strings"
	"sync"
	"time"

	"github.com/oauth2-proxy/oauth2-proxy/v7/verifx/explore"
	"github.com/oauth2-proxy/oauth2-proxy/v7/verifx/sched"
	"github.com/oauth2-proxy/oauth2-proxy/v7/verifx/world"
)

// C12, part "remote": providers whose re-validation is a CALL to the identity provider.
//
// The OIDC provider of the other parts re-validates a session locally (the stored ID token is verified
// against the issuer's keys). Most other provider types ask the provider: GET <validate-url> with the
// session's access token, 200 = still valid. Two of them stand for the two kinds there are:
//
//	keycloak (legacy)  no refresh (the default RefreshSession), re-validation = call to --validate-url
//	google             refresh grant at --redeem-url (the refresh token is kept, Google does not rotate
//	                   it), then re-validation = call to --validate-url with the (new) access token
//
// Sequential part (SEQ): every history of a fixed length over {login, advance 40 s, advance 90 s,
// request under provider answers (validate endpoint: 200 | 401 | 500 | connection reset) x (refresh
// grant: granted | refused, google only)}, both stores, judged request by request against a reference
// model written from the statement (c12rModel). Concurrent part (SCHED): 2 (thorough: 3) requests
// carrying the same stale cookie under the scheduler of c12_test.go, Redis store and cookie store, for
// every provider behaviour including answers that change between the first and later validation calls.
//
// What "asked and answered positively" means is decided by what the provider saw (idp.Calls): a
// validation call it answered 200 (it does so only for an access token it has issued and not withdrawn)
// or a refresh grant it granted. The order between provider answers and upstream deliveries is recorded
// by the upstream itself (c12rMon.hit): at the moment a request reaches the upstream, was there a
// positive provider answer since the session became stale?

const (
	c12rPeriod = time.Minute
	c12rShort  = 40 * time.Second // two of them cross the refresh period, one does not
	c12rLong   = 90 * time.Second
)

func c12rFlags(provider, upURL string, cookie *c12CookieCfg) []string {
	f := []string{
		"--upstream=" + upURL, "--provider=" + provider,
		"--client-id=" + world.ClientID, "--client-secret=" + world.ClientSecret,
		"--cookie-secret=" + cookieSecret32, "--http-address=-",
		"--login-url=" + world.Issuer + "/authorize", "--redeem-url=" + world.Issuer + "/token",
		"--validate-url=" + world.Issuer + "/validate",
		"--email-domain=*", "--cookie-secure=false", "--pass-access-token=true",
	}
	if cookie != nil {
		f = append(f, cookie.flags()...)
	} else {
		f = append(f, "--cookie-refresh="+c12rPeriod.String(), "--cookie-expire=1h")
	}
	if provider == "keycloak" {
		f = append(f, "--profile-url="+world.Issuer+"/userinfo")
	}
	return f
}

// c12rRefreshes: does the provider type implement a refresh grant?
func c12rRefreshes(provider string) bool { return provider == "google" }

// ---- the monitor: provider answers of the current request(s) and what the upstream saw

type c12rHit struct {
	Req       string // X-Req of the request that reached the upstream
	PosBefore bool   // a positive provider answer (validation 200 / refresh granted) preceded the delivery
	GrantsBef int    // refresh grants granted before the delivery (since the monitor was armed)
	Token     string
	Email     string
}

type c12rMon struct {
	mu       sync.Mutex
	idp      *world.IdP
	upName   string
	base     int    // index into idp.Calls from which calls count
	validate string // 200 | 401 | 500 | reset | 200-then-401 | 401-then-200
	refresh  string // ok | fail
	nVal     int    // validation calls answered since armed
	hits     []c12rHit
}

// arm starts a new observation window: provider answers from now on follow (validate, refresh).
func (m *c12rMon) arm(idp *world.IdP, validate, refresh string) {
	m.mu.Lock()
	defer m.mu.Unlock()
	m.idp, m.validate, m.refresh, m.nVal, m.hits = idp, validate, refresh, 0, nil
	m.base = idp.NumCalls()
	idp.Intercept = m.intercept
}

func c12rRaw(req *http.Request, status int, body string) (*http.Response, error) {
	return world.RawResponse(req, status, "application/json", []byte(body)), nil
}

// intercept replaces the provider's healthy answer where the armed behaviour says so. The healthy
// validation answer is the provider's own: 200 for an access token it knows, 401 otherwise.
func (m *c12rMon) intercept(cl *world.Call, req *http.Request) *world.Fault {
	switch {
	case cl.Endpoint == "validate":
		m.mu.Lock()
		n := m.nVal
		m.nVal++
		kind := m.validate
		m.mu.Unlock()
		switch kind {
		case "200-then-401":
			kind = "200"
			if n > 0 {
				kind = "401"
			}
		case "401-then-200":
			kind = "401"
			if n > 0 {
				kind = "200"
			}
		}
		switch kind {
		case "401":
			return &world.Fault{Kind: "validate-401", Respond: func(req *http.Request, _ func() *http.Response) (*http.Response, error) {
				return c12rRaw(req, 401, `{"error":"invalid_token"}`)
			}}
		case "500":
			return &world.Fault{Kind: "validate-500", Respond: func(req *http.Request, _ func() *http.Response) (*http.Response, error) {
				return c12rRaw(req, 500, `{"error":"server_error"}`)
			}}
		case "reset":
			return &world.Fault{Kind: "validate-reset", Respond: func(*http.Request, func() *http.Response) (*http.Response, error) {
				return nil, errors.New("read tcp 192.0.2.10:443: read: connection reset by peer")
			}}
		}
	case cl.Endpoint == "token" && cl.Grant == "refresh_token" && m.refresh == "fail":
		return &world.Fault{Kind: "refresh-refused", Respond: func(req *http.Request, _ func() *http.Response) (*http.Response, error) {
			return c12rRaw(req, 400, `{"error":"invalid_grant","error_description":"token has been revoked"}`)
		}}
	}
	return nil
}

// c12rPositive: the provider was asked about the session and said yes.
func c12rPositive(cl *world.Call) bool {
	if strings.HasPrefix(cl.Note, "fault:") || cl.Status != 200 {
		return false
	}
	return cl.Endpoint == "validate" || (cl.Endpoint == "token" && cl.Grant == "refresh_token" && cl.Note == "refresh-ok")
}

// c12rAsked: a call that asks the provider about the session (whatever the answer).
func c12rAsked(cl *world.Call) bool {
	return cl.Endpoint == "validate" || (cl.Endpoint == "token" && cl.Grant == "refresh_token")
}

func c12rGranted(cl *world.Call) bool {
	return cl.Endpoint == "token" && cl.Grant == "refresh_token" && c12rPositive(cl)
}

// calls returns the provider calls since the monitor was armed. Only used while no controlled thread
// runs (between requests, inside the upstream's handler while the proxy waits for it, after Run).
func (m *c12rMon) calls() []*world.Call {
	all := append(m.idp.CallsTo("validate"), m.idp.CallsTo("token")...)
	sort.Slice(all, func(i, j int) bool { return all[i].Seq < all[j].Seq })
	var out []*world.Call
	for _, cl := range all {
		if cl.Seq > m.base {
			out = append(out, cl)
		}
	}
	return out
}

// hit is the upstream's answer function: it notes what had happened at the provider by the time the
// request was delivered. The proxy's goroutine waits for this answer, all other controlled threads are
// parked, so the log is a total order.
func (m *c12rMon) hit(w http.ResponseWriter, r *http.Request) {
	m.mu.Lock()
	idp := m.idp
	m.mu.Unlock()
	h := c12rHit{Req: r.Header.Get("X-Req"), Token: r.Header.Get("X-Forwarded-Access-Token"), Email: r.Header.Get("X-Forwarded-Email")}
	if idp != nil {
		for _, cl := range m.calls() {
			if c12rPositive(cl) {
				h.PosBefore = true
			}
			if c12rGranted(cl) {
				h.GrantsBef++
			}
		}
	}
	m.mu.Lock()
	m.hits = append(m.hits, h)
	m.mu.Unlock()
	w.Header().Set("X-Upstream", m.upName)
	w.Header().Set("Content-Type", "text/plain")
	w.WriteHeader(200)
	fmt.Fprintf(w, "upstream:%s", m.upName)
}

func (m *c12rMon) takeHits() []c12rHit {
	m.mu.Lock()
	defer m.mu.Unlock()
	h := m.hits
	m.hits = nil
	return h
}

// key renders the deliveries so far for the state key: two executions that reach the same shared state
// but differ in whether a delivery was preceded by a positive answer must not be merged (the oracle
// looks at exactly that).
func (m *c12rMon) key() string {
	m.mu.Lock()
	defer m.mu.Unlock()
	var b strings.Builder
	for _, h := range m.hits {
		fmt.Fprintf(&b, "h%s:%v:%d;", h.Req, h.PosBefore, h.GrantsBef)
	}
	fmt.Fprintf(&b, "v%d", m.nVal)
	return b.String()
}

// ---- environments (one proxy per provider type x store and process; all state lives in the jar, the
// store and the provider, which every history / execution starts afresh)

type c12rEnv struct {
	c12Env
	provider string
	store    string
	period   time.Duration // the configured refresh period
	// lifetime: the cookie lifetime (--cookie-expire). For a provider type whose sessions carry no expiry
	// of their own (keycloak's token answer is not asked for one) the proxy gives the session the
	// cookie's lifetime, counted from the login and not renewed by re-validations: a session that has
	// run out may be refused whatever the provider says (session expiry is another property's subject).
	// A lifetime of 0 is "expires at once" taken literally and "never" by the documentation (session
	// cookie, no expiry): both readings are admitted. Such requests are counted as ambiguous.
	lifetime time.Duration
	mon      *c12rMon
}

// mayHaveRunOut: may a session of this age (since login) be refused as expired whatever the provider says?
func (e *c12rEnv) mayHaveRunOut(sinceLogin time.Duration) bool {
	if c12rRefreshes(e.provider) {
		return false // the provider states the expiry (far away) and every refresh renews it
	}
	return e.lifetime == 0 || sinceLogin >= e.lifetime-time.Second
}

var c12rEnvs = map[string]*c12rEnv{}

func c12rEnvFor(provider, store string) *c12rEnv {
	k := provider + "/" + store
	if e := c12rEnvs[k]; e != nil {
		return e
	}
	e, err := c12rNewEnv(provider, store, nil)
	if err != nil {
		panic(fmt.Sprintf("C12 remote: %s/%s: %v", provider, store, err))
	}
	c12rEnvs[k] = e
	return e
}

// c12rNewEnv builds an environment; cookie == nil is the part's standard configuration (refresh 1 m,
// lifetime 1 h). The error is option validation's.
func c12rNewEnv(provider, store string, cookie *c12CookieCfg) (*c12rEnv, error) {
	e := &c12rEnv{provider: provider, store: store, period: c12rPeriod, lifetime: time.Hour, mon: &c12rMon{}}
	if cookie != nil {
		e.period = cookie.Refresh
		e.lifetime = 168 * time.Hour // the default
		if cookie.Expire != "" {
			e.lifetime, _ = time.ParseDuration(cookie.Expire + "s")
			if d, err := time.ParseDuration(cookie.Expire); err == nil {
				e.lifetime = d
			}
		}
	}
	world.NewIdP()
	e.up = world.NewUpstream("u")
	e.mon.upName = e.up.Name
	e.up.Respond = e.mon.hit
	cfg := &ProxyCfg{Flags: c12rFlags(provider, e.up.URL(), cookie), Mutate: c12Patient}
	if store == "redis" {
		e.redis = world.NewRedis()
		cfg.Redis = e.redis
	}
	px, err := buildProxy(cfg)
	if err != nil {
		e.close()
		return nil, err
	}
	e.px = px
	return e, nil
}

func (e *c12rEnv) close() {
	e.up.Close()
	if e.redis != nil {
		e.redis.Close()
	}
}

func c12rCloseEnvs() {
	for k, e := range c12rEnvs {
		e.close()
		delete(c12rEnvs, k)
	}
}

// fresh makes the world of one history / execution: clock at the epoch, new provider, empty store.
func (e *c12rEnv) fresh(seed int64) *world.IdP {
	world.ResetClock()
	world.SeedRandom(seed, 0)
	idp := world.NewIdP()
	// neither provider type stores a refresh token handed out by a refresh grant: the provider of this
	// part keeps refresh tokens valid (as Google does)
	idp.StaticRefreshToken = true
	// the access token's own lifetime (the session's expiry) is not the subject: beyond every age probed
	idp.AccessTTL = 1000 * time.Hour
	if e.redis != nil {
		e.redis.M.FlushAll()
		e.redis.M.SetTime(world.Now())
		e.redis.Intercept = nil
		e.redis.Calls = nil
		e.redis.Canon = nil
	}
	e.mon.arm(idp, "200", "ok")
	e.up.Take()
	return idp
}

func (e *c12rEnv) cookieName() string { return e.px.Opts.Cookie.Name }

// c12rCleared: does the response delete the session cookie (every cookie of that name it mentions last)?
func c12rCleared(r *world.Resp, name string) bool {
	last := map[string]bool{} // per cookie name: is its last mention a deletion?
	for _, ck := range r.Cookies() {
		if ck.Name == name || strings.HasPrefix(ck.Name, name+"_") {
			last[ck.Name] = ck.MaxAge < 0 || (!ck.Expires.IsZero() && ck.Expires.Before(world.Now()))
		}
	}
	for _, del := range last {
		if !del {
			return false
		}
	}
	return len(last) > 0
}

func c12rNewToken(before, after []string) string {
	seen := map[string]bool{}
	for _, t := range before {
		seen[t] = true
	}
	out := ""
	for _, t := range after {
		if !seen[t] {
			out = t // (tokens are numbered: the last one in sorted order is the latest)
		}
	}
	return out
}

// ---------------------------------------------------------------------------------------------
// sequential part

type c12rHistory struct {
	Provider string   `json:"provider"`
	Store    string   `json:"store"`
	Cookie   string   `json:"cookie_configuration,omitempty"`
	Ops      []string `json:"ops"` // after the initial login
	FailedAt int      `json:"failed_at_op,omitempty"`
	What     string   `json:"what,omitempty"`
}

// c12rAlphabet: the operations of a history for a provider type.
func c12rAlphabet(provider string, quick bool) []string {
	ops := []string{"login", "advance-" + c12rShort.String(), "advance-" + c12rLong.String()}
	for _, v := range []string{"200", "401", "500", "reset"} {
		if quick && v == "500" && c12rRefreshes(provider) {
			// quick tier: the larger alphabet goes without the 500 (to the session loader it is what a 401
			// is; the smaller alphabet and the cookie-configuration histories of both provider types have it)
			continue
		}
		if c12rRefreshes(provider) {
			for _, r := range []string{"ok", "fail"} {
				ops = append(ops, "request[validate="+v+",refresh="+r+"]")
			}
		} else {
			ops = append(ops, "request[validate="+v+"]")
		}
	}
	return ops
}

func c12rHasOp(l []string, p string) bool {
	for _, x := range l {
		if strings.HasPrefix(x, p) {
			return true
		}
	}
	return false
}

func c12rParseRequest(op string) (validate, refresh string, ok bool) {
	if !strings.HasPrefix(op, "request[") {
		return "", "", false
	}
	refresh = "ok"
	for _, kv := range strings.Split(strings.TrimSuffix(strings.TrimPrefix(op, "request["), "]"), ",") {
		p := strings.SplitN(kv, "=", 2)
		switch p[0] {
		case "validate":
			validate = p[1]
		case "refresh":
			refresh = p[1]
		}
	}
	return validate, refresh, true
}

// c12rModel is the reference: what the statement lets an observer know about the browser's session.
// Age is counted under both readings the statement admits: since the tokens were last issued (login or
// refresh grant) and since the provider last vouched for the session in any way (also a passed
// re-validation). A session is stale for certain when both ages exceed the period, fresh for certain
// when neither does.
type c12rModel struct {
	authed    bool
	loginAt   time.Time
	issuedAt  time.Time // login or last granted refresh
	vouchedAt time.Time // ... or last passed re-validation
	token     string    // the access token the session carries
}

type c12rStats struct {
	classes map[string]int
}

func (s *c12rStats) inc(k string) {
	if s != nil {
		s.classes[k]++
	}
}

// c12rRunHistory executes one history and judges every request in it. It returns the first violation
// (key, message, index of the operation) or key "". stats (optional) receives per-request classes.
func c12rRunHistory(e *c12rEnv, ops []string, seed int64, stats *c12rStats) (key, msg string, at int) {
	idp := e.fresh(seed)
	b := newBrowser(e.px, "http", "app.example.com")
	var m c12rModel
	name := e.cookieName()
	// entry: the store keys that hold the browser's current session (a login that re-uses the ticket
	// of the cookie it was sent creates no new key; one that does not leaves the old entry behind, which
	// is then nobody's session)
	entry := map[string]bool{}
	storeKeys := func() []string {
		if e.redis == nil {
			return nil
		}
		return e.redis.SessionKeys()
	}
	login := func() error {
		e.mon.arm(idp, "200", "ok")
		before := idp.IssuedAccessTokens()
		keysBefore := storeKeys()
		resp, _, err := b.Login(idp, "alice", "/app")
		if err != nil || resp.Status != 302 {
			return fmt.Errorf("login failed: %v (status %d)", err, resp.Status)
		}
		created := map[string]bool{}
		for _, k := range storeKeys() {
			if !containsStr(keysBefore, k) {
				created[k] = true
			}
		}
		if len(created) > 0 {
			entry = created
		}
		tok := c12rNewToken(before, idp.IssuedAccessTokens())
		if tok == "" {
			return fmt.Errorf("login issued no access token")
		}
		m = c12rModel{authed: true, loginAt: world.Now(), issuedAt: world.Now(), vouchedAt: world.Now(), token: tok}
		return nil
	}
	if err := login(); err != nil {
		return "HARNESS", err.Error(), -1
	}
	for i, op := range ops {
		switch op {
		case "login":
			if err := login(); err != nil {
				return "HARNESS", err.Error(), i
			}
			continue
		}
		if strings.HasPrefix(op, "advance-") {
			d, perr := time.ParseDuration(strings.TrimPrefix(op, "advance-"))
			if perr != nil {
				return "HARNESS", "unknown operation " + op, i
			}
			world.Advance(d)
			continue
		}
		validate, refresh, ok := c12rParseRequest(op)
		if !ok {
			return "HARNESS", "unknown operation " + op, i
		}
		canRefresh := c12rRefreshes(e.provider)
		e.mon.arm(idp, validate, refresh)
		issuedBefore := idp.IssuedAccessTokens()
		e.up.Take()
		r := b.Get("/app", [2]string{"X-Req", "seq"})
		hits := e.mon.takeHits()
		e.up.Take()
		calls := e.mon.calls()
		served := r.Status == 200 && len(hits) == 1
		asked, positive, negative, granted := false, false, false, false
		for _, cl := range calls {
			if c12rAsked(cl) {
				asked = true
				if c12rPositive(cl) {
					positive = true
				} else {
					negative = true
				}
			}
			if c12rGranted(cl) {
				granted = true
			}
		}
		newTok := ""
		if granted {
			newTok = c12rNewToken(issuedBefore, idp.IssuedAccessTokens())
		}
		cleared := c12rCleared(r, name)
		jarHolds := strings.Contains(b.Jar.Header("http", "app.example.com", "/"), name)
		entries := 0
		for _, k := range storeKeys() {
			if entry[k] {
				entries++
			}
		}
		obs := fmt.Sprintf("status=%d upstream-hits=%d asked=%v positive-answer=%v negative-answer=%v refresh-granted=%v cookie-deleted=%v jar-still-holds-cookie=%v store-entries=%d",
			r.Status, len(hits), asked, positive, negative, granted, cleared, jarHolds, entries)
		fail := func(k, format string, a ...any) (string, string, int) {
			return "C12/" + k, fmt.Sprintf("%s/%s store, history login %s: at operation %d (%s): ", e.provider, e.store, strings.Join(ops[:i+1], " ; "), i, op) + fmt.Sprintf(format, a...) + " [" + obs + "]", i
		}
		if r.Panic != nil {
			return fail("remote-seq-panic", "panic %v at %s", r.Panic, r.PanicSite())
		}
		now := world.Now()
		// refused(): the prescribed form of "treated as unauthenticated and the cookie is cleared"
		refused := func() (string, string, int) {
			if served || len(hits) > 0 {
				return "", "", 0
			}
			if r.Status != http.StatusForbidden && r.Status != http.StatusUnauthorized && r.Status != http.StatusFound {
				return fail("remote-seq-unexpected-response-class", "an unauthenticated request was answered %d", r.Status)
			}
			if !cleared || jarHolds {
				return fail("remote-seq-cookie-not-cleared", "the request was refused but the session cookie was not deleted")
			}
			if entries != 0 {
				return fail("remote-seq-store-entry-survives", "the request was refused and the cookie deleted but the store still holds %d session entr(y/ies)", entries)
			}
			return "", "", 0
		}
		switch {
		case !m.authed:
			// no session: nothing of this property applies beyond "not served"
			stats.inc("trivial_no_session")
			if served {
				return fail("remote-seq-served-without-session", "a browser without a session was served")
			}
			continue
		case now.Sub(m.issuedAt) <= e.period:
			// fresh under every reading: no re-validation is due; the credential is valid, so it is served
			stats.inc("fresh")
			if !served {
				if !negative {
					return fail("remote-seq-valid-session-refused", "a session younger than the refresh period was not served although the provider did not answer negatively")
				}
				// asked although nothing was due, and told "no": acting on that answer is not excluded
				stats.inc("ambiguous_fresh_but_asked_and_refused")
				stats.inc("ambiguous")
				if k, s, a := refused(); k != "" {
					return k, s, a
				}
			}
		case now.Sub(m.vouchedAt) <= e.period:
			// the tokens are older than the period but the provider vouched for the session within it
			// (passed re-validation): whether that re-validation restarts the period is left open by the
			// statement. Serving without asking, or asking and acting on the answer, are both admissible.
			stats.inc("ambiguous_age_revalidated_within_period")
			stats.inc("ambiguous")
			if !served {
				if !negative {
					return fail("remote-seq-valid-session-refused", "a session re-validated within the refresh period was refused although the provider did not answer negatively")
				}
				if k, s, a := refused(); k != "" {
					return k, s, a
				}
			}
		default:
			// stale under every reading
			refreshPossible := canRefresh && refresh == "ok"
			validatePossible := validate == "200"
			switch {
			case refreshPossible && !validatePossible:
				// the refresh is granted, the validation of the new token is not: "refreshed with, or
				// re-validated by" admits honouring it, "provider says the token is invalid" admits refusing
				stats.inc("ambiguous_refresh_granted_validation_failed")
				stats.inc("ambiguous")
				if served {
					if len(hits) == 1 && !hits[0].PosBefore {
						return fail("remote-seq-stale-session-honoured-without-provider-answer", "served although no positive provider answer preceded the delivery")
					}
				} else if k, s, a := refused(); k != "" {
					return k, s, a
				}
			case (refreshPossible || validatePossible) && !served && e.mayHaveRunOut(now.Sub(m.loginAt)):
				// refused as expired: the session's own lifetime is over (see c12rEnv.lifetime)
				stats.inc("ambiguous_session_lifetime_over_refused_as_expired")
				stats.inc("ambiguous")
				if k, s, a := refused(); k != "" {
					return k, s, a
				}
			case refreshPossible || validatePossible:
				if !served {
					return fail("remote-seq-valid-session-refused", "a stale session that the provider would have refreshed / re-validated was not served")
				}
				if !hits[0].PosBefore {
					return fail("remote-seq-stale-session-honoured-without-provider-answer", "a session older than the refresh period reached the upstream although the provider had not been asked with a positive answer inside that request")
				}
				if refreshPossible {
					stats.inc("stale_served_after_refresh")
					if !granted {
						return fail("remote-seq-stale-session-honoured-without-refresh", "the provider supports refresh and would have granted it, but the request was served without a refresh grant")
					}
				} else {
					stats.inc("stale_served_after_validation_call")
				}
			default:
				stats.inc("stale_refused")
				if served {
					return fail("remote-seq-stale-session-honoured-without-provider-answer", "a session older than the refresh period was served although neither a refresh nor a re-validation succeeded")
				}
				if len(hits) > 0 {
					return fail("remote-seq-stale-session-honoured-without-provider-answer", "the request reached the upstream (%d deliveries) although neither a refresh nor a re-validation succeeded", len(hits))
				}
				if k, s, a := refused(); k != "" {
					return k, s, a
				}
			}
		}
		// tokens: after a refresh that request and later ones carry the new access token
		if served {
			want := m.token
			if granted {
				want = newTok
			}
			if got := hits[0].Token; got != want {
				k := "remote-seq-served-with-other-token"
				if granted {
					k = "remote-seq-served-with-stale-token"
				}
				return fail(k, "the upstream saw access token %q, the session's current one is %q (refresh granted in this request: %v)", got, want, granted)
			}
			if hits[0].Email != "alice@example.com" {
				return fail("remote-seq-served-under-other-identity", "the upstream saw e-mail %q", hits[0].Email)
			}
		}
		// the model follows what the provider answered
		switch {
		case !served && (cleared || !jarHolds):
			m.authed = false
		case served:
			if granted {
				m.token, m.issuedAt, m.vouchedAt = newTok, now, now
			} else if positive {
				m.vouchedAt = now
			}
		}
	}
	return "", "", 0
}

// c12rOff: test switch — VERIF_C12_NO_REMOTE=1 runs the check without this part (to show that a change
// to the repository is seen by this part only).
func c12rOff() bool { return os.Getenv("VERIF_C12_NO_REMOTE") == "1" }

func c12rSeq(c *Ctx) {
	if c12rOff() {
		return
	}
	depth := 4
	if !c.Quick() {
		depth = 5
	}
	c.Info["remote_seq_history_length"] = depth
	stats := &c12rStats{classes: map[string]int{}}
	n := 0
	for _, provider := range []string{"keycloak", "google"} {
		alpha := c12rAlphabet(provider, c.Quick())
		c.Info["remote_seq_alphabet_"+provider] = len(alpha)
		total := 1
		for i := 0; i < depth; i++ {
			total *= len(alpha)
		}
		for _, store := range []string{"cookie", "redis"} {
			for h := 0; h < total; h++ {
				ops := make([]string, depth)
				for i, x := 0, h; i < depth; i++ {
					ops[i] = alpha[x%len(alpha)]
					x /= len(alpha)
				}
				if !strings.HasPrefix(ops[depth-1], "request[") {
					// nothing is observed after the last request: the history is judged as the prefix of
					// the histories that end in a request
					if c.Shard == 0 {
						c.Inc("remote_seq_histories_not_ending_in_a_request_skipped")
					}
					continue
				}
				if !c12rHasOp(ops, "advance-") {
					// no time passes: no request of the history can meet a session past the refresh period
					if c.Shard == 0 {
						c.Inc("remote_seq_histories_without_an_advance_skipped")
					}
					continue
				}
				n++
				if !c.Mine(n) {
					continue
				}
				if n%64 == 0 && c.Expired() {
					return
				}
				e := c12rEnvFor(provider, store)
				before := stats.classes["stale_served_after_refresh"] + stats.classes["stale_served_after_validation_call"] + stats.classes["stale_refused"] + stats.classes["ambiguous"]
				key, msg, at := c12rRunHistory(e, ops, c.Seed, stats)
				c.Inc("evaluations")
				c.Inc("remote_seq_histories")
				after := stats.classes["stale_served_after_refresh"] + stats.classes["stale_served_after_validation_call"] + stats.classes["stale_refused"] + stats.classes["ambiguous"]
				if after > before {
					// non-trivial: at least one request of the history met a session past the refresh period
					c.Distinct("distinct_nontrivial", fmt.Sprintf("rseq/%s/%s/%d", provider, store, h))
					c.Inc("remote_seq_histories_with_a_stale_request")
				}
				hist := c12rHistory{Provider: provider, Store: store, Ops: ops}
				if after > before {
					c.Sample(8, hist)
				}
				switch key {
				case "":
				case "HARNESS":
					c.Error("C12 remote seq %s/%s %v: %s", provider, store, ops, msg)
				default:
					hist.FailedAt, hist.What = at, msg
					hist.Ops = ops[:at+1]
					c.confirm(key, msg, at+1, hist, func() (string, bool) {
						k, _, _ := c12rRunHistory(e, ops, c.Seed, nil)
						return k, k != ""
					})
				}
			}
		}
	}
	for k, v := range stats.classes {
		c.Add("remote_seq_requests_"+k, int64(v))
		if k == "ambiguous" {
			c.Add("ambiguous", int64(v))
		}
	}
}

// c12rConfigs: the same model under every cookie configuration of c12CookieCfgs that validation accepts:
// a session 1 s younger / 2 s / 5 s older than the refresh period meets every provider answer, and a
// second period follows a passed one.
func c12rConfigs(c *Ctx) {
	if c12rOff() {
		return
	}
	stats := &c12rStats{classes: map[string]int{}}
	u := 0
	for _, provider := range []string{"keycloak", "google"} {
		requests := c12rAlphabet(provider, false)[3:]
		yes := requests[0] // validate=200 (refresh=ok)
		for _, store := range []string{"cookie", "redis"} {
			for _, k := range c12CookieCfgs() {
				k := k
				u++
				if !c.Mine(u) || c.Expired() {
					continue
				}
				e, err := c12rNewEnv(provider, store, &k)
				if err != nil {
					if strings.HasPrefix(err.Error(), "validate:") {
						c.Inc("remote_cookie_configurations_refused_by_validation")
					} else {
						c.Error("C12 remote %s/%s %s: %v", provider, store, k, err)
					}
					continue
				}
				c.Inc("remote_cookie_configurations_accepted")
				var hs [][]string
				ages := c12Ages(k.Refresh)
				for _, name := range []string{"fresh", "stale-by-1s", "stale"} {
					for _, rq := range requests {
						hs = append(hs, []string{"advance-" + ages[name].String(), rq})
					}
				}
				for _, rq := range requests {
					hs = append(hs, []string{"advance-" + ages["stale-by-1s"].String(), yes, "advance-" + ages["stale-by-1s"].String(), rq})
				}
				for _, ops := range hs {
					ops := ops
					key, msg, at := c12rRunHistory(e, ops, c.Seed, stats)
					c.Inc("evaluations")
					c.Inc("remote_cookie_configuration_histories")
					c.Distinct("distinct_nontrivial", fmt.Sprintf("rcfg/%s/%s/%s/%v", provider, store, k, ops))
					hist := c12rHistory{Provider: provider, Store: store, Cookie: k.String(), Ops: ops}
					switch key {
					case "":
					case "HARNESS":
						c.Error("C12 remote %s/%s %s %v: %s", provider, store, k, ops, msg)
					default:
						hist.FailedAt, hist.What = at, msg
						c.confirm(key, "["+k.String()+"] "+msg, at+1, hist, func() (string, bool) {
							k2, _, _ := c12rRunHistory(e, ops, c.Seed, nil)
							return k2, k2 != ""
						})
					}
				}
				e.close()
			}
		}
	}
	for k, v := range stats.classes {
		c.Add("remote_cfg_requests_"+k, int64(v))
		if k == "ambiguous" {
			c.Add("ambiguous", int64(v))
		}
	}
}

// ---------------------------------------------------------------------------------------------
// concurrent part

func c12rScenarios(quick bool) []c12Scenario {
	var out []c12Scenario
	threads := []int{2}
	if !quick {
		threads = []int{2, 3}
	}
	for _, n := range threads {
		for _, provider := range []string{"keycloak", "google"} {
			refreshes := []string{""}
			if c12rRefreshes(provider) {
				refreshes = []string{"ok", "fail"}
			}
			for _, store := range []string{"redis", "cookie"} {
				for _, rf := range refreshes {
					for _, v := range []string{"200", "401", "500", "reset", "200-then-401", "401-then-200"} {
						if quick && v == "500" {
							continue // (to the session loader a 500 is what a 401 is: the sequential part has both in every tier)
						}
						out = append(out, c12Scenario{Threads: n, Provider: provider, Store: store, Validate: v, Refresh: rf})
					}
				}
			}
		}
	}
	return out
}

func c12rExec(sc c12Scenario, x *explore.Exec, prune bool, seed int64) *c12Result {
	res := &c12Result{}
	e := c12rEnvFor(sc.Provider, sc.Store)
	harness := func(format string, a ...any) *c12Result {
		res.violations = append(res.violations, "HARNESS\x00"+fmt.Sprintf(format, a...))
		res.out = &sched.Outcome{}
		return res
	}
	idp := e.fresh(seed)
	b := newBrowser(e.px, "http", "app.example.com")
	resp, _, lerr := b.Login(idp, "alice", "/app")
	if lerr != nil || resp.Status != 302 {
		return harness("remote %s/%s: login failed: %v status %d", sc.Provider, sc.Store, lerr, resp.Status)
	}
	toks := idp.IssuedAccessTokens()
	if len(toks) != 1 {
		return harness("remote: expected one access token after login, got %v", toks)
	}
	oldAT := toks[0]
	world.Advance(2 * time.Minute)
	cookie := b.Jar.Header("http", "app.example.com", "/")
	if e.redis != nil {
		secret, serr := c12TicketSecret(cookie)
		if serr != nil {
			return harness("remote: cannot read the ticket secret: %v", serr)
		}
		e.redis.Canon = c12Canon(secret)
	}
	refresh := sc.Refresh
	if refresh == "" {
		refresh = "ok"
	}
	e.mon.arm(idp, sc.Validate, refresh)
	e.up.Take()
	startOffset := world.Offset()
	callsBefore := 0
	if e.redis != nil {
		callsBefore = e.redis.NumCalls()
	}
	opts := sched.Options{Horizon: 700, MaxSteps: 20000, PositionsByObservation: true}
	if prune {
		opts.StateKey = func() string {
			k := idp.StateKey() + "#" + e.mon.key()
			if e.redis != nil {
				k = c12StoreKey(&e.c12Env) + "#" + k
			}
			return k
		}
	}
	s := sched.New(x, opts)
	resps := make([]*world.Resp, sc.Threads)
	for i := 0; i < sc.Threads; i++ {
		i := i
		s.Go(fmt.Sprintf("req%d", i), func() {
			resps[i] = world.Serve(e.px.H, &world.Req{Method: "GET", Target: "/app", Host: "app.example.com",
				Headers: [][2]string{{"Cookie", cookie}, {"X-Req", fmt.Sprint(i)}}})
			sched.Observe(fmt.Sprintf("resp:%d:%v", resps[i].Status, c12rCleared(resps[i], e.cookieName())))
		})
	}
	out := s.Run()
	res.out = out
	res.elapsed = world.Offset() - startOffset
	if out.Aborted == "pruned" {
		res.pruned = true
		return res
	}
	if e.redis != nil {
		obt := 0
		for _, op := range e.redis.Ops(callsBefore) {
			if op == "OBTAIN" {
				obt++
			}
		}
		res.contended = obt > 1
	}
	add := func(key, format string, a ...any) {
		res.violations = append(res.violations, "C12/"+key+"\x00"+fmt.Sprintf(format, a...))
	}
	switch out.Aborted {
	case sched.StuckAborted:
		res.outcome = "given-up:" + sched.StuckAborted
		res.inconclusive = true
		return res
	case "deadlock":
		add("deadlock", "no thread enabled, blocked: %v", out.Blocked)
		return res
	case "livelock", "horizon":
		add(out.Aborted, "requests keep waiting for the refresh lock")
		return res
	}
	for _, p := range out.Panics {
		add("panic", "%s", p)
	}
	if res.elapsed >= 2*time.Second {
		res.outcome = "proviso-not-met"
		return res
	}
	hits := e.mon.takeHits()
	e.up.Take()
	calls := e.mon.calls()
	hitOf := map[string]*c12rHit{}
	for i := range hits {
		h := &hits[i]
		if hitOf[h.Req] != nil {
			add("remote-delivered-twice", "request %s reached the upstream twice", h.Req)
		}
		hitOf[h.Req] = h
	}
	grants, valCalls, anyPositive := 0, 0, false
	for _, cl := range calls {
		if c12rGranted(cl) {
			grants++
		}
		if cl.Endpoint == "validate" {
			valCalls++
		}
		if c12rPositive(cl) {
			anyPositive = true
		}
	}
	issued := idp.IssuedAccessTokens()
	canRefresh := c12rRefreshes(sc.Provider) && refresh == "ok"
	allPositive := sc.Validate == "200"
	noPositive := !canRefresh && (sc.Validate == "401" || sc.Validate == "500" || sc.Validate == "reset")
	if noPositive && anyPositive {
		return harness("remote %+v: the provider answered positively in a scenario where it never should", sc)
	}
	var parts []string
	nServed, nRefused := 0, 0
	for i := 0; i < sc.Threads; i++ {
		r := resps[i]
		if r == nil {
			add("no-response", "request %d got no response", i)
			continue
		}
		h := hitOf[fmt.Sprint(i)]
		if r.Panic != nil {
			add("panic", "request %d: %v at %s", i, r.Panic, r.PanicSite())
			continue
		}
		// this request's own conversation with the provider
		ownAsked, ownPos, ownNeg, ownGrant, peerAsked := false, false, false, false, false
		for _, cl := range calls {
			if !c12rAsked(cl) {
				continue
			}
			if cl.Thread != i {
				peerAsked = true
				continue
			}
			ownAsked = true
			if c12rPositive(cl) {
				ownPos = true
			} else {
				ownNeg = true
			}
			if c12rGranted(cl) {
				ownGrant = true
			}
		}
		served := r.Status == 200 && h != nil
		cleared := c12rCleared(r, e.cookieName())
		parts = append(parts, fmt.Sprintf("%d:%d:%v:%v", i, r.Status, h != nil, cleared))
		if h != nil && !h.PosBefore {
			switch {
			case !c12rRefreshes(sc.Provider) && sc.Store == "redis" && !ownAsked && peerAsked:
				// one root cause, own key: for providers without a refresh grant refreshSession pretends
				// a refresh happened, resets the session's age and SAVES it, and only afterwards
				// refreshSessionIfNeeded asks the provider; a peer that loads the store in between finds
				// a young session and is served without anybody having been told "yes" yet
				if anyPositive {
					// the peer's question was answered "yes" in the end (only too late for this request):
					// executions in which the answer is "no" are the plainer witnesses
					res.sizeBias = 1000
				}
				add("peer-served-from-session-saved-before-its-revalidation", "request %d reached the upstream (status %d) without asking the provider itself and before any positive provider answer existed (validation calls in this execution: %d, any of them answered 200: %v) — the peer had stored the session with its age reset BEFORE its own re-validation call was answered, this request loaded that copy, found it young and was served", i, r.Status, valCalls, anyPositive)
			default:
				add("remote-served-without-provider-answer", "request %d on a session older than the refresh period reached the upstream (status %d) although no refresh grant or passed re-validation (own or a peer's) preceded the delivery; own call: %v", i, r.Status, ownAsked)
			}
		}
		if h != nil {
			if h.Email != "alice@example.com" {
				add("served-under-foreign-identity", "request %d reached the upstream as %q", i, h.Email)
			}
			switch {
			case ownGrant || (sc.Store == "redis" && h.GrantsBef > 0):
				if h.Token == oldAT {
					add("remote-served-with-stale-token", "request %d reached the upstream with the pre-refresh access token although a refresh grant (own: %v) preceded its delivery", i, ownGrant)
				} else if !containsStr(issued, h.Token) {
					add("unknown-token", "request %d carried access token %q, never issued", i, h.Token)
				}
			case !containsStr(issued, h.Token):
				add("unknown-token", "request %d carried access token %q, never issued", i, h.Token)
			}
		}
		if served {
			nServed++
			if ownPos {
				res.tags = append(res.tags, "remote_sched_served_after_own_provider_answer")
			} else if h.PosBefore {
				res.tags = append(res.tags, "remote_sched_served_after_a_peers_provider_answer")
			}
			if h.PosBefore && c12rRefreshes(sc.Provider) && refresh == "ok" && !allPositive && !ownAsked {
				// served from the copy a peer stored after its refresh was granted, while the validation of
				// the new token was (or was going to be) answered "no": "refreshed with, or re-validated by"
				// admits it, counted
				res.tags = append(res.tags, "ambiguous", "remote_sched_served_on_a_peers_refresh_whose_validation_was_not_positive")
			}
			continue
		}
		if h != nil {
			add("remote-response-class", "request %d reached the upstream but was answered %d", i, r.Status)
			continue
		}
		nRefused++
		if r.Status != http.StatusForbidden && r.Status != http.StatusUnauthorized && r.Status != http.StatusFound {
			add("remote-response-class", "request %d was refused with status %d", i, r.Status)
		}
		switch {
		case allPositive:
			// every answer the provider gives is "yes": all requests are served
			add("remote-request-not-served", "request %d of %d sharing a stale session the provider vouches for was answered %d", i, sc.Threads, r.Status)
		case ownPos && !ownNeg:
			add("remote-request-not-served", "request %d was told \"yes\" by the provider and nothing else, but was answered %d", i, r.Status)
		case ownNeg:
			res.tags = append(res.tags, "remote_sched_refused_after_own_negative_answer")
			if !cleared {
				add("remote-cookie-not-cleared", "request %d: neither refresh nor re-validation succeeded (own calls), answered %d, but the response does not delete the session cookie", i, r.Status)
			}
		default:
			// refused without a conversation of its own (the peer had removed the session): the
			// statement's clause is about the request whose re-validation failed
			if cleared {
				res.tags = append(res.tags, "remote_sched_refused_without_own_call_cookie_deleted")
			} else {
				res.tags = append(res.tags, "ambiguous")
				res.tags = append(res.tags, "remote_sched_refused_without_own_call_cookie_kept")
			}
		}
	}
	if sc.Store == "redis" {
		if canRefresh && grants > 1 {
			add("refresh-count", "%d refresh grants at the identity provider for one stale session shared by %d concurrent requests (server-side store)", grants, sc.Threads)
		}
		if canRefresh && allPositive && grants != 1 {
			add("refresh-count", "%d refresh grants (expected exactly 1)", grants)
		}
		if nServed == 0 && nRefused == sc.Threads && noPositive {
			if ks := e.redis.SessionKeys(); len(ks) != 0 {
				add("remote-store-entry-survives", "every request was refused (neither refresh nor re-validation succeeded) but the store still holds %d session entr(y/ies)", len(ks))
			} else {
				res.tags = append(res.tags, "remote_sched_store_entry_gone")
			}
		}
		// the stored session is the refreshed / re-validated one: a later request needs no further grant
		if allPositive && len(res.violations) == 0 {
			g := idp.Grants
			e.mon.mu.Lock()
			e.mon.hits = nil
			e.mon.mu.Unlock()
			r := world.Serve(e.px.H, &world.Req{Method: "GET", Target: "/app", Host: "app.example.com", Headers: [][2]string{{"Cookie", cookie}, {"X-Req", "after"}}})
			hs := e.mon.takeHits()
			e.up.Take()
			switch {
			case r.Status != 200 || len(hs) != 1:
				add("remote-refreshed-session-not-stored", "a later request with the same cookie was answered %d", r.Status)
			case canRefresh && (idp.Grants != g || hs[0].Token == oldAT):
				add("remote-refreshed-session-not-stored", "a later request with the same cookie: further refresh grants %d, carries the pre-refresh token: %v", idp.Grants-g, hs[0].Token == oldAT)
			}
		}
	}
	if sc.Store == "cookie" && canRefresh {
		res.tags = append(res.tags, fmt.Sprintf("remote_sched_cookie_store_executions_with_%d_refresh_grants", grants))
	}
	sort.Strings(parts)
	res.outcome = strings.Join(parts, " ") + fmt.Sprintf(" grants=%d validate-calls=%d", grants, valCalls)
	return res
}

func c12rSched(c *Ctx) {
	if c12rOff() {
		return
	}
	scs := c12rScenarios(c.Quick())
	if only := os.Getenv("VERIF_C12_REMOTE_ONLY"); only != "" {
		// test switch: one exploration, "provider/store/validate/refresh/threads"
		p := strings.Split(only, "/")
		var n int
		fmt.Sscan(p[4], &n)
		scs = []c12Scenario{{Threads: n, Provider: p[0], Store: p[1], Validate: p[2], Refresh: p[3]}}
	}
	c.Info["remote_sched_scenarios"] = len(scs)
	for _, sc := range scs {
		if c.Expired() {
			return
		}
		bound := 1000
		if sc.Threads > 2 && sc.Store == "redis" {
			// three requests at the store: all schedules with at most 2 preemptions (an unbounded
			// exploration of one such scenario is 10-30 thousand executions; there are 30 of them)
			bound = 2
		}
		c12Explore(c, nil, sc, bound, true)
		c.Inc("remote_sched_explorations")
	}
	if !c.Quick() {
		// cross-check of the pruning abstraction: the 2-thread Redis scenarios again without pruning
		for _, sc := range scs {
			if sc.Threads == 2 && sc.Store == "redis" && !c.Expired() {
				c12Explore(c, nil, sc, 1000, false)
			}
		}
	}
}

// c12rPost: the new part saw the outcomes it must see to mean anything.
func c12rPost(c *Ctx) {
	if c12rOff() {
		return
	}
	for _, k := range []string{
		"remote_seq_requests_stale_served_after_validation_call", "remote_seq_requests_stale_served_after_refresh",
		"remote_seq_requests_stale_refused", "remote_seq_requests_fresh", "remote_seq_requests_ambiguous",
		"remote_sched_served_after_own_provider_answer", "remote_sched_served_after_a_peers_provider_answer",
		"remote_sched_refused_after_own_negative_answer", "remote_sched_store_entry_gone",
		"remote_sched_cookie_store_executions_with_2_refresh_grants",
		"remote_cfg_requests_stale_served_after_validation_call", "remote_cfg_requests_stale_served_after_refresh",
		"remote_cfg_requests_stale_refused", "remote_cfg_requests_fresh", "remote_cookie_configurations_refused_by_validation",
	} {
		if c.Counters[k] == 0 {
			c.Error("vacuous remote re-validation part: %s = 0", k)
		}
	}
}
