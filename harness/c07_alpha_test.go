//go:build verif

package main

import (
	"encoding/base64"
	"fmt"
	"net/textproto"
	"os"
	"strings"
	"time"

	"github.com/ghodss/yaml"
	"github.com/oauth2-proxy/oauth2-proxy/v7/pkg/apis/options"
	"github.com/oauth2-proxy/oauth2-proxy/v7/verifx/world"
)

// C07, three further factors of the sequential product (DESIGN §10.3c listed them as left out):
//
//  1. Session store. Every configuration of the main product is built a second time with the Redis
//     session store; the cookie credentials are then tickets of sessions that were stored in Redis
//     (real logins and crafted sessions saved through the store), the rest of the product
//     (styles x paths) and the oracle are unchanged.
//  2. Header lists from an alpha-config YAML file. The file is written as text by this harness
//     and loaded by the repository's own path (--alpha-config: loadConfiguration -> LoadYAML
//     with environment substitution -> MergeInto -> Validate). Enumerated: the product of two list
//     entries (value shape A x value shape B x relation of the two names: distinct / the same name
//     twice / spellings differing only in letter case x preserveRequestValue of each entry x the
//     source of the secrets: value / fromFile / fromEnv [thorough: + ${VAR} substitution]) plus a
//     fixed tail (the three tokens, Authorization), for request and for response headers. The
//     reference is the same evaluation of header specifications as in the main part, over entries
//     merged by canonical name. Legacy --skip-auth-strip-headers does not exist under alpha
//     config; what it means for a name (strip = preserveRequestValue false) is the
//     preserveRequestValue factor, so the bypass paths without a session see every YAML name with
//     stripping on and off.
//  3. Refreshed sessions. With --cookie-refresh=1m a login session (either store) is aged past the
//     refresh period; the request that triggers the refresh and every request after it must carry the
//     tokens the provider issued in that refresh grant (read from the provider's issue log), never
//     the previous ones and never a client value.

// ---------------------------------------------------------------------------------------------
// Redis session store

func (e *c07Env) redis() *world.Redis {
	if e.rd == nil {
		e.rd = world.NewRedis()
	}
	return e.rd
}

// redisCredentials mints the store-borne credentials once per shard: the same five logins and five
// crafted sessions as the cookie credentials, saved in Redis; plus the conflict credential and
// "none". (Authorization-borne credentials never touch the session store: main part.)
func (e *c07Env) redisCredentials() []*c07Cred {
	if e.redisCreds != nil {
		return e.redisCreds
	}
	mint := mustProxy(&ProxyCfg{Flags: c07BaseFlags(e), Redis: e.redis()})
	before := len(e.redis().SessionKeys())
	e.redisCreds = e.mintStoreCreds(mint, "redis")
	if got := len(e.redis().SessionKeys()) - before; got != len(e.redisCreds) {
		e.c.Error("C07 fixture: %d credentials minted with the Redis store but %d sessions stored in Redis", len(e.redisCreds), got)
	}
	if alice := e.redisCred("redis-oidc-alice"); alice != nil {
		jwtBob := e.idp.MintIDToken(e.idp.Users["bob"], nil)
		e.redisCreds = append(e.redisCreds, &c07Cred{Kind: "redis-alice+bearer-bob", Cookie: alice.Cookie, Authz: "Bearer " + jwtBob,
			Cands: []c07Cand{alice.Cands[0], {User: "bob-sub", AT: jwtBob, IDT: jwtBob, Bearer: true}}})
	}
	e.redisCreds = append(e.redisCreds, &c07Cred{Kind: "none"})
	e.up.Take()
	return e.redisCreds
}

func (e *c07Env) redisCred(kind string) *c07Cred {
	for _, cr := range e.redisCreds {
		if cr.Kind == kind {
			return cr
		}
	}
	return nil
}

func c07WithStore(cfg *c07Config, store string) *c07Config {
	k := *cfg
	k.Store = store
	if store != "" {
		k.Name = cfg.Name + "@" + store
	}
	return &k
}

// c07RedisConfigs: the configurations that are built with the Redis store. Quick: the structured
// lists and the legacy flag combinations with a basic-auth password (the password factor only
// decides which combinations pass validation) and without prefer-email-to-user (7 flags = 128
// combinations); thorough: all.
func c07RedisConfigs(cfgs []*c07Config, quick bool) []*c07Config {
	var out []*c07Config
	for _, cfg := range cfgs {
		if quick && cfg.Legacy != nil && (cfg.Legacy.Password == "" || cfg.Legacy.PreferEmail) {
			continue
		}
		out = append(out, c07WithStore(cfg, "redis"))
	}
	return out
}

// ---------------------------------------------------------------------------------------------
// alpha-config YAML

// c07AlphaSpec is one enumerated header list (JSON-able: it is the replay description).
type c07AlphaSpec struct {
	A         string `json:"entry_a_values"`
	B         string `json:"entry_b_values"`
	Relation  string `json:"name_relation"` // distinct | same | case | case-mixed
	PreserveA bool   `json:"preserve_a"`
	PreserveB bool   `json:"preserve_b"`
	Src       string `json:"secret_source"` // value | file | env | envsubst
}

// one configured value as it is written into the file
type c07AlphaVal struct {
	Claim  string
	Prefix string
	Basic  bool // claim + basicAuthPassword (secret from the list's source)
	Secret bool // static secret (from the list's source)
}

type c07AlphaEntry struct {
	Name     string
	Preserve bool
	Vals     []c07AlphaVal
}

var c07AlphaShapes = map[string][]c07AlphaVal{
	"user":           {{Claim: "user"}},
	"groups":         {{Claim: "groups"}},        // multi-valued claim
	"absent":         {{Claim: "no_such_claim"}}, // a claim no session has
	"basic":          {{Claim: "user", Basic: true}},
	"secret":         {{Secret: true}},
	"several":        {{Claim: "groups", Prefix: "g:"}, {Secret: true}, {Claim: "preferred_username"}, {Claim: "email"}},
	"email-prefixed": {{Claim: "email", Prefix: "mail:"}},
	"novalues":       {},
}

func c07AlphaShapeNames(quick bool) []string {
	if quick {
		return []string{"user", "groups", "absent", "basic", "secret", "several"}
	}
	return []string{"user", "groups", "absent", "basic", "secret", "several", "email-prefixed", "novalues"}
}

func c07AlphaUsesSecret(shape string) bool {
	for _, v := range c07AlphaShapes[shape] {
		if v.Basic || v.Secret {
			return true
		}
	}
	return false
}

func c07AlphaRelations(quick bool) []string {
	if quick {
		return []string{"distinct", "same", "case"}
	}
	return []string{"distinct", "same", "case", "case-mixed"}
}

func c07AlphaSources(quick bool) []string {
	if quick {
		return []string{"value", "file", "env"}
	}
	return []string{"value", "file", "env", "envsubst"}
}

// c07AlphaSpecs is the full product; the source factor only where a secret occurs in the list.
func c07AlphaSpecs(quick bool) []*c07AlphaSpec {
	var out []*c07AlphaSpec
	for _, a := range c07AlphaShapeNames(quick) {
		for _, b := range c07AlphaShapeNames(quick) {
			srcs := []string{"value"}
			if c07AlphaUsesSecret(a) || c07AlphaUsesSecret(b) {
				srcs = c07AlphaSources(quick)
			}
			for _, src := range srcs {
				for _, rel := range c07AlphaRelations(quick) {
					for pp := 0; pp < 4; pp++ {
						out = append(out, &c07AlphaSpec{A: a, B: b, Relation: rel, PreserveA: pp&1 != 0, PreserveB: pp&2 != 0, Src: src})
					}
				}
			}
		}
	}
	return out
}

func (s *c07AlphaSpec) name() string {
	return fmt.Sprintf("alpha-%s+%s-%s-p%v%v-%s", s.A, s.B, s.Relation, c07B2i(s.PreserveA), c07B2i(s.PreserveB), s.Src)
}

func c07B2i(b bool) int {
	if b {
		return 1
	}
	return 0
}

// names of the two enumerated entries. They are taken from c07SpoofNames so that every client
// header style spoofs them.
func c07AlphaNames(first, second, rel string) (string, string) {
	switch rel {
	case "same":
		return first, first
	case "case":
		return first, strings.ToLower(first)
	case "case-mixed":
		return strings.ToUpper(first), c07CaseName(first, "mixed")
	}
	return first, second
}

// lists returns the request and the response list of the spec. The response list carries the two
// value shapes in exchanged roles under X-Auth-Request names, so that the two lists of one file
// never coincide; preserveRequestValue is written there too ("only applies to injected request
// headers": it must be without effect).
func (s *c07AlphaSpec) lists() (req, resp []c07AlphaEntry) {
	a, b := c07AlphaShapes[s.A], c07AlphaShapes[s.B]
	n1, n2 := c07AlphaNames("X-Verif-User", "X-Verif-Groups", s.Relation)
	req = []c07AlphaEntry{
		{Name: n1, Preserve: s.PreserveA, Vals: a},
		{Name: n2, Preserve: s.PreserveB, Vals: b},
		{Name: "X-Verif-Tokens", Vals: []c07AlphaVal{{Claim: "access_token"}, {Claim: "id_token", Prefix: "id:"}, {Claim: "refresh_token", Prefix: "rt:"}}},
		{Name: "Authorization", Preserve: s.PreserveA, Vals: []c07AlphaVal{{Claim: "id_token", Prefix: "Bearer "}}},
	}
	r1, r2 := c07AlphaNames("X-Auth-Request-User", "X-Auth-Request-Groups", s.Relation)
	resp = []c07AlphaEntry{
		{Name: r1, Preserve: s.PreserveB, Vals: b},
		{Name: r2, Preserve: s.PreserveA, Vals: a},
		{Name: "X-Auth-Request-Access-Token", Vals: []c07AlphaVal{{Claim: "access_token"}}},
	}
	return req, resp
}

// the secrets: a different text per source and role, so that a source read as another one shows
func c07AlphaSecretText(role, src string) string { return role + "-from-" + src }

// c07AlphaFixture holds what the secret sources refer to (files in the scratch directory,
// environment variables of this process) and the part of the file that is not under test.
type c07AlphaFixture struct {
	files map[string]string // role -> path
	base  string            // upstreamConfig / server / providers
	flags []string
}

func c07AlphaEnvName(role, src string) string {
	return "VERIF_C07_" + strings.ToUpper(role) + "_" + strings.ToUpper(src)
}

// legacy flags that alpha configuration removes (docs/docs/configuration/alpha_config.md, "Removed
// options"): they move into the file
var c07AlphaRemovedFlags = []string{"--provider=", "--oidc-issuer-url=", "--client-id=", "--client-secret=", "--http-address=", "--upstream="}

func (e *c07Env) alphaFixture() *c07AlphaFixture {
	if e.alpha != nil {
		return e.alpha
	}
	fx := &c07AlphaFixture{files: map[string]string{}}
	for _, role := range []string{"hs", "pw"} {
		fx.files[role] = tempFile(scratch(), "c07-"+role+"-*", c07AlphaSecretText(role, "file"))
		os.Setenv(c07AlphaEnvName(role, "env"), c07AlphaSecretText(role, "env"))
		// ${VAR} in the file is replaced before the YAML is parsed: the variable holds what the
		// `value` key expects, base64
		os.Setenv(c07AlphaEnvName(role, "envsubst"), base64.StdEncoding.EncodeToString([]byte(c07AlphaSecretText(role, "envsubst"))))
	}
	// The part of the file that is not under test (upstreams, server, provider) is what the
	// documented migration path (--convert-config-to-alpha) produces for the flags of the main
	// part: the converted structures of a legacy build, rendered as YAML.
	legacy, err := buildProxy(&ProxyCfg{Flags: c07BaseFlags(e)})
	if err != nil {
		e.c.Error("C07 fixture: legacy build for the alpha base failed: %v", err)
		e.alpha = fx
		return fx
	}
	ao := &options.AlphaOptions{}
	ao.ExtractFrom(legacy.Opts)
	ao.InjectRequestHeaders, ao.InjectResponseHeaders = nil, nil
	raw, err := yaml.Marshal(ao)
	if err != nil {
		e.c.Error("C07 fixture: cannot render the alpha base: %v", err)
	}
	fx.base = string(raw)
	if strings.Contains(fx.base, "$") {
		e.c.Error("C07 fixture: the alpha base contains a '$' (environment substitution would rewrite it)")
	}
	for _, f := range c07BaseFlags(e) {
		removed := false
		for _, r := range c07AlphaRemovedFlags {
			if strings.HasPrefix(f, r) {
				removed = true
			}
		}
		if !removed {
			fx.flags = append(fx.flags, f)
		}
	}
	e.alpha = fx
	return fx
}

func c07YAMLString(s string) string {
	// double-quoted YAML scalar; the harness never writes characters that need more escaping
	return `"` + strings.NewReplacer(`\`, `\\`, `"`, `\"`).Replace(s) + `"`
}

// secretYAML renders one SecretSource at the given indentation.
func (fx *c07AlphaFixture) secretYAML(indent, role, src string) string {
	switch src {
	case "file":
		return indent + "fromFile: " + c07YAMLString(fx.files[role]) + "\n"
	case "env":
		return indent + "fromEnv: " + c07AlphaEnvName(role, "env") + "\n"
	case "envsubst":
		return indent + "value: ${" + c07AlphaEnvName(role, "envsubst") + "}\n"
	}
	return indent + "value: " + base64.StdEncoding.EncodeToString([]byte(c07AlphaSecretText(role, "value"))) + "\n"
}

func (fx *c07AlphaFixture) listYAML(key string, list []c07AlphaEntry, src string) string {
	var b strings.Builder
	b.WriteString(key + ":\n")
	for _, h := range list {
		b.WriteString("- name: " + c07YAMLString(h.Name) + "\n")
		if h.Preserve {
			b.WriteString("  preserveRequestValue: true\n")
		}
		if len(h.Vals) == 0 {
			b.WriteString("  values: []\n")
			continue
		}
		b.WriteString("  values:\n")
		for _, v := range h.Vals {
			switch {
			case v.Secret:
				s := fx.secretYAML("    ", "hs", src)
				b.WriteString("  - " + strings.TrimPrefix(s, "    "))
			default:
				b.WriteString("  - claim: " + c07YAMLString(v.Claim) + "\n")
				if v.Prefix != "" {
					b.WriteString("    prefix: " + c07YAMLString(v.Prefix) + "\n")
				}
				if v.Basic {
					b.WriteString("    basicAuthPassword:\n" + fx.secretYAML("      ", "pw", src))
				}
			}
		}
	}
	return b.String()
}

func (e *c07Env) alphaYAML(s *c07AlphaSpec) string {
	fx := e.alphaFixture()
	req, resp := s.lists()
	return fx.base + fx.listYAML("injectRequestHeaders", req, s.Src) + fx.listYAML("injectResponseHeaders", resp, s.Src)
}

// c07AlphaRef: the reference reading of a list. Entries whose names are the same header (RFC 9110:
// field names are case-insensitive) configure one name with the values of all of them; where their
// preserveRequestValue settings differ the operator said both, so both are admissible.
func c07AlphaRef(list []c07AlphaEntry, src string, request bool) (out []c07Hdr, why string) {
	idx := map[string]int{}
	exact := map[string]bool{}
	for _, h := range list {
		if exact[h.Name] {
			// "Names should be unique within a list of Headers"
			why = "two headers named " + h.Name
		}
		exact[h.Name] = true
		var vals []c07Val
		for _, v := range h.Vals {
			switch {
			case v.Secret:
				t := c07AlphaSecretText("hs", src)
				vals = append(vals, c07Val{Secret: &t})
			case v.Basic:
				t := c07AlphaSecretText("pw", src)
				vals = append(vals, c07Val{Chains: c07One(v.Claim), BasicPw: &t})
			default:
				vals = append(vals, c07Val{Chains: c07One(v.Claim), Prefix: v.Prefix})
			}
		}
		canon := textproto.CanonicalMIMEHeaderKey(h.Name)
		pres := request && h.Preserve
		if i, ok := idx[canon]; ok {
			if out[i].Preserve != pres {
				out[i].Preserve, out[i].PreserveOpen = true, true
			}
			out[i].Values = append(out[i].Values, vals...)
			continue
		}
		idx[canon] = len(out)
		if vals == nil {
			vals = []c07Val{}
		}
		out = append(out, c07Hdr{Name: canon, Preserve: pres, Values: vals})
	}
	return out, why
}

func c07AlphaConfig(s *c07AlphaSpec) *c07Config {
	cfg := &c07Config{Name: s.name(), Alpha: s}
	req, resp := s.lists()
	var w1, w2 string
	cfg.ref.Req, w1 = c07AlphaRef(req, s.Src, true)
	cfg.ref.Resp, w2 = c07AlphaRef(resp, s.Src, false)
	cfg.rejectWhy = w1
	if w1 == "" {
		cfg.rejectWhy = w2
	}
	return cfg
}

func (e *c07Env) buildAlpha(cfg *c07Config, rd *world.Redis, extra []string) (*Proxy, error) {
	fx := e.alphaFixture()
	return buildProxy(&ProxyCfg{Flags: append(append([]string{}, fx.flags...), extra...), Alpha: e.alphaYAML(cfg.Alpha), Redis: rd})
}

// c07AlphaLoaded compares what the loading path produced with the file (names verbatim, order,
// preserve bits, number of values): the lists the proxy works with are the operator's.
func c07AlphaLoaded(c *Ctx, cfg *c07Config, px *Proxy) {
	req, resp := cfg.Alpha.lists()
	cmp := func(kind string, want []c07AlphaEntry, got []options.Header) {
		ok := len(want) == len(got)
		for i := 0; ok && i < len(want); i++ {
			ok = want[i].Name == got[i].Name && want[i].Preserve == got[i].PreserveRequestValue && len(want[i].Vals) == len(got[i].Values)
		}
		c.Inc("alpha_loaded_lists_compared")
		if !ok {
			c.Violate("C07/alpha-config-loads-a-different-"+kind+"-header-list", fmt.Sprintf("%s: the %s header list the proxy holds after loading the alpha config is not the list written in the file: file %+v, loaded %+v", cfg.Name, kind, want, got), len(want), c07Case{Config: cfg, Outcome: "loaded list differs from the file"})
		}
	}
	cmp("request", req, px.Opts.InjectRequestHeaders)
	cmp("response", resp, px.Opts.InjectResponseHeaders)
}

// ---------------------------------------------------------------------------------------------
// refreshed sessions

type c07RefreshCase struct {
	Kind    string     `json:"kind"` // "refresh"
	Config  *c07Config `json:"config"`
	User    string     `json:"user"`
	Style   string     `json:"client_header_style"`
	Trigger string     `json:"refresh_triggered_by"`
	Path    string     `json:"path,omitempty"`
	Header  string     `json:"header,omitempty"`
	Observe []string   `json:"observed_values,omitempty"`
	Old     []string   `json:"tokens_before_refresh,omitempty"`
	New     []string   `json:"tokens_issued_by_refresh,omitempty"`
}

func c07PathByName(name string) *c07Path {
	for i := range c07Paths {
		if c07Paths[i].Name == name {
			return &c07Paths[i]
		}
	}
	return nil
}

func c07RefreshTriggers(quick bool) []string {
	if quick {
		return []string{"proxied", "auth-only"}
	}
	return []string{"proxied", "auth-only", "bypass-route", "bypass-preflight"}
}

var c07RefreshUsers = []string{"alice", "three"}

// c07RefreshConfigs: configurations with token-bearing headers, each with both stores: the structured
// lists, two YAML lists and legacy combinations without the basic-auth flags and prefer-email-to-user.
// Quick: pass-access-token + pass-authorization-header + set-xauthrequest x pass-user-headers x
// skip-auth-strip-headers; thorough: every combination of pass-access-token, pass-authorization-header,
// set-authorization-header, set-xauthrequest, skip-auth-strip-headers with at least one token header.
func c07RefreshConfigs(cfgs []*c07Config, quick bool) []*c07Config {
	var base []*c07Config
	for _, cfg := range cfgs {
		switch {
		case cfg.Structured > 0:
			base = append(base, cfg)
		case cfg.Legacy != nil && cfg.rejectWhy == "":
			f := cfg.Legacy
			if f.PassBasic || f.SetBasic || f.PreferEmail || f.Password != "" || !(f.PassAT || f.PassAuthz || f.SetAuthz) {
				continue
			}
			if quick && !(f.PassAT && f.PassAuthz && f.SetX) {
				continue
			}
			if !quick && f.PassUser {
				continue
			}
			base = append(base, cfg)
		}
	}
	for _, s := range []*c07AlphaSpec{
		{A: "several", B: "groups", Relation: "case", PreserveA: false, PreserveB: false, Src: "file"},
		{A: "basic", B: "user", Relation: "distinct", PreserveA: true, PreserveB: false, Src: "env"},
	} {
		base = append(base, c07AlphaConfig(s))
	}
	var out []*c07Config
	for _, cfg := range base {
		for _, store := range []string{"redis", ""} {
			k := c07WithStore(cfg, store)
			k.Refresh = true
			k.Name += "+refresh"
			out = append(out, k)
		}
	}
	return out
}

func c07TokenStrings(m map[string]any) []string {
	var out []string
	for _, k := range []string{"access_token", "id_token", "refresh_token"} {
		if s, _ := m[k].(string); s != "" {
			out = append(out, s)
		}
	}
	return out
}

// c07RefreshOne runs one refresh history: login, age the session past the refresh period, trigger
// the refresh with a request of the given style on the trigger path, then one request on every path.
// It returns the failures (key, message, case) and "" or why the history was not conclusive.
func (e *c07Env) refreshOne(px *Proxy, cfg *c07Config, user, style, trigger string, count bool) (fails []c07Fail, inconclusive string) {
	c := e.c
	inc := func(name string) {
		if count {
			c.Inc(name)
		}
	}
	defer func() { e.afterServe = nil }()
	str := func(m map[string]any, k string) string { s, _ := m[k].(string); return s }
	b := newBrowser(px, "http", c07Host)
	n0 := len(e.issued)
	resp, _, err := b.Login(e.idp, user, "/app")
	if err != nil || resp.Status != 302 || len(e.issued) != n0+1 {
		return nil, fmt.Sprintf("login failed: %v status %d", err, resp.Status)
	}
	tok0 := e.issued[n0]
	old := c07TokenStrings(tok0)
	sub := e.idp.Users[user].Sub
	cr := &c07Cred{Kind: "refresh-login-" + user, Cookie: b.Jar.Header("http", c07Host, "/"),
		Cands: []c07Cand{{User: sub, AT: str(tok0, "access_token"), IDT: str(tok0, "id_token"), RT: str(tok0, "refresh_token")}}}
	rdCalls := 0
	if px.Redis != nil {
		rdCalls = px.Redis.NumCalls()
	}
	// identity ground truth while the session is fresh (no refresh is due yet)
	sess, err := e.truth(px, cr, c07ClientHeaders(cr, style))
	if err != nil || sess == nil || len(e.issued) != n0+1 {
		return nil, fmt.Sprintf("no ground truth for the fresh session: %v", err)
	}
	const age = 2 * time.Minute
	world.Advance(age)
	defer world.Advance(-age)

	// direct oracle, independent of the header specifications: after the refresh nothing the
	// upstream or the auth-only client sees may contain a token of the previous generation (the
	// client never sends them: they travel inside the session only)
	var newToks []string
	stale := func(p *c07Path) {
		var hdr map[string][]string
		switch {
		case p.AuthOnly && e.lastResp != nil:
			hdr = e.lastResp.Header
		case !p.AuthOnly && e.lastUp != nil:
			hdr = e.lastUp.Header
		}
		sawNew := false
		for name, vals := range hdr {
			if name == "Cookie" || name == "Set-Cookie" {
				continue
			}
			for _, v := range vals {
				for _, o := range old {
					if strings.Contains(v, o) {
						fails = append(fails, c07Fail{Key: "C07/token-of-before-the-refresh@" + p.Name, Case: c07Case{Config: cfg, Cred: cr.Kind, Style: style, Path: p.Name, Header: name, Observe: vals, Outcome: "refresh history: " + trigger},
							Msg: fmt.Sprintf("%s, user %s, client headers %q: the session was refreshed (triggered by a %s request, the provider issued new tokens) and a %s request served with the refreshed session carries a token of the previous generation in %s: %q", cfg.Name, user, style, trigger, p.Name, name, vals)})
					}
				}
				for _, nt := range newToks {
					if strings.Contains(v, nt) {
						sawNew = true
					}
				}
			}
		}
		if sawNew {
			inc("refresh_requests_seen_with_a_new_token")
		}
	}
	rekey := func(fs []c07Fail, p *c07Path) {
		for _, f := range fs {
			// the specification oracle and the direct one may both fire: keep distinct keys
			f.Key = strings.Replace(f.Key, "@", "-after-refresh@", 1)
			f.Msg = "[refresh history, triggered by " + trigger + "] " + f.Msg
			fails = append(fails, f)
		}
	}
	// the request that triggers the refresh
	tp := c07PathByName(trigger)
	n := len(e.issued)
	refreshed := false
	e.afterServe = func() {
		if len(e.issued) == n+1 && !refreshed {
			refreshed = true
			t := e.issued[n]
			sess.AT, sess.IDT, sess.RT = str(t, "access_token"), str(t, "id_token"), str(t, "refresh_token")
			newToks = c07TokenStrings(t)
		}
	}
	fs, served := e.runCase(px, cfg, cr, style, *tp, sess, count)
	e.afterServe = nil
	if !refreshed {
		return nil, fmt.Sprintf("the %s request did not make the proxy refresh the session (%d token responses)", trigger, len(e.issued)-n)
	}
	inc("refresh_grants_observed")
	if sess.AT == cr.Cands[0].AT || sess.RT == cr.Cands[0].RT || sess.IDT == cr.Cands[0].IDT {
		return nil, "the refresh grant did not change every token"
	}
	if served {
		inc("refresh_triggering_requests_served")
		stale(tp)
		rekey(fs, tp)
	}
	// the browser takes the cookies of the answer (cookie store: the refreshed session; Redis: the same ticket)
	b.Jar.SetCookies("http", c07Host, "/", e.lastResp.Header)
	cr2 := &c07Cred{Kind: cr.Kind, Cookie: b.Jar.Header("http", c07Host, "/"),
		Cands: []c07Cand{{User: sub, AT: sess.AT, IDT: sess.IDT, RT: sess.RT}}}
	if cr2.Cookie != cr.Cookie {
		inc("refresh_changed_the_cookie")
	} else {
		inc("refresh_kept_the_cookie")
	}
	// ... and every path after it, identity re-read from userinfo (which must agree with the tokens' owner)
	sess2, err := e.truth(px, cr2, c07ClientHeaders(cr2, style))
	if err != nil || sess2 == nil {
		return fails, fmt.Sprintf("no ground truth after the refresh: %v", err)
	}
	for i := range c07Paths {
		p := &c07Paths[i]
		fs, served := e.runCase(px, cfg, cr2, style, *p, sess2, count)
		inc("refresh_followup_evaluations")
		if !served {
			continue
		}
		inc("refresh_followup_requests_served")
		stale(p)
		rekey(fs, p)
	}
	if len(e.issued) != n+1 {
		inc("info_refresh_repeated_within_the_period")
	}
	if px.Redis != nil {
		for _, op := range px.Redis.Ops(rdCalls) {
			if op == "GET" {
				inc("refresh_redis_session_loads")
			}
			if op == "SET" {
				inc("refresh_redis_session_saves")
			}
		}
	}
	return fails, ""
}

func (e *c07Env) refreshReport(px *Proxy, cfg *c07Config, user, style, trigger string, f c07Fail) {
	size := len(cfg.ref.Req) + len(cfg.ref.Resp) + 4
	rcase := c07RefreshCase{Kind: "refresh", Config: cfg, User: user, Style: style, Trigger: trigger, Path: f.Case.Path, Header: f.Case.Header, Observe: f.Case.Observe}
	if c07Confirmed[f.Key] >= 4 {
		e.c.Violate(f.Key, f.Msg, size, rcase)
		return
	}
	c07Confirmed[f.Key]++
	again := func() (string, bool) {
		fs, _ := e.refreshOne(px, cfg, user, style, trigger, false)
		for _, g := range fs {
			if g.Key == f.Key && g.Case.Header == f.Case.Header && g.Case.Path == f.Case.Path {
				return g.Key, true
			}
		}
		return "", false
	}
	e.c.confirm(f.Key, f.Msg, size, rcase, again)
}

// ---------------------------------------------------------------------------------------------
// the three parts

func c07AlphaCreds(e *c07Env, quick bool) []*c07Cred {
	// quick: a session with three groups and all tokens, one with only a user name (and the credential
	// under a configured name: Authorization), none
	kinds := []string{"cookie-oidc-three", "basic-htpasswd", "none"}
	if !quick {
		kinds = []string{"cookie-oidc-three", "cookie-oidc-comma", "cookie-crafted-noemail", "basic-htpasswd", "none"}
	}
	var out []*c07Cred
	for _, k := range kinds {
		if cr := e.cred(k); cr != nil {
			out = append(out, cr)
		} else {
			e.c.Error("C07 fixture: credential %s missing", k)
		}
	}
	return out
}

// redis twin of a cookie credential list (YAML lists x Redis store, thorough)
func c07RedisTwin(e *c07Env, creds []*c07Cred) []*c07Cred {
	e.redisCredentials()
	var out []*c07Cred
	for _, cr := range creds {
		if strings.HasPrefix(cr.Kind, "cookie-") {
			if t := e.redisCred("redis-" + strings.TrimPrefix(cr.Kind, "cookie-")); t != nil {
				out = append(out, t)
			}
			continue
		}
		out = append(out, cr)
	}
	return out
}

func c07Extended(c *Ctx, e *c07Env, cfgs []*c07Config, styles []string) {
	quick := c.Quick()
	defer func() {
		if e.rd != nil {
			e.rd.Close()
		}
	}()
	idx := len(cfgs) // case numbers continue after the main product

	// (1) Redis session store x the configuration product
	rcfgs := c07RedisConfigs(cfgs, quick)
	c.Info["redis_store_configurations"] = len(rcfgs)
	for _, cfg := range rcfgs {
		idx++
		if !c.Mine(idx) {
			continue
		}
		if c.Expired() {
			return
		}
		creds := e.redisCredentials()
		from := e.redis().NumCalls()
		if e.runConfig(cfg, creds, styles) {
			c.Inc("redis_configurations_built")
		}
		for _, op := range e.redis().Ops(from) {
			c.Inc("redis_store_ops:" + op)
		}
	}
	if e.redisCreds != nil {
		var kinds []string
		for _, cr := range e.redisCreds {
			kinds = append(kinds, cr.Kind)
			if cr.Kind != "none" && c.Counters["redis_configurations_built"] > 0 && c.Counters["ground_truth_session:"+cr.Kind] == 0 {
				c.Error("C07 vacuous: credential %s never authenticated", cr.Kind)
			}
		}
		c.Info["redis_credentials"] = kinds
	}

	// (2)+(3) header lists from alpha-config YAML, all paths incl. the bypasses without a session
	specs := c07AlphaSpecs(quick)
	acreds := c07AlphaCreds(e, quick)
	var akinds []string
	for _, cr := range acreds {
		akinds = append(akinds, cr.Kind)
	}
	c.Info["alpha_alphabet"] = map[string]any{"lists": len(specs), "value_shapes": c07AlphaShapeNames(quick), "name_relations": c07AlphaRelations(quick),
		"secret_sources": c07AlphaSources(quick), "preserve_patterns": 4, "credentials": akinds}
	stores := []string{""}
	if !quick {
		stores = []string{"", "redis"}
	}
	for _, spec := range specs {
		for _, store := range stores {
			idx++
			if !c.Mine(idx) {
				continue
			}
			if c.Expired() {
				return
			}
			cfg := c07WithStore(c07AlphaConfig(spec), store)
			creds := acreds
			if store == "redis" {
				creds = c07RedisTwin(e, acreds)
			}
			c.Inc("alpha_lists")
			if c.Counters["alpha_lists"] == 1 {
				c.Info["alpha_example_file_tail"] = strings.TrimPrefix(e.alphaYAML(spec), e.alphaFixture().base)
			}
			before := map[string]int64{}
			for _, k := range []string{"served:bypass-route/no-session", "served:bypass-trusted-ip/no-session", "served:bypass-preflight/no-session", "served:auth-only/session", "spoofed_nonpreserved_names_checked", "spoofed_preserved_names_checked", "header_checks_with_value",
				"bypass_without_session_spoofed_preserved_names_checked", "bypass_without_session_spoofed_nonpreserved_names_checked", "ambiguous_because:preserve-differs-between-spellings"} {
				before[k] = c.Counters[k]
			}
			if !e.runConfig(cfg, creds, styles) {
				c.Inc("alpha_lists_rejected:" + spec.Relation)
				continue
			}
			c.Inc("alpha_lists_built")
			c.Inc("alpha_lists_built:relation=" + spec.Relation)
			c.Inc("alpha_lists_built:source=" + spec.Src)
			c.Inc("alpha_lists_built:a=" + spec.A)
			c.Inc("alpha_lists_built:b=" + spec.B)
			c.Inc(fmt.Sprintf("alpha_lists_built:preserve=%d%d", c07B2i(spec.PreserveA), c07B2i(spec.PreserveB)))
			c.Distinct("alpha_distinct_files", e.alphaYAML(spec))
			for k, v := range before {
				c.Add("alpha_"+k, c.Counters[k]-v)
			}
		}
	}
	if c.Counters["alpha_lists_built"] > 0 {
		// what was built went through the file: compare once per shard what the loader produced
		spec := specs[len(specs)-1]
		for i := len(specs) - 1; i >= 0 && specs[i].Relation == "same"; i-- {
			spec = specs[i]
		}
		if spec.Relation == "same" {
			spec = &c07AlphaSpec{A: "several", B: "basic", Relation: "case", PreserveB: true, Src: "file"}
		}
		cfg := c07AlphaConfig(spec)
		if px, err := e.build(cfg); err == nil {
			c07AlphaLoaded(c, cfg, px)
		} else {
			c.Error("C07: alpha list %s does not build: %v", cfg.Name, err)
		}
	}

	// refreshed sessions
	fcfgs := c07RefreshConfigs(cfgs, quick)
	c.Info["refresh_alphabet"] = map[string]any{"configurations_x_stores": len(fcfgs), "users": c07RefreshUsers, "triggers": c07RefreshTriggers(quick), "client_header_styles": len(styles)}
	for _, cfg := range fcfgs {
		idx++
		if !c.Mine(idx) {
			continue
		}
		if c.Expired() {
			return
		}
		px, err := e.build(cfg)
		if err != nil {
			c.Error("C07: refresh configuration %s does not build: %v", cfg.Name, err)
			continue
		}
		c.Inc("refresh_configurations_built")
		for _, user := range c07RefreshUsers {
			for _, style := range styles {
				for _, trigger := range c07RefreshTriggers(quick) {
					c.Inc("refresh_histories")
					c.Inc("evaluations")
					fails, inconclusive := e.refreshOne(px, cfg, user, style, trigger, true)
					if inconclusive != "" {
						c.Inc("refresh_histories_inconclusive")
						if c.Counters["refresh_histories_inconclusive"] <= 3 {
							c.Note("C07 refresh history %s/%s/%s/%s inconclusive: %s", cfg.Name, user, style, trigger, inconclusive)
						}
					} else {
						c.Distinct("distinct_nontrivial", cfg.Name+"|"+user+"|"+style+"|"+trigger)
						c.Inc("refresh_histories_conclusive:store=" + map[string]string{"": "cookie", "redis": "redis"}[cfg.Store])
					}
					for _, f := range fails {
						e.refreshReport(px, cfg, user, style, trigger, f)
					}
				}
			}
		}
	}
}

// c07Post asserts on the merged counters of all shards that the new parts saw what they must see.
func c07Post(c *Ctx) {
	need := func(name, why string) {
		if c.Counters[name] == 0 {
			c.Error("C07 vacuous: counter %s is 0 (%s)", name, why)
		}
	}
	need("redis_configurations_built", "no configuration was built with the Redis session store")
	need("redis_store_ops:GET", "no session was loaded from Redis")
	need("served:proxied/session", "nothing served")
	for _, rel := range c07AlphaRelations(c.Quick()) {
		if rel == "same" {
			if c.Counters["alpha_lists_rejected:same"]+c.Counters["alpha_lists_built:relation=same"] == 0 {
				c.Error("C07 vacuous: no alpha list with the same name twice was tried")
			}
			continue
		}
		need("alpha_lists_built:relation="+rel, "no YAML list with that name relation was built")
	}
	for _, src := range c07AlphaSources(c.Quick()) {
		need("alpha_lists_built:source="+src, "no YAML list with that secret source was built")
	}
	for _, sh := range c07AlphaShapeNames(c.Quick()) {
		need("alpha_lists_built:a="+sh, "value shape never used")
	}
	for _, k := range []string{"alpha_served:bypass-route/no-session", "alpha_served:bypass-trusted-ip/no-session", "alpha_served:bypass-preflight/no-session", "alpha_served:auth-only/session",
		"alpha_spoofed_nonpreserved_names_checked", "alpha_spoofed_preserved_names_checked", "alpha_header_checks_with_value", "alpha_loaded_lists_compared",
		"alpha_bypass_without_session_spoofed_preserved_names_checked", "alpha_bypass_without_session_spoofed_nonpreserved_names_checked", "alpha_ambiguous_because:preserve-differs-between-spellings"} {
		need(k, "the YAML part never saw this outcome")
	}
	need("refresh_grants_observed", "no session was refreshed")
	need("refresh_histories_conclusive:store=redis", "no refresh history with the Redis store")
	need("refresh_histories_conclusive:store=cookie", "no refresh history with the cookie store")
	need("refresh_requests_seen_with_a_new_token", "no request after a refresh carried a token of the new generation")
	need("refresh_redis_session_loads", "no refreshed session was loaded from Redis")
	need("refresh_redis_session_saves", "no refreshed session was saved to Redis")
	if c.Counters["refresh_histories_inconclusive"]*10 > c.Counters["refresh_histories"] {
		c.Error("C07: %d of %d refresh histories were inconclusive", c.Counters["refresh_histories_inconclusive"], c.Counters["refresh_histories"])
	}
}

// ---------------------------------------------------------------------------------------------
// replay

// c07ResolveConfig rebuilds the configuration a recorded case names (the recorded JSON carries
// the flags / the structured index / the alpha spec, the store and the refresh bit).
func c07ResolveConfig(rec *c07Config) *c07Config {
	var cfg *c07Config
	switch {
	case rec.Alpha != nil:
		cfg = c07AlphaConfig(rec.Alpha)
	default:
		base := strings.TrimSuffix(rec.Name, "+refresh")
		base = strings.TrimSuffix(base, "@redis")
		for _, k := range c07Configs(false) {
			if k.Name == base {
				cfg = k
			}
		}
	}
	if cfg == nil {
		return nil
	}
	k := *cfg
	k.Name, k.Store, k.Refresh = rec.Name, rec.Store, rec.Refresh
	return &k
}

func c07RefreshReplay(c *Ctx, e *c07Env, rf c07RefreshCase) string {
	defer func() {
		if e.rd != nil {
			e.rd.Close()
		}
	}()
	if rf.Config == nil {
		return "not a C07 refresh case"
	}
	cfg := c07ResolveConfig(rf.Config)
	if cfg == nil || c07PathByName(rf.Trigger) == nil || e.idp.Users[rf.User] == nil {
		return "case refers to an unknown configuration, user or path"
	}
	px, err := e.build(cfg)
	if err != nil {
		return "configuration rejected: " + err.Error()
	}
	fails, inconclusive := e.refreshOne(px, cfg, rf.User, rf.Style, rf.Trigger, false)
	for _, f := range fails {
		c.Violate(f.Key, f.Msg, 1, rf)
	}
	return fmt.Sprintf("failures=%d inconclusive=%q", len(fails), inconclusive)
}
