//go:build verif

package main

import (
	"fmt"

	"github.com/oauth2-proxy/oauth2-proxy/v7/verifx/world"
)

func init() {
	register(&checkDef{id: "SMOKE", level: "other", rule: "smoke", run: func(c *Ctx) {
		idp := world.NewIdP()
		up := world.NewUpstream("u")
		defer up.Close()
		for _, store := range []string{"cookie", "redis"} {
			cfg := &ProxyCfg{Flags: append(baseFlags(up.URL()), "--email-domain=*", "--cookie-secure=false", "--code-challenge-method=S256", "--cookie-refresh=1m", "--cookie-expire=1h")}
			if store == "redis" {
				cfg.Redis = world.NewRedis()
			}
			px := mustProxy(cfg)
			b := newBrowser(px, "http", "app.example.com")
			r := b.Get("/page?x=1")
			fmt.Println(store, "unauth status", r.Status)
			resp, a, err := b.Login(idp, "alice", "/page?x=1")
			fmt.Println(store, "login", resp.Status, resp.Location(), err, a != nil, len(b.Jar.Cookies), idp.Problems)
			if resp.Status != 302 {
				fmt.Println(resp.Body)
			}
			r = b.Get("/page?x=1")
			fmt.Println(store, "auth status", r.Status, r.Body, up.Hits())
			r = b.Get("/oauth2/userinfo")
			fmt.Println(store, "userinfo", r.Status, r.Body)
			world.Advance(2 * 60 * 1e9)
			r = b.Get("/page")
			fmt.Println(store, "after refresh period", r.Status, idp.Grants, r.SetCookieLines())
			for _, l := range up.Take() {
				fmt.Println("  up:", l.Method, l.RequestURI, l.Header.Get("X-Forwarded-Email"), l.Header.Get("X-Forwarded-User"))
			}
			if cfg.Redis != nil {
				fmt.Println("redis ops", cfg.Redis.Ops(0), cfg.Redis.Keys())
			}
			r = b.Get("/oauth2/sign_out")
			fmt.Println(store, "signout", r.Status, r.Location(), len(b.Jar.Cookies))
			r = b.Get("/page")
			fmt.Println(store, "after signout", r.Status)
			world.ResetClock()
		}
		c.Inc("evaluations")
	}})
}
