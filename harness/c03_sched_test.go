//go:build verif

package main

import (
	"fmt"
	"net/url"
	"os"
	"strings"

	"github.com/oauth2-proxy/oauth2-proxy/v7/verifx/explore"
	"github.com/oauth2-proxy/oauth2-proxy/v7/verifx/sched"
	"github.com/oauth2-proxy/oauth2-proxy/v7/verifx/vatomic"
	"github.com/oauth2-proxy/oauth2-proxy/v7/verifx/vrt"
	"github.com/oauth2-proxy/oauth2-proxy/v7/verifx/world"
)

// C03 with two callbacks in flight. The statement's "only if" speaks about every callback the
// endpoint receives, also one that arrives while another login is being completed by the same
// process (the CSRF cookie is decoded into a structure that lives through the provider round trip;
// anything that lets two callbacks share it turns "state of login B + cookie of login A" into a
// login). Two browsers start a login each (alice in A, bob in B); two of the requests
//   gA, gB  — the genuine callbacks,
//   fAB     — the login-CSRF attempt: browser A (its cookies) following the provider redirect of login B,
//   fBA     — the mirror image
// are served concurrently by the real handler under the wide instrumentation (every statement
// touching shared data in any repository package, every sync / sync.Pool operation and every
// provider call is a scheduling point; preemption bound 1 quick / 2 thorough). Oracle:
// linearizability against the handler itself — the pair of answers (status, session cookie, identity
// of the resulting session) must be the pair some sequential order of the two requests produces on
// a fresh world. No expectation is written by hand; the sequential semantics (403 for the forged
// one, single-use codes, PKCE) are whatever the sequential part of C03 already judges.

type c03ConcScenario struct {
	PerRequest bool      `json:"csrf_per_request"`
	PKCE       bool      `json:"pkce"`
	Reqs       [2]string `json:"requests"`
}

type c03ConcReplay struct {
	Stmt     bool            `json:"statement_level_scheduling"`
	Kind     string          `json:"kind"`
	Scenario c03ConcScenario `json:"scenario"`
	Choices  []int           `json:"choices"`
	Order    string          `json:"thread_order"`
	What     string          `json:"what"`
}

func c03ConcScenarios(quick bool) []c03ConcScenario {
	var out []c03ConcScenario
	pairs := [][2]string{{"gA", "gB"}, {"fAB", "gB"}, {"fAB", "gA"}, {"fAB", "fBA"}}
	for _, per := range []bool{false, true} {
		for _, pkce := range []bool{false, true} {
			for pi, p := range pairs {
				if quick && pkce && pi != 1 {
					continue
				}
				out = append(out, c03ConcScenario{PerRequest: per, PKCE: pkce, Reqs: p})
			}
		}
		// two browsers start a login at the same time: each of the two logins completes in its own
		// browser (the CSRF cookie a start hands out carries that start's state, nonce and verifier)
		out = append(out, c03ConcScenario{PerRequest: per, PKCE: true, Reqs: [2]string{"sA", "sB"}})
	}
	return out
}

type c03ConcWorld struct {
	px   *Proxy
	idp  *world.IdP
	a, b *Browser
	cb   map[string]string // login -> callback request-target
}

func c03ConcProxy(up *world.Upstream, sc c03ConcScenario) (*Proxy, error) {
	flags := append(baseFlags(up.URL()), "--email-domain=*", "--cookie-secure=false", fmt.Sprintf("--cookie-csrf-per-request=%v", sc.PerRequest), "--cookie-csrf-expire=15m")
	if sc.PKCE {
		flags = append(flags, "--code-challenge-method=S256")
	}
	return buildProxy(&ProxyCfg{Flags: flags})
}

// c03ConcPrepare: fresh provider, two browsers with one outstanding login each.
func c03ConcPrepare(px *Proxy, seed int64) (*c03ConcWorld, string) {
	world.ResetClock()
	world.SeedRandom(seed, 0)
	w := &c03ConcWorld{px: px, idp: world.NewIdP(), cb: map[string]string{}}
	w.a, w.b = newBrowser(px, "http", "app.example.com"), newBrowser(px, "http", "app.example.com")
	for _, l := range []struct {
		name, user string
		b          *Browser
	}{{"A", "alice", w.a}, {"B", "bob", w.b}} {
		_, loc, err := l.b.Start("/page")
		if err != nil {
			return nil, "start " + l.name + ": " + err.Error()
		}
		cb, _, err := w.idp.Authorize(loc, l.user)
		if err != nil {
			return nil, "authorize " + l.name + ": " + err.Error()
		}
		u, _ := url.Parse(cb)
		w.cb[l.name] = u.RequestURI()
	}
	return w, ""
}

func (w *c03ConcWorld) request(name string) (*Browser, *world.Req) {
	var b *Browser
	var target string
	switch name {
	case "gA":
		b, target = w.a, w.cb["A"]
	case "gB":
		b, target = w.b, w.cb["B"]
	case "fAB":
		b, target = w.a, w.cb["B"]
	case "fBA":
		b, target = w.b, w.cb["A"]
	case "sA":
		// a further login is started (while the other browser starts one too)
		return w.a, w.a.Req("GET", "/oauth2/start?rd=%2Fpage2", [2]string{"Cookie", w.a.Jar.Header("http", "app.example.com", "/oauth2/start")})
	case "sB":
		return w.b, w.b.Req("GET", "/oauth2/start?rd=%2Fpage2", [2]string{"Cookie", w.b.Jar.Header("http", "app.example.com", "/oauth2/start")})
	default:
		panic("c03 concurrent: request " + name)
	}
	return b, b.Req("GET", target, [2]string{"Cookie", b.Jar.Header("http", "app.example.com", "/oauth2/callback")})
}

// outcome of one callback: status, whether a session cookie was handed out, and who the browser is
// afterwards (user-info with a copy of its jar plus the response's cookies)
func (w *c03ConcWorld) outcome(name string, resp *world.Resp) string {
	if resp == nil {
		return "no-response"
	}
	if resp.Panic != nil {
		return fmt.Sprintf("panic:%v", resp.Panic)
	}
	b, _ := w.request(name)
	jar := b.Jar.Clone()
	if name == "sA" || name == "sB" {
		// outcome of a start: what becomes of the login it started — the browser keeps the cookies of
		// the answer, visits the provider, comes back, and is then asked who it is
		if resp.Status != 302 {
			return fmt.Sprintf("start-status=%d", resp.Status)
		}
		user := map[string]string{"sA": "alice", "sB": "bob"}[name]
		jar.SetCookies("http", "app.example.com", "/oauth2/start", resp.Header)
		cb, _, err := w.idp.Authorize(resp.Location(), user)
		if err != nil {
			return "start-status=302 provider-refuses-the-authorization-request"
		}
		u, _ := url.Parse(cb)
		r2 := world.Serve(w.px.H, &world.Req{Method: "GET", Target: u.RequestURI(), Host: "app.example.com", Headers: [][2]string{{"Cookie", jar.Header("http", "app.example.com", "/oauth2/callback")}}})
		jar.SetCookies("http", "app.example.com", "/oauth2/callback", r2.Header)
		ui := world.Serve(w.px.H, &world.Req{Method: "GET", Target: "/oauth2/userinfo", Host: "app.example.com", Headers: [][2]string{{"Cookie", jar.Header("http", "app.example.com", "/")}}})
		who := "nobody"
		if ui.Status == 200 {
			who = strings.TrimSpace(ui.Body)
			if i := strings.Index(who, `"email":"`); i >= 0 {
				who = who[i+9:]
				if j := strings.IndexByte(who, '"'); j >= 0 {
					who = who[:j]
				}
			}
		}
		return fmt.Sprintf("start-status=302 callback-status=%d then-user=%s", r2.Status, who)
	}
	session := false
	for _, ck := range resp.Cookies() {
		if ck.Name == "_oauth2_proxy" || strings.HasPrefix(ck.Name, "_oauth2_proxy_") && !strings.Contains(ck.Name, "csrf") {
			if ck.MaxAge >= 0 && ck.Value != "" {
				session = true
			}
		}
	}
	jar.SetCookies("http", "app.example.com", "/oauth2/callback", resp.Header)
	ui := world.Serve(w.px.H, &world.Req{Method: "GET", Target: "/oauth2/userinfo", Host: "app.example.com", Headers: [][2]string{{"Cookie", jar.Header("http", "app.example.com", "/")}}})
	who := "nobody"
	if ui.Status == 200 {
		who = strings.TrimSpace(ui.Body)
		if i := strings.Index(who, `"email":"`); i >= 0 {
			who = who[i+9:]
			if j := strings.IndexByte(who, '"'); j >= 0 {
				who = who[:j]
			}
		}
	}
	st := fmt.Sprint(resp.Status)
	return fmt.Sprintf("status=%s session-cookie=%v then-user=%s", st, session, who)
}

func c03ConcSequential(px *Proxy, sc c03ConcScenario, seed int64, first int) ([2]string, string) {
	w, err := c03ConcPrepare(px, seed)
	if err != "" {
		return [2]string{}, err
	}
	var out [2]string
	for _, i := range []int{first, 1 - first} {
		_, r := w.request(sc.Reqs[i])
		out[i] = w.outcome(sc.Reqs[i], world.Serve(px.H, r))
	}
	return out, ""
}

func c03ConcBody(px *Proxy, sc c03ConcScenario, seed int64, x *explore.Exec) (*sched.Outcome, [2]string, string) {
	w, err := c03ConcPrepare(px, seed)
	if err != "" {
		return &sched.Outcome{}, [2]string{}, "HARNESS " + err
	}
	s := sched.New(x, sched.Options{Horizon: 400, MaxSteps: 50000})
	var resps [2]*world.Resp
	for i := 0; i < 2; i++ {
		i := i
		_, r := w.request(sc.Reqs[i])
		s.Go(sc.Reqs[i], func() { resps[i] = world.Serve(px.H, r) })
	}
	out := s.Run()
	if out.Aborted != "" {
		return out, [2]string{}, concAbortText(out)
	}
	return out, [2]string{w.outcome(sc.Reqs[0], resps[0]), w.outcome(sc.Reqs[1], resps[1])}, ""
}

func c03Concurrent(c *Ctx) {
	c03ConcurrentFor(c, "C03", c03ConcScenarios(c.Quick()), map[string]bool{"pkg/cookies": true, "pkg/encryption": true})
}

// c05ConcScenarios: two genuine logins completed at the same time with PKCE on — "exactly that verifier
// is presented at redemption" also when another login's redemption is in flight (the provider checks
// every verifier against the challenge of the code it comes with, so a swapped one fails the login).
func c05ConcScenarios() []c03ConcScenario {
	return []c03ConcScenario{
		{PerRequest: false, PKCE: true, Reqs: [2]string{"gA", "gB"}},
		{PerRequest: true, PKCE: true, Reqs: [2]string{"gA", "gB"}},
		{PerRequest: false, PKCE: true, Reqs: [2]string{"fAB", "gA"}},
		{PerRequest: false, PKCE: true, Reqs: [2]string{"sA", "sB"}},
		{PerRequest: true, PKCE: true, Reqs: [2]string{"sA", "sB"}},
	}
}

var c05ConcEvery = map[string]bool{"providers": true, "pkg/cookies": true}

// c03ConcurrentFor explores the given callback pairs for property id.
func c03ConcurrentFor(c *Ctx, id string, scs []c03ConcScenario, everyStatementOf map[string]bool) {
	if os.Getenv("VERIF_WIDE") != "1" {
		c.Info["concurrent_part"] = "skipped: the wide instrumentation did not build on this tree (see check.sh)"
		c.Note("concurrent part skipped: no wide instrumentation")
		c.Exhaustive = false
		return
	}
	hooks := vatomic.Hooks
	vatomic.Hooks = false
	vrt.Enabled = true
	vrt.AllStatements = everyStatementOf
	defer func() { vrt.Enabled = false; vatomic.Hooks = hooks; vrt.AllStatements = nil }()
	bound := 1
	if !c.Quick() {
		bound = 2
	}
	up := world.NewUpstream("c03conc")
	defer up.Close()
	world.NewIdP()
	c.Info["concurrent_part"] = map[string]any{"scenarios": len(scs), "preemption_bound": bound, "instrumentation": "wide"}
	for si, sc := range scs {
		if c.Expired() {
			return
		}
		sc := sc
		px, err := c03ConcProxy(up, sc)
		if err != nil {
			c.Error(id+" concurrent %+v: %v", sc, err)
			continue
		}
		var seq [2][2]string
		bad := false
		for first := 0; first < 2; first++ {
			o, serr := c03ConcSequential(px, sc, c.Seed, first)
			if serr != "" {
				c.Error(id+" concurrent %+v: sequential reference: %s", sc, serr)
				bad = true
			}
			seq[first] = o
		}
		if bad {
			continue
		}
		// the reference itself must show the property's two directions (otherwise the part is vacuous)
		for i, name := range sc.Reqs {
			for first := 0; first < 2; first++ {
				forged := strings.HasPrefix(name, "f")
				if forged && !strings.Contains(seq[first][i], "session-cookie=false then-user=nobody") {
					c.Error(id+" concurrent %+v: sequential reference gives the forged callback %s: %s (the sequential part judges this)", sc, name, seq[first][i])
					bad = true
				}
			}
		}
		if sc.Reqs == [2]string{"gA", "gB"} && !(strings.Contains(seq[0][0], "then-user=alice@") && strings.Contains(seq[0][1], "then-user=bob@")) {
			c.Error(id+" concurrent %+v: genuine callbacks do not complete sequentially: %v", sc, seq[0])
			bad = true
		}
		if bad {
			continue
		}
		c.Inc("conc_scenarios_with_reference")
		check := func(o [2]string) string {
			if o == seq[0] || o == seq[1] {
				return ""
			}
			return fmt.Sprintf("answers {%s: %s | %s: %s} are not the answers of any sequential order: {%s | %s} (first request first) or {%s | %s} (second first)",
				sc.Reqs[0], o[0], sc.Reqs[1], o[1], seq[0][0], seq[0][1], seq[1][0], seq[1][1])
		}
		every := vrt.AllStatements
		if len(every) > 0 && !concStatementLevelOK(func(x *explore.Exec) { c03ConcBody(px, sc, c.Seed, x) }) {
			vrt.AllStatements = nil
			c.Inc("conc_scenarios_without_statement_level_scheduling")
			if c.Shard == 0 {
				c.Note("concurrent scenario %+v: statement paths differ between identical executions (map iteration order?): explored with access-based scheduling points only", sc)
			}
		}
		for _, pass := range concPasses(bound, len(vrt.AllStatements) > 0) {
			if !pass.stmt {
				vrt.AllStatements = nil
			}
			stats := explore.Run(explore.Config{Stop: schedStuck, MaxCost: pass.bound, Deadline: c.Deadline, Shard: c.Shard, Shards: c.Shards, ShardDepth: 2, TolerateDivergence: true, MaxDivergences: 16}, func(x *explore.Exec, own bool) {
				out, o, berr := c03ConcBody(px, sc, c.Seed, x)
				if !own {
					return
				}
				if concInconclusive(c, berr) {
					return
				}
				if strings.HasPrefix(berr, "HARNESS") {
					c.Error(id+" concurrent %+v: %s", sc, berr)
					return
				}
				c.Inc("evaluations")
				c.Inc("conc_executions")
				c.Inc("traces_validated_against_impl")
				c.Add("transitions", int64(out.Steps))
				c.SetMax("conc_max_steps_per_execution", int64(out.Steps))
				order := sched.DescribeOrder(out.Order)
				c.Distinct("distinct_nontrivial", fmt.Sprintf("conc|%d|%s", si, order))
				c.Distinct("conc_distinct_outcome_pairs", fmt.Sprintf("%d|%v", si, o))
				rp := c03ConcReplay{Kind: "concurrent-callbacks", Stmt: len(vrt.AllStatements) > 0, Scenario: sc, Choices: x.Choices(), Order: order}
				what, key := berr, id+"/concurrent/"
				if berr != "" {
					key += strings.Fields(berr)[0]
				} else if what = check(o); what != "" {
					key += "not-linearizable"
					for i, name := range sc.Reqs {
						if strings.HasPrefix(name, "f") && !strings.Contains(o[i], "session-cookie=false then-user=nobody") {
							key = id + "/concurrent/session-for-other-login-state"
						}
					}
				}
				if what == "" {
					return
				}
				rp.What = what
				c.confirm(key, fmt.Sprintf("%+v: %s [thread order %s]", sc, what, order), len(rp.Choices), rp, func() (string, bool) {
					_, o2, e2 := c03ConcBody(px, sc, c.Seed, explore.Replay(rp.Choices, nil))
					return key, e2 != "" || check(o2) != ""
				})
			})
			c.Add("states", int64(stats.Executions))
			vrt.AllStatements = every
			if stats.Divergences > 0 {
				c.Unstable("concurrent scenario %+v: %d executions did not reproduce their replayed prefix", sc, stats.Divergences)
			}
			if !stats.Exhaustive {
				c.Exhaustive = false
				c.Note("concurrent part %+v: not exhaustive (level completed %d)", sc, stats.LevelCompleted)
			}
		}
	}
}

func c03ConcReplayOne(c *Ctx, rp c03ConcReplay) string {
	return c03ConcReplayFor(c, "C03", rp, map[string]bool{"pkg/cookies": true, "pkg/encryption": true})
}

func c03ConcReplayFor(c *Ctx, id string, rp c03ConcReplay, everyStatementOf map[string]bool) string {
	if os.Getenv("VERIF_WIDE") != "1" {
		return "the wide instrumentation did not build: the schedule cannot be replayed"
	}
	vatomic.Hooks = false
	vrt.Enabled = true
	vrt.AllStatements = everyStatementOf
	if !rp.Stmt {
		vrt.AllStatements = nil
	}
	defer func() { vrt.Enabled = false; vrt.AllStatements = nil }()
	up := world.NewUpstream("c03conc")
	defer up.Close()
	world.NewIdP()
	px, err := c03ConcProxy(up, rp.Scenario)
	if err != nil {
		return err.Error()
	}
	var seq [2][2]string
	for first := 0; first < 2; first++ {
		seq[first], _ = c03ConcSequential(px, rp.Scenario, c.Seed, first)
	}
	out, o, berr := c03ConcBody(px, rp.Scenario, c.Seed, explore.Replay(rp.Choices, nil))
	if berr != "" {
		c.Violate(id+"/concurrent/"+strings.Fields(berr)[0], berr, 1, rp)
	} else if o != seq[0] && o != seq[1] {
		c.Violate(id+"/concurrent/not-linearizable", fmt.Sprintf("answers %v; sequential orders give %v or %v", o, seq[0], seq[1]), 1, rp)
	}
	return fmt.Sprintf("order %s answers %v; sequential: %v | %v", sched.DescribeOrder(out.Order), o, seq[0], seq[1])
}

// c03OtherTab: "... with per-request CSRF cookies this holds for every outstanding login of a browser
// regardless of the order in which the logins were started and completed" — also when, between start
// and completion, the same browser does something else in another tab that makes the proxy clear
// session state: opens a protected page (sign-in page), the sign-in or the sign-out endpoint, or sends
// a stale session cookie. Fixed histories on both stores; every outstanding login has to complete.
func c03OtherTab(c *Ctx) {
	if c.Shards > 1 && c.Shard != 3%c.Shards {
		return
	}
	up := world.NewUpstream("c03tab")
	defer up.Close()
	for _, store := range []string{"cookie", "redis"} {
		for _, between := range []string{"protected-page", "sign-in-endpoint", "sign-out-endpoint", "stale-session-cookie", "nothing"} {
			world.ResetClock()
			world.SeedRandom(c.Seed, 0)
			idp := world.NewIdP()
			cfg := &ProxyCfg{Flags: append(baseFlags(up.URL()), "--email-domain=*", "--cookie-secure=false", "--cookie-csrf-per-request=true", "--cookie-csrf-expire=15m")}
			if store == "redis" {
				cfg.Redis = world.NewRedis()
			}
			px, err := buildProxy(cfg)
			if err != nil {
				c.Error("C03 other tab: %v", err)
				return
			}
			b := newBrowser(px, "http", "app.example.com")
			type login struct{ user, rd, cb string }
			ls := []*login{{user: "alice", rd: "/a"}, {user: "bob", rd: "/b"}}
			start := func(l *login) string {
				_, loc, err := b.Start(l.rd)
				if err != nil {
					return err.Error()
				}
				cb, _, err := idp.Authorize(loc, l.user)
				if err != nil {
					return err.Error()
				}
				l.cb = cb
				return ""
			}
			if e := start(ls[0]); e != "" {
				c.Error("C03 other tab: start: %s", e)
				continue
			}
			switch between {
			case "protected-page":
				b.Get("/some/page")
			case "sign-in-endpoint":
				b.Get("/oauth2/sign_in")
			case "sign-out-endpoint":
				b.Get("/oauth2/sign_out")
			case "stale-session-cookie":
				b.Get("/some/page", [2]string{"Cookie", b.Jar.Header("http", "app.example.com", "/") + "; _oauth2_proxy=c3RhbGU=|1|x"})
			}
			if e := start(ls[1]); e != "" {
				c.Error("C03 other tab: start: %s", e)
				continue
			}
			for _, order := range [][2]int{{0, 1}} {
				for _, i := range order {
					l := ls[i]
					resp := b.Callback(l.cb)
					c.Inc("evaluations")
					c.Inc("other_tab_completions")
					cs := map[string]any{"kind": "other-tab", "store": store, "between": between, "login": l.user, "status": resp.Status}
					switch {
					case resp.Panic != nil:
						c.Violate("C03/panic", fmt.Sprintf("other-tab history (%s, %s): callback of %s panics: %v", store, between, l.user, resp.Panic), 6, cs)
					case resp.Status != 302 || !c08HasSession(b):
						c.Violate("C03/own-login-not-completed/after-"+between, fmt.Sprintf("%s store, per-request CSRF cookies: login of %s was started, then the same browser did %q in another tab, then a second login was started; the callback of %s's login (unmodified state, the browser's own cookies) is answered %d instead of completing", store, l.user, between, l.user, resp.Status), 6, cs)
					default:
						c.Inc("other_tab_completions_ok")
					}
				}
			}
			if cfg.Redis != nil {
				cfg.Redis.Close()
			}
		}
	}
	world.NewIdP()
}
