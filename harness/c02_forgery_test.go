//go:build verif

package main

import (
	"bytes"
	"encoding/base64"
	"encoding/binary"
	"fmt"
	"io"
	"net/http/httptest"
	"sort"
	"strings"

	"github.com/oauth2-proxy/oauth2-proxy/v7/pkg/apis/sessions"
	"github.com/oauth2-proxy/oauth2-proxy/v7/pkg/encryption"
	"github.com/oauth2-proxy/oauth2-proxy/v7/verifx/world"
	"github.com/pierrec/lz4/v4"
)

// C02 supplement to the blind alteration classes: a KNOWLEDGEABLE alteration. AES-CFB is
// malleable in its last block (flipping a ciphertext bit flips the same plaintext bit and
// nothing else), and the compressed stream ends with <last literals><end mark><xxh32 of the
// content>. Someone who knows the session's contents — its legitimate holder — can therefore
// rewrite the last literal byte(s) AND the checksum inside the final cipher block of the joined
// multi-part value. Only the MAC stops this; blind single-character edits are already stopped by
// the checksum and would not notice a MAC that no longer covers the tail of a long value.
// Deciding step as everywhere in C02: SessionStore.Load on a request parsed from raw bytes must
// reject, or return exactly the issued session.

func c02TailForgery(c *Ctx, up *world.Upstream) {
	secrets := []string{cookieSecret32, "MDEyMzQ1Njc4OWFiY2RlZjAxMjM0NTY3ODlhYmNkZWY="}
	tokenSizes := []int{3600, 6600} // 2 and 3 cookies
	if !c.Quick() {
		tokenSizes = append(tokenSizes, 9600)
	}
	for si, secret := range secrets {
		for _, expire := range []string{"0", "1h"} {
			px := mustProxy(&ProxyCfg{Flags: append(baseFlags(up.URL()), "--email-domain=*", "--cookie-secure=false", "--cookie-secret="+secret, "--cookie-expire="+expire, "--cookie-refresh=0")})
			ci, err := encryption.NewCFBCipher(encryption.SecretBytes(secret))
			if err != nil {
				c.Error("C02 forgery: cipher: %v", err)
				return
			}
			name := px.Opts.Cookie.Name
			for _, tsz := range tokenSizes {
				done := false
				for pad := 0; pad < 48 && !done; pad++ {
					sess := &sessions.SessionState{Email: "victim@example.com", User: "victim", AccessToken: c02Incompressible(tsz, int64(si*100+pad)),
						PreferredUsername: "tail-" + strings.Repeat("p", pad) + "-user"}
					rec := httptest.NewRecorder()
					req, _ := (&world.Req{Method: "GET", Target: "/", Host: "app.example.com"}).Parse()
					if err := verifSessionStore(px.P).Save(rec, req, sess); err != nil {
						c.Error("C02 forgery: save: %v", err)
						return
					}
					type part struct {
						idx int
						val string
					}
					var parts []part
					for _, ck := range (&world.Resp{Header: rec.Header()}).Cookies() {
						if ck.MaxAge < 0 || !strings.HasPrefix(ck.Name, name+"_") {
							continue
						}
						var i int
						if _, err := fmt.Sscanf(strings.TrimPrefix(ck.Name, name+"_"), "%d", &i); err == nil {
							parts = append(parts, part{i, ck.Value})
						}
					}
					if len(parts) < 2 {
						break // not a multi-part cookie for this size: nothing to do
					}
					sort.Slice(parts, func(a, b int) bool { return parts[a].idx < parts[b].idx })
					joined := ""
					for _, p := range parts {
						joined += p.val
					}
					f := strings.Split(joined, "|")
					if len(f) != 3 {
						break
					}
					raw, err := base64.URLEncoding.DecodeString(f[0])
					if err != nil {
						break
					}
					plain, err := ci.Decrypt(raw)
					if err != nil || len(plain) < 32 {
						break
					}
					n := len(plain)
					if !bytes.Equal(plain[n-8:n-4], []byte{0, 0, 0, 0}) {
						c.Inc("forgery_layout_not_recognised")
						break
					}
					zr := lz4.NewReader(bytes.NewReader(plain))
					content, err := io.ReadAll(zr)
					if err != nil || len(content) == 0 {
						c.Inc("forgery_layout_not_recognised")
						break
					}
					if c02xxh32(content) != binary.LittleEndian.Uint32(plain[n-4:]) || plain[n-9] != content[len(content)-1] {
						c.Inc("forgery_layout_not_recognised")
						break
					}
					L := n % 16
					if L == 0 {
						L = 16
					}
					if L < 9 {
						continue // the last literal is not in the final cipher block: try another length
					}
					// rewrite the last content byte and the checksum
					content2 := append([]byte{}, content...)
					content2[len(content2)-1] ^= 0x01
					plain2 := append([]byte{}, plain...)
					plain2[n-9] = content2[len(content2)-1]
					binary.LittleEndian.PutUint32(plain2[n-4:], c02xxh32(content2))
					raw2 := append([]byte{}, raw...)
					for i := range plain {
						raw2[16+i] ^= plain[i] ^ plain2[i]
					}
					v2full := base64.URLEncoding.EncodeToString(raw2) + "|" + f[1] + "|" + f[2]
					if len(v2full) != len(joined) {
						c.Error("C02 forgery: length changed")
						return
					}
					// control: the untouched parts load the issued session
					var ohdr []string
					for _, p := range parts {
						ohdr = append(ohdr, fmt.Sprintf("%s_%d=%s", name, p.idx, p.val))
					}
					req0, _ := (&world.Req{Method: "GET", Target: "/", Host: "app.example.com", Headers: [][2]string{{"Cookie", strings.Join(ohdr, "; ")}}}).Parse()
					if s0, err := verifSessionStore(px.P).Load(req0); err != nil || s0 == nil || s0.PreferredUsername != sess.PreferredUsername {
						c.Error("C02 forgery: control load failed: %v", err)
						return
					}
					// the rewritten value with the genuine signature, and with what is left of a signature when
					// the forger simply cuts it (a verifier that compares only as many bytes as it is shown)
					for _, sv := range []struct{ name, sig string }{
						{"genuine-signature", f[2]}, {"no-signature", ""}, {"first-character-of-signature", f[2][:1]},
						{"first-half-of-signature", f[2][:len(f[2])/2]}, {"signature-minus-last-character", f[2][:len(f[2])-1]},
						{"signature-minus-padding", strings.TrimRight(f[2], "=")},
					} {
						v2 := base64.URLEncoding.EncodeToString(raw2) + "|" + f[1] + "|" + sv.sig
						// same part boundaries as issued (the last part takes what is left)
						var hdr []string
						off := 0
						for pi, p := range parts {
							end := off + len(p.val)
							if end > len(v2) || pi == len(parts)-1 {
								end = len(v2)
							}
							if off >= end {
								break
							}
							hdr = append(hdr, fmt.Sprintf("%s_%d=%s", name, p.idx, v2[off:end]))
							off = end
						}
						req2, err := (&world.Req{Method: "GET", Target: "/", Host: "app.example.com", Headers: [][2]string{{"Cookie", strings.Join(hdr, "; ")}}}).Parse()
						if err != nil {
							c.Error("C02 forgery: request: %v", err)
							return
						}
						c.Inc("evaluations")
						c.Inc("crafted_tail_forgeries_tried")
						c.Inc("crafted_tail_forgeries_" + sv.name)
						c.Distinct("distinct_nontrivial", fmt.Sprintf("forgery|%d|%s|%d|%d|%s", si, expire, tsz, pad, sv.name))
						got, lerr := verifSessionStore(px.P).Load(req2)
						cs := map[string]any{"kind": "crafted-tail-forgery", "secret": si, "cookie_expire": expire, "parts": len(parts), "value_len": len(joined),
							"issued_preferred_username": sess.PreferredUsername, "signature_presented": sv.name}
						if lerr == nil && got != nil {
							cs["loaded_preferred_username"] = got.PreferredUsername
							if got.PreferredUsername != sess.PreferredUsername || got.Email != sess.Email || got.User != sess.User || got.AccessToken != sess.AccessToken {
								c.Violate("C02/crafted-ciphertext-tail-edit-accepted:"+sv.name,
									fmt.Sprintf("a %d-part session cookie (%d characters) whose last cipher block was rewritten (last content byte and lz4 checksum, all past character %d of the value), presented with %s, is accepted as a session that was never issued: preferred_username %q instead of %q",
										len(parts), len(joined), len(f[0])-24, sv.name, got.PreferredUsername, sess.PreferredUsername), len(joined), cs)
							} else {
								c.Inc("crafted_tail_forgeries_accepted_same")
							}
						} else {
							c.Inc("crafted_tail_forgeries_rejected")
						}
						c.Sample(2, cs)
					}
					done = true
				}
			}
		}
	}
}

// c02ForgeryNonVacuity is asserted once on the merged counters.
func c02ForgeryNonVacuity(c *Ctx) {
	if c.Counters["crafted_tail_forgeries_tried"] == 0 {
		c.Error("vacuous: no crafted tail forgery could be constructed (layout not recognised: %d)", c.Counters["forgery_layout_not_recognised"])
	}
}

func c02Incompressible(n int, seed int64) string {
	// deterministic pseudo-random bytes, base64 (lz4 compresses repetitive text away)
	b := make([]byte, n*3/4+3)
	x := uint64(seed)*6364136223846793005 + 1442695040888963407
	for i := range b {
		x = x*6364136223846793005 + 1442695040888963407
		b[i] = byte(x >> 33)
	}
	return base64.RawURLEncoding.EncodeToString(b)[:n]
}

// c02xxh32 is XXH32 with seed 0 (the content checksum of the LZ4 frame format).
func c02xxh32(b []byte) uint32 {
	var (
		p1 uint32 = 2654435761
		p2 uint32 = 2246822519
		p3 uint32 = 3266489917
		p4 uint32 = 668265263
		p5 uint32 = 374761393
	)
	rol := func(x uint32, r uint) uint32 { return x<<r | x>>(32-r) }
	n := len(b)
	var h uint32
	i := 0
	if n >= 16 {
		v1, v2, v3, v4 := p1+p2, p2, uint32(0), uint32(0)-p1
		for ; i+16 <= n; i += 16 {
			v1 = rol(v1+binary.LittleEndian.Uint32(b[i:])*p2, 13) * p1
			v2 = rol(v2+binary.LittleEndian.Uint32(b[i+4:])*p2, 13) * p1
			v3 = rol(v3+binary.LittleEndian.Uint32(b[i+8:])*p2, 13) * p1
			v4 = rol(v4+binary.LittleEndian.Uint32(b[i+12:])*p2, 13) * p1
		}
		h = rol(v1, 1) + rol(v2, 7) + rol(v3, 12) + rol(v4, 18)
	} else {
		h = p5
	}
	h += uint32(n)
	for ; i+4 <= n; i += 4 {
		h = rol(h+binary.LittleEndian.Uint32(b[i:])*p3, 17) * p4
	}
	for ; i < n; i++ {
		h = rol(h+uint32(b[i])*p5, 11) * p1
	}
	h ^= h >> 15
	h *= p2
	h ^= h >> 13
	h *= p3
	h ^= h >> 16
	return h
}

// c02KeystreamReuse: "server-side store entries never reveal tokens ... in recoverable plain text" across
// SEVERAL values of one entry. A session saved again on a request that carries its ticket keeps the
// ticket and with it the entry's key; if the second value is sealed under the same keystream as the
// first, value1 XOR value2 is plaintext1 XOR plaintext2 and whoever knows one session reads the other.
// The two sessions differ in a 256-character access token of 'A's resp. 'B's at the same place: a run
// of 'A'^'B' bytes in the XOR of the two stored values is a reused keystream.
func c02KeystreamReuse(c *Ctx, up *world.Upstream) {
	rd := world.NewRedis()
	defer rd.Close()
	px, err := buildProxy(&ProxyCfg{Flags: append(baseFlags(up.URL()), "--email-domain=*", "--cookie-secure=false"), Redis: rd})
	if err != nil {
		c.Error("C02 keystream: %v", err)
		return
	}
	mk := func(ch string) *sessions.SessionState {
		s := &sessions.SessionState{User: "alice-sub", Email: "alice@example.com", AccessToken: strings.Repeat(ch, 256), RefreshToken: "rt"}
		s.CreatedAtNow()
		return s
	}
	value := func() string {
		for _, k := range rd.Keys() {
			if !strings.HasSuffix(k, ".lock") {
				v, _ := rd.M.Get(k)
				return v
			}
		}
		return ""
	}
	rec := httptest.NewRecorder()
	req := httptest.NewRequest("GET", "http://app.example.com/", nil)
	if err := verifSessionStore(px.P).Save(rec, req, mk("A")); err != nil {
		c.Error("C02 keystream: first save: %v", err)
		return
	}
	v1 := value()
	jar := world.NewJar()
	jar.SetCookies("http", "app.example.com", "/", rec.Header())
	req2, _ := (&world.Req{Method: "GET", Target: "/", Host: "app.example.com", Headers: [][2]string{{"Cookie", jar.Header("http", "app.example.com", "/")}}}).Parse()
	if err := verifSessionStore(px.P).Save(httptest.NewRecorder(), req2, mk("B")); err != nil {
		c.Error("C02 keystream: second save: %v", err)
		return
	}
	v2 := value()
	c.Inc("evaluations")
	c.Inc("store_values_of_one_entry_compared")
	if v1 == "" || v2 == "" || len(rd.Keys()) != 1 {
		c.Inc("store_values_second_save_used_another_entry")
		return
	}
	n := len(v1)
	if len(v2) < n {
		n = len(v2)
	}
	run, best := 0, 0
	for i := 0; i < n; i++ {
		if v1[i]^v2[i] == 'A'^'B' {
			run++
			if run > best {
				best = run
			}
		} else {
			run = 0
		}
	}
	if best >= 64 {
		c.Violate("C02/store-values-of-one-entry-share-a-keystream", fmt.Sprintf("two values stored under the same entry (a session saved again on a request carrying its ticket) XOR to a run of %d bytes equal to 'A'^'B': both were sealed under the same keystream, so either session is readable from the other (first 12 bytes of the values: %x / %x)", best, v1[:12], v2[:12]), 2,
			map[string]any{"kind": "keystream-reuse", "run": best})
	} else {
		c.Inc("store_values_independent")
	}
}
