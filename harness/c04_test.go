//go:build verif

package main

import (
	"encoding/json"
	"fmt"
	"hash/fnv"
	"os"
	"sort"
	"strings"
	"time"

	"github.com/oauth2-proxy/oauth2-proxy/v7/verifx/world"
)

// C04 — identity comes only from tokens the configured issuer signed for this client (PROD).
//
// Full product  token {signer x issuer x audience shape x expiry x email_verified x claim typing}
//             x configuration {key source x allow-unverified-email x skip-issuer-verification x audience
//               configuration x claim names}
//             x entry path {login callback, token refresh, bearer header (provider loader), bearer header
//               with an extra issuer configured}
// driven through the real proxy against the fake identity provider. The reference model below is
// written from the property statement and docs/docs/configuration/overview.md, clause by clause.

const (
	c04Host     = "app.example.com"
	c04ExtraAud = "extra-aud" // --oidc-extra-audience
	c04APIAud   = "api-aud"   // audience of the extra issuer (--extra-jwt-issuers=https://idp2.example=api-aud)
	c04Evil     = "https://evil.example"

	c04TokSub   = "tok-sub"
	c04TokEmail = "tok@example.com"
	c04TokPref  = "tok-name"
	c04TokMail  = "tokmail@example.com"

	c04ProfEmail = "prof@example.com"
	c04ProfPref  = "prof-name"
)

var (
	c04TokGroups  = []string{"tok-g1", "tok-g2"}
	c04TokRoles   = []string{"tok-r1", "tok-r2"}
	c04ProfGroups = []string{"prof-g"}
	// values that may never show up in a session built from a token that carries the claim itself
	c04Foreign = []string{"prof-g", "prof-r", "staff", "admins", "alice-r"}
)

// ---- alphabets

var (
	c04Signers = []string{"main", "other", "none", "hs256-pem", "hs256-jwk", "unknown-kid"}
	c04Issuers = []string{"ok", "other", "absent"}
	c04Auds    = []string{"client", "other", "list-with", "list-without", "extra", "absent", "number", "object", "list-numbers", "superstring"}
	c04Exps    = []string{"valid", "expired", "absent"}
	c04EVs     = []string{"true", "false", "absent", "str-false"}
	// quick tier: without the two values whose outcome the statement leaves open in every combination
	c04ExpsQuick = []string{"valid", "expired"}
	c04EVsQuick  = []string{"true", "false", "absent"}
	// claim typing; "custom" runs on the configurations with --oidc-email-claim=mail --oidc-groups-claim=realm.roles
	c04TypsThorough = []string{"normal", "groups-string", "groups-objects", "email-absent", "groups-absent", "groups-empty", "custom"}
	c04TypsQuick    = []string{"normal", "groups-string", "email-absent", "groups-empty", "custom"}
	c04AudCfgs      = []string{"default", "extra", "custom"}
)

type c04Cfg struct {
	Static   bool   `json:"static_keys"`
	AllowU   bool   `json:"allow_unverified_email"`
	SkipIss  bool   `json:"skip_issuer_verification"`
	AudCfg   string `json:"aud_cfg"` // default | extra (--oidc-extra-audience) | custom (--oidc-audience-claim=azp + extra audience)
	Custom   bool   `json:"custom_claim_names"`
	ExtraIss bool   `json:"extra_issuer"`
}

type c04Tok struct {
	Signer string `json:"signer"`
	Iss    string `json:"iss"`
	Aud    string `json:"aud"`
	Exp    string `json:"exp"`
	EV     string `json:"email_verified"`
	Typ    string `json:"typing"`
}

type c04Case struct {
	Cfg      c04Cfg  `json:"cfg"`
	Path     string  `json:"path"` // callback | refresh | bearer | bearer-extra
	Form     string  `json:"form,omitempty"`
	Tok      c04Tok  `json:"token"`
	Expected string  `json:"expected"`
	Observed *c04Obs `json:"observed,omitempty"`
	// relational clause of the value part: the earlier token (another claim value) that led to the same session value
	Other *c04Tok `json:"same_session_value_as,omitempty"`
}

// String spells out the literal values behind the names of the value part (c04_values_test.go).
func (t c04Tok) String() string {
	type plain c04Tok
	s := fmt.Sprintf("%+v", plain(t))
	if lit := c04Literal(t); lit != "" {
		s += " [" + lit + "]"
	}
	return s
}

func (cs *c04Case) key() string {
	return fmt.Sprintf("%+v|%s|%s|%+v", cs.Cfg, cs.Path, cs.Form, cs.Tok)
}

// ---- token construction

func c04AudValue(name string) (any, bool) {
	switch name {
	case "client":
		return world.ClientID, true
	case "other":
		return "other-client", true
	case "list-with":
		return []string{"other-client", world.ClientID}, true
	case "list-without":
		return []string{"other-client", "third-client"}, true
	case "extra":
		return c04ExtraAud, true
	case "api":
		return c04APIAud, true
	case "absent":
		return nil, false
	case "number":
		return 42, true
	case "object":
		return map[string]any{"aud": world.ClientID}, true
	case "list-numbers":
		return []int{1, 2}, true
	case "superstring":
		return world.ClientID + "2", true
	}
	if c04IsDerivedAud(name) {
		return c04DerivedAud(name)
	}
	panic("c04: unknown audience shape " + name)
}

func c04IssValue(name string) string {
	switch name {
	case "ok":
		return world.Issuer
	case "issuer2":
		return world.Issuer2
	case "other":
		return c04Evil
	case "absent":
		return ""
	}
	panic("c04: unknown issuer " + name)
}

// reference: does an audience claim value name one of the allowed audiences? (string, or list of
// strings; every other JSON type is not an audience)
func c04AudMatches(v any, allowed map[string]bool) bool {
	switch x := v.(type) {
	case string:
		return allowed[x]
	case []string:
		for _, s := range x {
			if allowed[s] {
				return true
			}
		}
	case []any:
		// (a list inside a list is not an audience value)
		for _, e := range x {
			if s, ok := e.(string); ok && allowed[s] {
				return true
			}
		}
	}
	return false
}

func c04Spec(k c04Cfg, path string, t c04Tok) *world.TokenSpec {
	s := &world.TokenSpec{Claims: map[string]any{}}
	s.Signer = t.Signer
	if t.Signer == "none-sig" {
		s.Signer = "none"
	}
	iss := c04IssValue(t.Iss)
	s.Issuer = &iss
	v, present := c04AudValue(t.Aud)
	// the claim that is NOT the configured audience claim carries the opposite verdict, so reading
	// the wrong claim gives the wrong answer in both directions
	union := map[string]bool{}
	for _, vf := range c04Verifiers(k, path) {
		for a := range vf.allowed(k) {
			union[a] = true
		}
	}
	decoy := world.ClientID
	if present && c04AudMatches(v, union) {
		decoy = "other-client"
	}
	if k.AudCfg == "custom" {
		s.Audience = decoy
		if present {
			s.Claims["azp"] = v
		}
	} else {
		if present {
			s.Audience = v
		} else {
			s.DropAud = true
		}
		s.Claims["azp"] = decoy
	}
	switch t.Exp {
	case "valid":
	case "expired":
		s.Expiry = "expired"
	case "absent":
		s.Expiry = "absent"
	default:
		panic("c04: expiry " + t.Exp)
	}
	switch t.EV {
	case "true":
		s.Claims["email_verified"] = true
	case "false":
		s.Claims["email_verified"] = false
	case "absent":
		s.Claims["email_verified"] = nil
	case "str-false":
		s.Claims["email_verified"] = "false"
	default:
		panic("c04: email_verified " + t.EV)
	}
	s.Claims["sub"] = c04TokSub
	s.Claims["email"] = c04TokEmail
	s.Claims["groups"] = c04TokGroups
	s.Claims["preferred_username"] = c04TokPref
	s.Claims["mail"] = c04TokMail
	s.Claims["realm"] = map[string]any{"roles": c04TokRoles}
	switch t.Typ {
	case "normal", "custom":
	case "groups-string":
		s.Claims["groups"] = "solo"
	case "groups-objects":
		s.Claims["groups"] = []any{map[string]any{"name": "obj-g"}}
	case "email-absent":
		s.Claims["email"] = nil
	case "groups-absent":
		s.Claims["groups"] = nil
	case "groups-empty":
		s.Claims["groups"] = []string{} // the claim is there: the user is in no group (any more)
	default:
		if !c04IsValueTyping(t.Typ) {
			panic("c04: typing " + t.Typ)
		}
		c04ValueSpec(k, t.Typ, s.Claims)
	}
	if strings.HasPrefix(path, "bearer") {
		s.DropNonce = true
	}
	return s
}

// ---- reference model (property statement + documentation)

type c04Verifier struct {
	name      string
	key       string // which key its issuer signs with: main | issuer2
	issuer    string
	skipIss   bool
	own       string // the client id (provider) or the audience configured for the extra issuer
	tolerated string // audience whose acceptance the documentation leaves open (see assumptions)
	provider  bool
}

func (v c04Verifier) allowed(k c04Cfg) map[string]bool {
	m := map[string]bool{v.own: true}
	if k.AudCfg == "extra" || k.AudCfg == "custom" {
		m[c04ExtraAud] = true
	}
	return m
}

func c04Verifiers(k c04Cfg, path string) []c04Verifier {
	vs := []c04Verifier{{name: "provider", key: "main", issuer: world.Issuer, skipIss: k.SkipIss, own: world.ClientID, provider: true}}
	if k.ExtraIss {
		vs[0].tolerated = c04APIAud
		vs = append(vs, c04Verifier{name: "extra-issuer", key: "issuer2", issuer: world.Issuer2, own: c04APIAud, tolerated: world.ClientID})
	}
	return vs
}

const (
	c04MustReject = -1
	c04Either     = 0
	c04MustAccept = 1
)

type c04One struct {
	must   int
	clause string   // first failing clause
	fails  int      // number of failing clauses
	open   []string // why the statement leaves it open
}

// c04RefOne: the clauses of the statement for one issuer/verifier.
func c04RefOne(k c04Cfg, path, form string, t c04Tok, v c04Verifier) c04One {
	var r c04One
	fail := func(clause string) {
		if r.fails == 0 {
			r.clause = clause
		}
		r.fails++
	}
	open := func(why string) { r.open = append(r.open, why) }

	// 1. signature verifies against the configured issuer's keys
	switch t.Signer {
	case "main":
		if v.key != "main" {
			fail("signature")
		}
	case "issuer2":
		if v.key != "issuer2" {
			fail("signature")
		}
	case "unknown-kid":
		// signed with the issuer's key but naming a key id the issuer does not publish
		if v.key != "main" {
			fail("signature")
		} else {
			open("kid names no published key")
		}
	default: // other RSA key, alg none (with or without junk signature), HS256 keyed with the public key
		fail("signature")
	}
	// 2. issuer matches
	if iss := c04IssValue(t.Iss); iss != v.issuer {
		if !v.skipIss {
			fail("issuer")
		} else if iss == "" {
			open("issuer absent while issuer verification is skipped")
		}
	}
	// 3. audience (the configured audience claim) contains the client id or a configured extra audience
	val, present := c04AudValue(t.Aud)
	if !present || !c04AudMatches(val, v.allowed(k)) {
		if present && v.tolerated != "" && c04AudMatches(val, map[string]bool{v.tolerated: true}) {
			open("audience of the other configured issuer")
		} else {
			fail("audience")
		}
	}
	// 4. not expired
	switch t.Exp {
	case "expired":
		fail("expiry")
	case "absent":
		open("no exp claim")
	}
	// 5. standard e-mail claim not marked unverified, unless the operator allowed that
	switch t.EV {
	case "false", "str-false":
		// (the string "false" — the form some providers emit — marks the e-mail unverified just as the
		// JSON boolean does: a reader that understands "true" given as a string cannot take "false" for
		// "nothing said")
		switch {
		case k.AllowU && v.provider:
		case k.AllowU:
			open("allow-unverified-email and extra issuer")
		case k.Custom:
			open("email_verified with a non-standard e-mail claim")
		default:
			fail("email_verified")
		}
	}
	// converse only: shapes the documentation does not define
	switch t.Typ {
	case "groups-string", "groups-objects":
		open("groups claim is not a list of strings")
	case "email-absent":
		if strings.HasPrefix(path, "bearer") {
			open("no e-mail claim and no access token for the profile endpoint")
		}
	default:
		if c04IsValueTyping(t.Typ) {
			if pos, val := c04ValueOf(t.Typ); !c04Plain(pos, val) {
				open("claim value is not a string (groups: not a list of strings)")
			}
		}
	}
	if form != "" && form != "bearer" {
		open("token carried in a Basic header")
	}
	switch {
	case r.fails > 0:
		r.must = c04MustReject
	case len(r.open) > 0:
		r.must = c04Either
	default:
		r.must = c04MustAccept
	}
	return r
}

// admissible identity of a session built from token t
type c04Adm struct {
	Users      []string
	Emails     []string
	Groups     [][]string
	GroupsFree bool // any rendering, as long as nothing foreign shows up
	Prefs      []string
	ZeroProf   bool // the token has every configured claim: the profile endpoint must not be consulted
	// value part: the field must say what this claim value says (c04Renders)
	UserVal, EmailVal, PrefVal, GroupsVal *c04Val
}

func c04Admissible(k c04Cfg, path string, t c04Tok) c04Adm {
	a := c04Adm{Users: []string{c04TokSub}, Prefs: []string{c04TokPref}}
	bearer := strings.HasPrefix(path, "bearer")
	switch {
	case t.Typ == "email-absent" && bearer:
		a.Emails = []string{c04TokSub, "", c04ProfEmail}
	case t.Typ == "email-absent":
		a.Emails = []string{c04ProfEmail}
	case k.Custom:
		a.Emails = []string{c04TokMail}
	default:
		a.Emails = []string{c04TokEmail}
	}
	switch {
	case t.Typ == "groups-string":
		a.Groups = [][]string{{"solo"}, {}}
	case t.Typ == "groups-objects":
		a.GroupsFree = true
	case t.Typ == "groups-empty":
		// no groups; a proxy that takes an empty list for "claim missing" and asks the profile endpoint is
		// tolerated — groups from anywhere else (an earlier token of the session) are not
		a.Groups = [][]string{{}, c04ProfGroups}
	case t.Typ == "groups-absent" && bearer:
		a.Groups = [][]string{{}, c04ProfGroups}
	case t.Typ == "groups-absent":
		a.Groups = [][]string{c04ProfGroups}
	case k.Custom:
		// realm.roles: a path into a nested object, or (literal reading) a claim the token lacks
		a.Groups = [][]string{c04TokRoles, {}}
	default:
		a.Groups = [][]string{c04TokGroups}
	}
	a.ZeroProf = !bearer && !k.Custom && t.EV != "absent" &&
		(t.Typ == "normal" || t.Typ == "groups-string" || t.Typ == "groups-objects" || c04IsValueTyping(t.Typ))
	if c04IsValueTyping(t.Typ) {
		switch pos, val := c04ValueOf(t.Typ); pos {
		case "user":
			a.UserVal = val
		case "email":
			a.EmailVal = val
		case "pref":
			a.PrefVal = val
		case "groups":
			a.GroupsVal = val
		}
	}
	return a
}

type c04Verdict struct {
	Must   int
	Clause string
	Fails  int
	Open   []string
}

func c04Ref(k c04Cfg, path, form string, t c04Tok) c04Verdict {
	out := c04Verdict{Must: c04MustReject, Fails: 99}
	for _, v := range c04Verifiers(k, path) {
		r := c04RefOne(k, path, form, t, v)
		if r.must > out.Must {
			out.Must = r.must
		}
		if r.fails < out.Fails {
			out.Fails, out.Clause = r.fails, r.clause
		}
		if r.must == c04Either {
			out.Open = append(out.Open, r.open...)
		}
	}
	if out.Must != c04Either {
		out.Open = nil
	}
	return out
}

func (v c04Verdict) String() string {
	switch v.Must {
	case c04MustAccept:
		return "accept"
	case c04MustReject:
		return "reject(" + v.Clause + ")"
	}
	return "either(" + strings.Join(v.Open, "; ") + ")"
}

// ---- observation

type c04ID struct {
	User   string   `json:"user"`
	Email  string   `json:"email"`
	Groups []string `json:"groups"`
	Pref   string   `json:"preferred_username"`
}

func (a c04ID) equal(b c04ID) bool {
	return a.User == b.User && a.Email == b.Email && a.Pref == b.Pref && c04SameSet(a.Groups, b.Groups)
}

func c04SameSet(a, b []string) bool {
	if len(a) != len(b) {
		return false
	}
	x := append([]string{}, a...)
	y := append([]string{}, b...)
	sort.Strings(x)
	sort.Strings(y)
	for i := range x {
		if x[i] != y[i] {
			return false
		}
	}
	return true
}

type c04Obs struct {
	Step         string `json:"step,omitempty"`
	Served       bool   `json:"served"`
	Status       int    `json:"status"`
	Upstream     *c04ID `json:"upstream_identity,omitempty"`
	UIStatus     int    `json:"userinfo_status"`
	Userinfo     *c04ID `json:"userinfo_identity,omitempty"`
	ProfileCalls int    `json:"profile_calls"`
	Grants       int    `json:"refresh_grants,omitempty"`
	Panic        string `json:"panic,omitempty"`
	PanicSite    string `json:"panic_site,omitempty"`
}

func (o *c04Obs) page(r *world.Resp, hits []*world.UpReq) {
	o.Status = r.Status
	if r.Panic != nil {
		o.Panic = fmt.Sprint(r.Panic)
		o.PanicSite = r.PanicSite()
		return
	}
	if len(hits) > 0 {
		o.Served = true
		h := hits[0].Header
		id := &c04ID{User: h.Get("X-Forwarded-User"), Email: h.Get("X-Forwarded-Email"), Pref: h.Get("X-Forwarded-Preferred-Username"), Groups: []string{}}
		for _, line := range h.Values("X-Forwarded-Groups") {
			for _, g := range strings.Split(line, ",") {
				if g != "" {
					id.Groups = append(id.Groups, g)
				}
			}
		}
		o.Upstream = id
	}
}

func (o *c04Obs) userinfo(r *world.Resp) {
	o.UIStatus = r.Status
	if r.Panic != nil {
		if o.Panic == "" {
			o.Panic = fmt.Sprint(r.Panic)
			o.PanicSite = r.PanicSite()
		}
		return
	}
	if r.Status != 200 {
		return
	}
	var u struct {
		User   string   `json:"user"`
		Email  string   `json:"email"`
		Groups []string `json:"groups"`
		Pref   string   `json:"preferredUsername"`
	}
	if err := json.Unmarshal([]byte(r.Body), &u); err != nil {
		o.UIStatus = -1
		return
	}
	if u.Groups == nil {
		u.Groups = []string{}
	}
	o.Userinfo = &c04ID{User: u.User, Email: u.Email, Groups: u.Groups, Pref: u.Pref}
}

func (o *c04Obs) ids() []*c04ID {
	var out []*c04ID
	if o.Upstream != nil {
		out = append(out, o.Upstream)
	}
	if o.Userinfo != nil {
		out = append(out, o.Userinfo)
	}
	return out
}

// hasSession: the request was served or /oauth2/userinfo disclosed an identity
func (o *c04Obs) hasSession() bool { return o.Served || o.Userinfo != nil }

// ---- the world of one shard

type c04Env struct {
	c        *Ctx
	up       *world.Upstream
	idp      *world.IdP
	pem      string
	proxies  map[c04Cfg]*Proxy
	tokCache map[string]string
}

func c04NewEnv(c *Ctx) *c04Env {
	e := &c04Env{c: c, proxies: map[c04Cfg]*Proxy{}, tokCache: map[string]string{}}
	e.newIdP()
	e.up = world.NewUpstream("u")
	e.pem = tempFile(scratch(), "c04-pub-*.pem", string(world.PublicKeyPEM(world.KeyMain)))
	return e
}

func (e *c04Env) close() {
	e.up.Close()
	os.Remove(e.pem)
}

func (e *c04Env) newIdP() {
	e.idp = world.NewIdP()
	e.idp.StaticRefreshToken = true
	e.idp.UserinfoClaims = map[string]any{
		"email": c04ProfEmail, "email_verified": true, "groups": c04ProfGroups, "preferred_username": c04ProfPref,
		"mail": "profmail@example.com", "realm": map[string]any{"roles": []string{"prof-r"}},
	}
}

func c04Flags(k c04Cfg, upURL, pem string) []string {
	f := append(baseFlags(upURL), "--email-domain=*", "--cookie-secure=false", "--cookie-refresh=1m", "--skip-jwt-bearer-tokens=true")
	if k.Static {
		f = append(f, "--skip-oidc-discovery=true", "--oidc-public-key-file="+pem,
			"--login-url="+world.Issuer+"/authorize", "--redeem-url="+world.Issuer+"/token", "--profile-url="+world.Issuer+"/userinfo")
	}
	if k.AllowU {
		f = append(f, "--insecure-oidc-allow-unverified-email=true")
	}
	if k.SkipIss {
		f = append(f, "--insecure-oidc-skip-issuer-verification=true")
	}
	switch k.AudCfg {
	case "extra":
		f = append(f, "--oidc-extra-audience="+c04ExtraAud)
	case "custom":
		f = append(f, "--oidc-audience-claim=azp", "--oidc-extra-audience="+c04ExtraAud)
	}
	if k.Custom {
		f = append(f, "--oidc-email-claim=mail", "--oidc-groups-claim=realm.roles")
	}
	if k.ExtraIss {
		f = append(f, "--extra-jwt-issuers="+world.Issuer2+"="+c04APIAud)
	}
	return f
}

func (e *c04Env) proxy(k c04Cfg) *Proxy {
	if px := e.proxies[k]; px != nil {
		return px
	}
	px := mustProxy(&ProxyCfg{Flags: c04Flags(k, e.up.URL(), e.pem)})
	e.proxies[k] = px
	return px
}

func (e *c04Env) profileCallsSince(n0 int) int {
	n := 0
	for _, cl := range e.idp.Calls[n0:] {
		if cl.Endpoint == "userinfo" {
			n++
		}
	}
	return n
}

func (e *c04Env) bearerToken(k c04Cfg, path string, t c04Tok) string {
	key := fmt.Sprintf("%s|%v|%s|%+v", k.AudCfg, k.ExtraIss, path, t)
	if c04IsValueTyping(t.Typ) {
		key += fmt.Sprintf("|%v", k.Custom) // the claim the value goes into depends on the configured claim names
	}
	if tok, ok := e.tokCache[key]; ok {
		return tok
	}
	tok := e.idp.MintIDToken(e.idp.Users["alice"], c04Spec(k, path, t))
	if t.Signer == "none-sig" {
		tok += "AAAA"
	}
	e.tokCache[key] = tok
	return tok
}

func (e *c04Env) runBearer(k c04Cfg, path, form string, t c04Tok) *c04Obs {
	px := e.proxy(k)
	world.ResetClock()
	tok := e.bearerToken(k, path, t)
	var hdr string
	switch form {
	case "", "bearer":
		hdr = "Bearer " + tok
	case "basic-user":
		hdr = basicAuth(tok, "x-oauth-basic")
	case "basic-pass":
		hdr = basicAuth("someone", tok)
	default:
		panic("c04: form " + form)
	}
	o := &c04Obs{}
	n0 := len(e.idp.Calls)
	e.up.Take()
	r := world.Serve(px.H, &world.Req{Method: "GET", Target: "/page", Host: c04Host, Headers: [][2]string{{"Authorization", hdr}}})
	o.page(r, e.up.Take())
	if r.Panic == nil {
		o.userinfo(world.Serve(px.H, &world.Req{Method: "GET", Target: "/oauth2/userinfo", Host: c04Host, Headers: [][2]string{{"Authorization", hdr}}}))
	}
	o.ProfileCalls = e.profileCallsSince(n0)
	return o
}

func c04NonCSRFCookies(j *world.Jar) int {
	n := 0
	for _, ck := range j.Cookies {
		if !strings.Contains(ck.Name, "csrf") {
			n++
		}
	}
	return n
}

func (e *c04Env) specFunc(spec *world.TokenSpec, onlyRefresh bool) func(*world.AuthRequest, *world.User, bool) *world.TokenSpec {
	return func(_ *world.AuthRequest, _ *world.User, refresh bool) *world.TokenSpec {
		if onlyRefresh && !refresh {
			return nil
		}
		cp := *spec // the provider fills in the nonce
		return &cp
	}
}

func (e *c04Env) runCallback(k c04Cfg, t c04Tok) (*c04Obs, error) {
	px := e.proxy(k)
	world.ResetClock()
	e.idp.IDTokenSpec = e.specFunc(c04Spec(k, "callback", t), false)
	defer func() { e.idp.IDTokenSpec = nil }()
	b := newBrowser(px, "http", c04Host)
	o := &c04Obs{}
	n0 := len(e.idp.Calls)
	_, loginURL, err := b.Start("/page")
	if err != nil {
		return nil, err
	}
	cb, _, err := e.idp.Authorize(loginURL, "alice")
	if err != nil {
		return nil, err
	}
	resp := b.Callback(cb)
	o.Step = fmt.Sprintf("callback:%d", resp.Status)
	if resp.Panic != nil {
		o.Panic, o.PanicSite = fmt.Sprint(resp.Panic), resp.PanicSite()
		return o, nil
	}
	if c04NonCSRFCookies(b.Jar) == 0 {
		// the browser holds no credential at all: the next request is an anonymous one
		o.Status = resp.Status
		o.ProfileCalls = e.profileCallsSince(n0)
		return o, nil
	}
	e.up.Take()
	r := b.Get("/page")
	o.page(r, e.up.Take())
	if r.Panic == nil {
		o.userinfo(b.Get("/oauth2/userinfo"))
	}
	o.ProfileCalls = e.profileCallsSince(n0)
	return o, nil
}

// c04BaseSpec is the (valid) token of the login that precedes a refresh.
func c04BaseSpec() *world.TokenSpec {
	return &world.TokenSpec{Claims: map[string]any{
		"azp": world.ClientID, "mail": "alice-mail@example.com", "realm": map[string]any{"roles": []string{"alice-r"}},
	}}
}

type c04Base struct {
	jar *world.Jar
	id  c04ID // identity of the session before the refresh, as served
}

func (e *c04Env) refreshBase(k c04Cfg) (*c04Base, error) {
	px := e.proxy(k)
	world.ResetClock()
	e.idp.IDTokenSpec = e.specFunc(c04BaseSpec(), false)
	defer func() { e.idp.IDTokenSpec = nil }()
	b := newBrowser(px, "http", c04Host)
	resp, _, err := b.Login(e.idp, "alice", "/page")
	if err != nil {
		return nil, err
	}
	if resp.Status != 302 {
		return nil, fmt.Errorf("base login failed: status %d", resp.Status)
	}
	e.up.Take()
	o := &c04Obs{}
	o.page(b.Get("/page"), e.up.Take())
	if !o.Served {
		return nil, fmt.Errorf("base session not served: status %d", o.Status)
	}
	return &c04Base{jar: b.Jar.Clone(), id: *o.Upstream}, nil
}

func (e *c04Env) runRefresh(k c04Cfg, t c04Tok, base *c04Base) *c04Obs {
	px := e.proxy(k)
	world.ResetClock()
	world.Advance(2 * time.Minute)
	defer world.ResetClock()
	e.idp.IDTokenSpec = e.specFunc(c04Spec(k, "refresh", t), true)
	defer func() { e.idp.IDTokenSpec = nil }()
	b := newBrowser(px, "http", c04Host)
	b.Jar = base.jar.Clone()
	o := &c04Obs{}
	n0, g0 := len(e.idp.Calls), e.idp.Grants
	e.up.Take()
	r := b.Get("/page")
	o.page(r, e.up.Take())
	o.Grants = e.idp.Grants - g0
	unchanged := o.Served && o.Upstream.equal(base.id) && len(r.SetCookieLines()) == 0
	if r.Panic == nil && !(e.c.Quick() && unchanged) {
		// (quick tier: when the old identity was served and no cookie was set, the browser state is
		// what it was, and a second request would only repeat the same refresh attempt)
		o.userinfo(b.Get("/oauth2/userinfo"))
	} else if r.Panic == nil {
		o.UIStatus = -2
		e.c.Inc("refresh_userinfo_skipped_state_unchanged")
	}
	o.ProfileCalls = e.profileCallsSince(n0)
	return o
}

// ---- judgement

func c04PanicKey(site string) string {
	if strings.Contains(site, "verifyAudience") || strings.Contains(site, "interfaceSliceToString") {
		return "C04/verifyAudience-unchecked-type-assertion"
	}
	return "C04/panic@" + site
}

func c04In(s string, set []string) bool {
	for _, x := range set {
		if x == s {
			return true
		}
	}
	return false
}

// c04IdentField returns the first identity field that is not admissible ("" = fine).
func c04IdentField(id *c04ID, a c04Adm) string {
	if a.UserVal != nil {
		if !c04Renders(a.UserVal, id.User) {
			return "user"
		}
	} else if !c04In(id.User, a.Users) {
		return "user"
	}
	if a.EmailVal != nil {
		if !c04Renders(a.EmailVal, id.Email) {
			return "email"
		}
	} else if !c04In(id.Email, a.Emails) {
		return "email"
	}
	if a.PrefVal != nil {
		if !c04Renders(a.PrefVal, id.Pref) {
			return "preferred_username"
		}
	} else if !c04In(id.Pref, a.Prefs) {
		return "preferred_username"
	}
	if a.GroupsVal != nil {
		if c04RendersGroups(a.GroupsVal, id.Groups) {
			return ""
		}
		for _, g := range a.Groups {
			// (custom claim names: the literal-name reading of realm.roles gives no groups)
			if len(g) == 0 && len(id.Groups) == 0 {
				return ""
			}
		}
		return "groups"
	}
	if a.GroupsFree {
		for _, g := range id.Groups {
			if c04In(g, c04Foreign) || c04In(g, c04TokRoles) {
				return "groups"
			}
		}
		return ""
	}
	for _, g := range a.Groups {
		if c04SameSet(id.Groups, g) {
			return ""
		}
	}
	return "groups"
}

// c04Judge compares one observation with the reference. base is the pre-refresh identity on the
// refresh path. Returns the finding key ("" = consistent with the property), a message, the class
// of the observation and whether the token was adopted.
var c04AmbiguousExtraIssuerNames int

func c04Judge(cs *c04Case, v c04Verdict, o *c04Obs, base *c04ID) (key, msg, class string) {
	if o.Panic != "" {
		return c04PanicKey(o.PanicSite), fmt.Sprintf("%s path, cfg %+v, token %+v: handler panics at %s: %s", cs.Path, cs.Cfg, cs.Tok, o.PanicSite, o.Panic), "panic"
	}
	accepted := o.hasSession()
	class = "rejected"
	if cs.Path == "refresh" && accepted {
		// a session exists either way; the question is whose identity it carries
		kept := true
		for _, id := range o.ids() {
			if !id.equal(*base) {
				kept = false
			}
		}
		if kept {
			accepted = false
			class = "kept-old-session"
		}
	}
	if accepted {
		class = "accepted"
	}
	where := cs.Path
	if cs.Form != "" && cs.Form != "bearer" {
		where += "/" + cs.Form
	}
	switch {
	case v.Must == c04MustReject && accepted:
		return fmt.Sprintf("C04/invalid-token-accepted:%s:%s", cs.Path, v.Clause),
			fmt.Sprintf("%s: cfg %+v: token %+v fails the %s clause but a session with its identity exists (upstream %+v, userinfo %+v)", where, cs.Cfg, cs.Tok, v.Clause, o.Upstream, o.Userinfo), class
	case v.Must == c04MustAccept && !accepted:
		return fmt.Sprintf("C04/valid-token-rejected:%s", cs.Path),
			fmt.Sprintf("%s: cfg %+v: token %+v satisfies every clause but was not adopted (%s, step %s status %d userinfo %d)", where, cs.Cfg, cs.Tok, class, o.Step, o.Status, o.UIStatus), class
	}
	if !accepted {
		return "", "", class
	}
	adm := c04Admissible(cs.Cfg, cs.Path, cs.Tok)
	for _, id := range o.ids() {
		if f := c04IdentField(id, adm); f != "" {
			// Tokens of an extra issuer are turned into sessions by a loader that has no claim
			// configuration of its own (--oidc-email-claim / --oidc-groups-claim are documented as
			// options of the provider). Whether "the token's configured claims" means the
			// provider's names or the standard names for such tokens is not pinned down by the
			// statement: both readings are admissible (DESIGN.md §6, C04).
			if cs.Path == "bearer-extra" && cs.Tok.Signer == "issuer2" && cs.Cfg.Custom {
				std := cs.Cfg
				std.Custom = false
				if c04IdentField(id, c04Admissible(std, cs.Path, cs.Tok)) == "" {
					c04AmbiguousExtraIssuerNames++
					continue
				}
			}
			loader := ""
			if cs.Path == "bearer-extra" {
				// which of the two session loaders can have accepted it is decided by the signing key
				loader = "@provider-loader"
				if cs.Tok.Signer == "issuer2" {
					loader = "@extra-issuer-loader"
				}
			}
			return fmt.Sprintf("C04/identity-not-from-configured-claims:%s%s:%s", cs.Path, loader, f),
				fmt.Sprintf("%s: cfg %+v: token %+v accepted, but session %s is not what the token's configured claim says: observed %+v, admissible %+v", where, cs.Cfg, cs.Tok, f, *id, adm), class
		}
	}
	if o.Upstream != nil && o.Userinfo != nil && !o.Upstream.equal(*o.Userinfo) {
		return "C04/identity-differs-between-upstream-and-userinfo:" + cs.Path,
			fmt.Sprintf("%s: cfg %+v token %+v: upstream saw %+v, userinfo says %+v", where, cs.Cfg, cs.Tok, *o.Upstream, *o.Userinfo), class
	}
	if adm.ZeroProf && o.ProfileCalls > 0 {
		return "C04/profile-consulted-needlessly:" + cs.Path,
			fmt.Sprintf("%s: cfg %+v: token %+v carries every configured claim, yet the profile endpoint was called %d times", where, cs.Cfg, cs.Tok, o.ProfileCalls), class
	}
	return "", "", class
}

// ---- enumeration

type c04Unit struct {
	Cfg    c04Cfg
	Path   string
	Form   string
	Typ    string
	Signer string
	Iss    string
	// value part (c04_values_test.go): the unit's tokens are listed, not the product of the tier's alphabets
	Part string
	Toks []c04Tok
}

// c04UnitToks: the tokens of one unit.
func c04UnitToks(u c04Unit, exps, evs []string) []c04Tok {
	if u.Toks != nil {
		return u.Toks
	}
	var out []c04Tok
	for _, aud := range c04UnitAuds(u) {
		for _, exp := range exps {
			for _, ev := range c04EVsOf(evs, u, exp) {
				out = append(out, c04Tok{Signer: u.Signer, Iss: u.Iss, Aud: aud, Exp: exp, EV: ev, Typ: u.Typ})
			}
		}
	}
	return out
}

// c04EVsOf: the quick tier leaves the string form of email_verified out of the product, except on
// tokens that are flawless otherwise (genuine signer and issuer, plain claim typing, not expired) —
// the only place where it decides anything.
func c04EVsOf(evs []string, u c04Unit, exp string) []string {
	for _, ev := range evs {
		if ev == "str-false" {
			return evs
		}
	}
	if u.Signer == "main" && u.Iss == "ok" && u.Typ == "normal" && exp == "valid" {
		return append(append([]string{}, evs...), "str-false")
	}
	return evs
}

func c04TierAlphabet(quick bool) (exps, evs []string) {
	if quick {
		return c04ExpsQuick, c04EVsQuick
	}
	return c04Exps, c04EVs
}

func c04UnitAuds(u c04Unit) []string {
	if u.Path == "bearer-extra" {
		return append(append([]string{}, c04Auds...), "api")
	}
	return c04Auds
}

func c04Units(quick bool) (units []c04Unit, info map[string]any) {
	typs := c04TypsThorough
	exps, evs := c04TierAlphabet(quick)
	keySrc := []bool{false, true}
	forms := []string{"bearer", "basic-user", "basic-pass"}
	if quick {
		typs = c04TypsQuick
		keySrc = []bool{false}
		forms = []string{"bearer"}
	}
	bearerSigners := append(append([]string{}, c04Signers...), "none-sig")
	extraSigners := append(append([]string{}, bearerSigners...), "issuer2")
	extraIssuers := append(append([]string{}, c04Issuers...), "issuer2")
	nCfg := 0
	for _, static := range keySrc {
		for _, allowU := range []bool{false, true} {
			for _, skipIss := range []bool{false, true} {
				for _, audCfg := range c04AudCfgs {
					for _, custom := range []bool{false, true} {
						for _, extraIss := range []bool{false, true} {
							k := c04Cfg{Static: static, AllowU: allowU, SkipIss: skipIss, AudCfg: audCfg, Custom: custom, ExtraIss: extraIss}
							nCfg++
							type pf struct{ path, form string }
							var pfs []pf
							if extraIss {
								pfs = []pf{{"bearer-extra", "bearer"}}
							} else {
								pfs = []pf{{"callback", ""}, {"refresh", ""}}
								for _, f := range forms {
									pfs = append(pfs, pf{"bearer", f})
								}
							}
							for _, typ := range typs {
								if (typ == "custom") != custom {
									continue
								}
								for _, p := range pfs {
									signers, issuers := c04Signers, c04Issuers
									switch p.path {
									case "bearer":
										signers = bearerSigners
									case "bearer-extra":
										signers, issuers = extraSigners, extraIssuers
									}
									for _, s := range signers {
										for _, i := range issuers {
											units = append(units, c04Unit{Cfg: k, Path: p.path, Form: p.form, Typ: typ, Signer: s, Iss: i})
										}
									}
								}
							}
						}
					}
				}
			}
		}
	}
	info = map[string]any{
		"configurations": nCfg, "key_sources": len(keySrc), "allow_unverified_email": 2, "skip_issuer_verification": 2,
		"audience_configurations": len(c04AudCfgs), "claim_name_configurations": 2,
		"entry_paths": 4, "bearer_header_forms": len(forms),
		"signers": len(c04Signers), "signers_bearer": len(bearerSigners), "signers_bearer_extra_issuer": len(extraSigners),
		"issuers": len(c04Issuers), "issuers_bearer_extra_issuer": len(extraIssuers),
		"audience_shapes": len(c04Auds), "audience_shapes_bearer_extra_issuer": len(c04Auds) + 1,
		"expiry": len(exps), "email_verified": len(evs), "claim_typings": len(typs), "units": len(units),
	}
	vunits, vinfo := c04ValueUnits(quick)
	units = append(units, vunits...)
	for k, v := range vinfo {
		info[k] = v
	}
	return units, info
}

// c04Size orders counterexamples: fewest non-default options and token features first.
func c04Size(cs *c04Case) int {
	n := 0
	for _, b := range []bool{cs.Cfg.Static, cs.Cfg.AllowU, cs.Cfg.SkipIss, cs.Cfg.AudCfg != "default", cs.Cfg.Custom, cs.Cfg.ExtraIss,
		cs.Form != "" && cs.Form != "bearer", cs.Tok.Signer != "main", cs.Tok.Iss != "ok", cs.Tok.Aud != "client", cs.Tok.Exp != "valid",
		cs.Tok.EV != "true", cs.Tok.Typ != "normal"} {
		if b {
			n += 10
		}
	}
	if c04IsDerivedAud(cs.Tok.Aud) && !strings.HasSuffix(cs.Tok.Aud, "|str") {
		n += 2
	}
	switch cs.Path {
	case "callback":
		n++
	case "bearer-extra":
		n += 2
	case "refresh":
		n += 3
	}
	return n
}

// c04ShardIndex partitions the units over the shards. Bearer units that present the same token to
// different configurations go to the same shard, so that a token is signed once per process.
func c04ShardIndex(u c04Unit, ui int) int {
	if !strings.HasPrefix(u.Path, "bearer") {
		return ui
	}
	h := fnv.New32a()
	fmt.Fprintf(h, "%s|%v|%s|%s|%s|%s", u.Cfg.AudCfg, u.Cfg.ExtraIss, u.Path, u.Typ, u.Signer, u.Iss)
	return int(h.Sum32() & 0x7fffffff)
}

func (e *c04Env) runCase(cs *c04Case, base *c04Base) (*c04Obs, error) {
	switch cs.Path {
	case "callback":
		return e.runCallback(cs.Cfg, cs.Tok)
	case "refresh":
		return e.runRefresh(cs.Cfg, cs.Tok, base), nil
	case "bearer", "bearer-extra":
		return e.runBearer(cs.Cfg, cs.Path, cs.Form, cs.Tok), nil
	}
	return nil, fmt.Errorf("unknown path %q", cs.Path)
}

func c04Run(c *Ctx) {
	if c.Shards > 1 && c.Shard == c.Shards-1 || c.Shards <= 1 {
		c04ExpirySequence(c)
	}
	c04ExtraIssuerDiscovery(c)
	units, info := c04Units(c.Quick())
	c.Info["alphabet"] = info
	e := c04NewEnv(c)
	defer e.close()
	exps, evs := c04TierAlphabet(c.Quick())
	clauses := []string{"signature", "issuer", "audience", "expiry", "email_verified"}
	if c.Shard == 0 {
		// census of the whole enumeration against the reference alone: every class the exploration
		// is meant to contain must be present on every path
		census := map[string]int{}
		for _, u := range units {
			pre := u.Path
			if u.Part != "" {
				pre = u.Part + ":" + u.Path
			}
			for _, t := range c04UnitToks(u, exps, evs) {
				v := c04Ref(u.Cfg, u.Path, u.Form, t)
				census[pre+":cases"]++
				switch {
				case v.Must == c04MustAccept:
					census[pre+":must-accept"]++
				case v.Must == c04Either:
					census[pre+":either"]++
				case v.Fails == 1:
					census[pre+":fails-only-"+v.Clause]++
				default:
					census[pre+":fails-several"]++
				}
			}
		}
		for _, p := range []string{"callback", "refresh", "bearer", "bearer-extra"} {
			// value part: look-alike audiences fail the audience clause and nothing else, the audience itself
			// passes; claim values that are strings must be adopted, the others may be
			need := []string{"audience-values:" + p + ":must-accept", "audience-values:" + p + ":fails-only-audience"}
			if p != "bearer-extra" || !c.Quick() {
				need = append(need, "claim-values:"+p+":must-accept", "claim-values:"+p+":either")
			}
			for _, n := range need {
				if census[n] == 0 {
					c.Error("vacuous: the enumeration contains no case of class %q", n)
				}
			}
			if n := census["audience-values:"+p+":fails-several"] + census["claim-values:"+p+":fails-several"] + census["claim-values:"+p+":fails-only-audience"]; n > 0 {
				c.Error("value part: %d cases on path %s fail a clause they are not about", n, p)
			}
		}
		c.Info["reference_census"] = census
		for _, p := range []string{"callback", "refresh", "bearer", "bearer-extra"} {
			need := []string{p + ":must-accept", p + ":either", p + ":fails-several"}
			for _, cl := range clauses {
				need = append(need, p+":fails-only-"+cl)
			}
			for _, n := range need {
				if census[n] == 0 {
					c.Error("vacuous: the enumeration contains no case of class %q", n)
				}
			}
		}
	}
	seen := map[string]int{}
	confirmed := map[string]int{}
	for ui, u := range units {
		if !c.Mine(c04ShardIndex(u, ui)) {
			continue
		}
		if c.Expired() {
			return
		}
		e.newIdP()
		var base *c04Base
		var baseID *c04ID
		if u.Path == "refresh" {
			var err error
			if base, err = e.refreshBase(u.Cfg); err != nil {
				c.Error("refresh fixture for cfg %+v: %v", u.Cfg, err)
				continue
			}
			baseID = &base.id
		}
		var coll c04Collisions
		for _, tok := range c04UnitToks(u, exps, evs) {
			cs := &c04Case{Cfg: u.Cfg, Path: u.Path, Form: u.Form, Tok: tok}
			v := c04Ref(cs.Cfg, cs.Path, cs.Form, cs.Tok)
			cs.Expected = v.String()
			o, err := e.runCase(cs, base)
			if err != nil {
				c.Error("fixture failed for %s: %v", cs.key(), err)
				continue
			}
			c.Inc("evaluations")
			if c04AmbiguousExtraIssuerNames > 0 {
				c.Add("ambiguous_extra_issuer_claim_names", int64(c04AmbiguousExtraIssuerNames))
				c04AmbiguousExtraIssuerNames = 0
			}
			c.Inc("path_" + cs.Path)
			switch v.Must {
			case c04MustAccept:
				c.Inc("expect_accept")
				seen[cs.Path+":expect-accept"]++
			case c04MustReject:
				c.Inc("expect_reject")
				c.Inc("expect_reject_first_clause_" + v.Clause)
				seen[cs.Path+":expect-reject"]++
			default:
				c.Inc("ambiguous")
			}
			if v.Fails <= 1 {
				// accepted tokens and tokens one clause away from acceptance: one missing check flips them
				c.Distinct("distinct_nontrivial", cs.key())
			}
			key, msg, class := c04Judge(cs, v, o, baseID)
			c04ValueCount(c, cs, v, o, class)
			if other := coll.check(c, cs, o, class); other != nil && key == "" {
				pos, _ := c04ValueOf(cs.Tok.Typ)
				sv, _ := c04SessionValue(pos, o)
				cp := *cs
				cp.Observed, cp.Other = o, other
				c.Violate(fmt.Sprintf("C04/different-claim-values-same-session-value:%s:%s", cs.Path, pos),
					fmt.Sprintf("%s: cfg %+v: the tokens %+v and %+v carry different %s claim values, both are accepted and both sessions say %q", cs.Path, cs.Cfg, *other, cs.Tok, pos, sv), c04Size(cs)+5, cp)
			}
			c.Inc("observed_" + class)
			c.Inc("observed_" + class + "_" + cs.Path)
			if v.Must == c04Either {
				c.Inc("ambiguous_observed_" + class)
			}
			seen[cs.Path+":"+class]++
			if class == "accepted" && o.ProfileCalls > 0 {
				c.Inc("accepted_with_profile_fallback")
			}
			if class == "accepted" && (cs.Tok.Typ == "email-absent" || cs.Tok.Typ == "groups-absent") && !strings.HasPrefix(cs.Path, "bearer") {
				seen["needs-profile"]++
				if o.ProfileCalls > 0 {
					seen["used-profile"]++
				}
			}
			if cs.Path == "refresh" {
				if o.Grants > 0 {
					c.Inc("refresh_grants_observed")
				} else if o.Panic == "" {
					c.Error("refresh path did not reach the provider's token endpoint: %s", cs.key())
				}
			}
			if v.Must == c04MustAccept || (v.Must == c04MustReject && v.Fails == 1 && class != "panic") {
				cp := *cs
				cp.Observed = o
				c.Sample(4, cp)
			}
			if key == "" {
				continue
			}
			cp := *cs
			cp.Observed = o
			again := func() (string, bool) {
				o2, err := e.runCase(cs, base)
				if err != nil {
					return "fixture:" + err.Error(), false
				}
				k2, _, _ := c04Judge(cs, v, o2, baseID)
				return k2, k2 != ""
			}
			size := c04Size(cs)
			// every case is counted; the re-execution (5x) is spent on the first cases of a key and
			// on every case that would become the reported (smallest) counterexample
			if old := c.Violations[key]; old != nil && confirmed[key] >= 3 && size >= old.Size {
				c.Violate(key, msg, size, cp)
				continue
			}
			confirmed[key]++
			c.confirm(key, msg, size, cp, again)
		}
	}
	// non-vacuity of the observations of this shard, relative to what its cases were expected to show
	// (a must-accept case that is not accepted is itself a violation; this guards the fixtures)
	for _, p := range []string{"callback", "refresh", "bearer", "bearer-extra"} {
		if seen[p+":expect-accept"] > 0 && seen[p+":accepted"] == 0 && len(c.Violations) == 0 {
			c.Error("vacuous: shard %d/%d expected accepted tokens on path %s but observed none", c.Shard, c.Shards, p)
		}
		if seen[p+":expect-reject"] > 0 && seen[p+":rejected"]+seen[p+":kept-old-session"]+seen[p+":panic"] == 0 {
			c.Error("vacuous: shard %d/%d expected rejected tokens on path %s but observed none", c.Shard, c.Shards, p)
		}
	}
	if seen["refresh:expect-reject"] > 0 && seen["refresh:kept-old-session"] == 0 && len(c.Violations) == 0 {
		c.Error("vacuous: shard %d/%d never saw a refresh keep the old session", c.Shard, c.Shards)
	}
	c04ValueShardGuard(c)
	if seen["needs-profile"] > 0 && seen["used-profile"] == 0 {
		c.Error("vacuous: shard %d/%d accepted tokens lacking a claim but the profile endpoint was never consulted", c.Shard, c.Shards)
	}
}

func c04Replay(c *Ctx, raw json.RawMessage) string {
	var cs c04Case
	if err := json.Unmarshal(raw, &cs); err != nil || cs.Path == "" {
		return "not a C04 case"
	}
	cs.Observed = nil
	e := c04NewEnv(c)
	defer e.close()
	var base *c04Base
	var baseID *c04ID
	if cs.Path == "refresh" {
		var err error
		if base, err = e.refreshBase(cs.Cfg); err != nil {
			return "fixture: " + err.Error()
		}
		baseID = &base.id
	}
	v := c04Ref(cs.Cfg, cs.Path, cs.Form, cs.Tok)
	o, err := e.runCase(&cs, base)
	if err != nil {
		return "fixture: " + err.Error()
	}
	key, msg, class := c04Judge(&cs, v, o, baseID)
	if key != "" {
		c.Violate(key, msg, 1, cs)
	}
	if cs.Other != nil && c04IsValueTyping(cs.Tok.Typ) && c04IsValueTyping(cs.Other.Typ) {
		// relational clause: run the other token too and compare what the two sessions say
		cs2 := cs
		cs2.Tok, cs2.Other = *cs.Other, nil
		o2, err := e.runCase(&cs2, base)
		if err != nil {
			return "fixture: " + err.Error()
		}
		pos, _ := c04ValueOf(cs.Tok.Typ)
		a, okA := c04SessionValue(pos, o)
		b, okB := c04SessionValue(pos, o2)
		if okA && okB && a == b {
			c.Violate(fmt.Sprintf("C04/different-claim-values-same-session-value:%s:%s", cs.Path, pos),
				fmt.Sprintf("tokens %+v and %+v both lead to the session value %q", cs.Tok, *cs.Other, a), 1, cs)
		}
	}
	b, _ := json.Marshal(o)
	return fmt.Sprintf("expected %s, observed %s: %s", v.String(), class, b)
}

func init() {
	register(&checkDef{
		id:    "C04",
		level: "exploration",
		rule:  "full product token{signer x issuer x audience shape x expiry x email_verified x claim typing} x configuration{key source x allow-unverified-email x skip-issuer-verification x audience configuration x claim names} x entry path{login callback, token refresh, bearer header via provider loader (3 header forms), bearer header with an extra issuer} through the real proxy and the fake identity provider; each flow is compared clause by clause with a reference model of the statement: accepted only if every clause holds, identity at the upstream and in /oauth2/userinfo equal to the token's configured claims, profile endpoint only for claims the token lacks; non-trivial = token that satisfies every clause or fails exactly one. Value part on otherwise flawless tokens: (A) every allowed audience x 26 look-alike derivations (word of a blank/tab/newline/comma/semicolon separated string, prefix, suffix, substring, truncated, other case, surrounding blanks, NUL, JSON list text, quoted, twice, URL, empty) x presentation (string, one-element list, second / first of a list, list inside a list) x audience claim (aud, custom) x entry path, reference = byte equality of one whole audience value; (B) claim values (JSON numbers up to 2^64+1, decimals, exponent forms, booleans, numeric strings, lists of them) x position (user, e-mail, groups, preferred_username; standard and custom claim names) x entry path, reference = the session field denotes exactly the claim's value, and different claim values of one JSON type never give the same session value",
		assumptions: []string{
			"open details are counted as ambiguous and cannot fail: token without exp; kid that names no published key; email_verified=false with a non-standard e-mail claim or on an extra issuer with allow-unverified-email; issuer absent while issuer verification is skipped; groups claim that is not a list of strings; bearer token without e-mail claim; token carried in a Basic header; with an extra issuer configured, a token whose audience is the other issuer's audience",
			"the claim that is not the configured audience claim always carries the opposite verdict (decoy)",
			"refresh path: the provider does not rotate refresh tokens so that one saved post-login browser state can be refreshed with every token of the alphabet; 'accepted' there means the served identity changed away from the pre-refresh one",
			"ID-token expiry is decided inside go-oidc on the real clock: probed with margins of hours (valid = +1000 h, expired = -2 h), not at the boundary",
			"nested claim path (realm.roles): both the path reading and the literal-name reading are admissible",
			"claim values that are not strings (groups: not lists of strings): the token may be refused; if it is adopted, a number may appear in any notation denoting exactly the same number (counted as ambiguous), a boolean as its JSON text, a string byte for byte; a value that is no list in the groups claim may give one group or none; equal session values for claim values of different JSON type (7 and \"7\") are counted as ambiguous",
		},
		shards: func(tier string) int { return 16 },
		run:    func(c *Ctx) { concRunFor(c, "C04"); c04Run(c) },
		post:   c04ValuePost,
		replay: func(c *Ctx, raw json.RawMessage) string {
			if out, ok := concReplayFor(c, "C04", raw); ok {
				return out
			}
			return c04Replay(c, raw)
		},
	})
}

// c04ExtraIssuerDiscovery: the verifier for an extra JWT issuer is set up at start-up from the issuer's
// discovery document; if that first attempt fails (no document, or a document that spells the issuer
// differently) the proxy falls back to the issuer's well-known key-set location. Whichever way the
// verifier came about, "whose issuer matches" still holds for the tokens it accepts: tokens signed
// by the extra issuer's key with the right audience but naming ANOTHER issuer are refused, the extra
// issuer's own tokens are accepted.
func c04ExtraIssuerDiscovery(c *Ctx) {
	if c.Shards > 1 && c.Shard != 1 {
		return
	}
	up := world.NewUpstream("c04x")
	defer up.Close()
	for _, disc := range []string{"", "404", "trailing-slash"} {
		idp := world.NewIdP()
		idp.Issuer2Discovery = disc
		px, err := buildProxy(&ProxyCfg{Flags: append(baseFlags(up.URL()), "--email-domain=*", "--cookie-secure=false", "--skip-jwt-bearer-tokens=true",
			"--extra-jwt-issuers="+world.Issuer2+"="+c04APIAud)})
		if err != nil {
			// refusing to start with an extra issuer it cannot set up is fail-closed
			c.Inc("extra_issuer_discovery_" + disc + "_startup_refused")
			continue
		}
		foreign := "https://other-tenant.example.com"
		toks := []struct {
			name   string
			spec   *world.TokenSpec
			accept int // 1 must be accepted, 0 must be refused, -1 either
		}{
			{"own issuer", &world.TokenSpec{DropNonce: true, Signer: "issuer2", Audience: c04APIAud}, 1},
			{"foreign issuer, extra issuer's key, right audience", &world.TokenSpec{DropNonce: true, Signer: "issuer2", Audience: c04APIAud, Issuer: &foreign}, 0},
			{"main issuer named, extra issuer's key", func() *world.TokenSpec {
				i := world.Issuer
				return &world.TokenSpec{DropNonce: true, Signer: "issuer2", Audience: c04APIAud, Issuer: &i}
			}(), 0},
			{"own issuer, wrong audience", &world.TokenSpec{DropNonce: true, Signer: "issuer2", Audience: "someone-else"}, 0},
			{"own issuer named, main key", func() *world.TokenSpec {
				i := world.Issuer2
				return &world.TokenSpec{DropNonce: true, Audience: c04APIAud, Issuer: &i}
			}(), 0},
		}
		if disc == "trailing-slash" {
			toks[0].accept = -1 // which spelling is "the" issuer then is not pinned down
		}
		for _, t := range toks {
			tok := idp.MintIDToken(idp.Users["alice"], t.spec)
			up.Take()
			resp := world.Serve(px.H, &world.Req{Method: "GET", Target: "/oauth2/userinfo", Host: "app.example.com", Headers: [][2]string{{"Authorization", "Bearer " + tok}}})
			c.Inc("evaluations")
			c.Inc("extra_issuer_discovery_cases")
			accepted := resp.Status == 200
			cs := map[string]any{"kind": "extra-issuer-discovery", "discovery": disc, "token": t.name, "status": resp.Status}
			switch {
			case resp.Panic != nil:
				c.Violate(c04PanicKey(resp.PanicSite()), fmt.Sprintf("extra issuer (discovery %q), token %q: panic %v", disc, t.name, resp.Panic), 5, cs)
			case t.accept == 0 && accepted:
				c.Violate("C04/invalid-token-accepted:bearer-extra:issuer-after-failed-discovery", fmt.Sprintf("extra JWT issuer %s whose discovery answers %q at start-up: a bearer token [%s] is accepted (user-info 200 %s)", world.Issuer2, disc, t.name, c04Clip(resp.Body)), 5, cs)
			case t.accept == 1 && !accepted:
				c.Violate("C04/valid-token-rejected:bearer-extra:after-failed-discovery", fmt.Sprintf("extra JWT issuer %s whose discovery answers %q at start-up: its own token is refused (status %d)", world.Issuer2, disc, resp.Status), 5, cs)
			default:
				c.Inc("extra_issuer_discovery_as_expected")
			}
		}
	}
	world.NewIdP()
}

func c04Clip(s string) string {
	if len(s) > 160 {
		return s[:160] + "…"
	}
	return s
}
