//go:build verif

package main

import (
	"encoding/base64"
	"encoding/json"
	"fmt"
	"net/url"
	"os"
	"strings"

	"github.com/oauth2-proxy/oauth2-proxy/v7/pkg/apis/options"
	"github.com/oauth2-proxy/oauth2-proxy/v7/verifx/world"
)

// C19 — no request can crash request handling (PROD): grammar-enumerated requests (all single
// field choices and all pairs) x a configuration sweep; oracle: no panic escapes ServeHTTP.

type c19Config struct {
	Name   string
	Flags  []string
	Redis  bool
	Claim  string // injected as request and response header
	Htpw   bool
	Bearer bool
}

func c19Configs() []c19Config {
	var out []c19Config
	claims := []string{"user", "email", "groups", "preferred_username", "access_token", "id_token", "refresh_token", "created_at", "expires_on", "no_such_claim"}
	for _, cl := range claims {
		out = append(out, c19Config{Name: "claim-" + cl, Claim: cl, Htpw: true, Bearer: true})
	}
	out = append(out,
		c19Config{Name: "redis", Redis: true, Htpw: true, Bearer: true},
		c19Config{Name: "redis-claims", Redis: true, Claim: "created_at", Htpw: true, Bearer: true},
		c19Config{Name: "csrf-per-request", Flags: []string{"--cookie-csrf-per-request=true", "--cookie-csrf-expire=5m"}},
		c19Config{Name: "encode-state", Flags: []string{"--encode-state=true"}},
		c19Config{Name: "encode-state-csrf-per-request", Flags: []string{"--encode-state=true", "--cookie-csrf-per-request=true"}},
		c19Config{Name: "skip-provider-button", Flags: []string{"--skip-provider-button=true", "--code-challenge-method=S256"}},
		c19Config{Name: "skip-auth", Flags: []string{"--skip-auth-route=GET=^/app", "--skip-auth-regex=^/pub", "--skip-auth-preflight=true"}, Claim: "email"},
		c19Config{Name: "api-routes-json", Flags: []string{"--api-route=^/app", "--force-json-errors=true"}},
		c19Config{Name: "trusted-ip", Flags: []string{"--trusted-ip=192.0.2.0/24", "--trusted-ip=fd00::/64"}, Claim: "user"},
		c19Config{Name: "whitelist", Flags: []string{"--whitelist-domain=.example.com", "--whitelist-domain=other.test:*", "--cookie-domain=.example.com", "--cookie-domain=app.example.com"}},
		c19Config{Name: "legacy-headers", Flags: []string{"--pass-basic-auth=true", "--basic-auth-password=pw", "--pass-access-token=true", "--set-xauthrequest=true", "--set-authorization-header=true", "--prefer-email-to-user=true"}, Htpw: true, Bearer: true},
		c19Config{Name: "legacy-headers-2", Flags: []string{"--pass-authorization-header=true", "--pass-basic-auth=false", "--pass-user-headers=false", "--set-basic-auth=true", "--basic-auth-password=pw", "--skip-auth-strip-headers=false"}, Htpw: true, Bearer: true},
		c19Config{Name: "cookie-name-meta", Flags: []string{"--cookie-name=app.sess+ion"}},
		c19Config{Name: "cookie-name-long", Flags: []string{"--cookie-name=" + strings.Repeat("n", 200)}},
		c19Config{Name: "cookie-name-256", Flags: []string{"--cookie-name=" + strings.Repeat("n", 256)}},
		c19Config{Name: "cookie-name-star", Flags: []string{"--cookie-name=a**b"}},
		c19Config{Name: "cookie-name-tokens", Flags: []string{"--cookie-name=a|b^c$d`e~f!g#h%i&j'k"}},
		c19Config{Name: "cookie-name-star-redis", Flags: []string{"--cookie-name=x+*y"}, Redis: true},
		c19Config{Name: "allow-semicolons", Flags: []string{"--allow-query-semicolons=true"}},
		c19Config{Name: "no-websockets", Flags: []string{"--proxy-websockets=false", "--skip-auth-route=^/pub"}, Htpw: true},
		c19Config{Name: "no-websockets-flush", Flags: []string{"--proxy-websockets=false", "--flush-interval=100ms", "--pass-host-header=false"}},
		c19Config{Name: "groups-emails", Flags: []string{"--allowed-group=staff"}, Htpw: true, Bearer: true},
	)
	for _, h := range []string{"X-Forwarded-For", "X-Real-IP", "X-ProxyUser-IP", "X-Envoy-External-Address", "CF-Connecting-IP"} {
		out = append(out, c19Config{Name: "reverse-proxy-" + h, Flags: []string{"--reverse-proxy=true", "--real-client-ip-header=" + h, "--trusted-ip=10.0.0.0/8", "--whitelist-domain=.example.com"}})
	}
	return out
}

func c19Build(cfg c19Config, up *world.Upstream) (*Proxy, string) {
	flags := append(baseFlags(up.URL()), "--email-domain=*", "--cookie-secure=false", "--cookie-refresh=0")
	flags = append(flags, cfg.Flags...)
	htfile := ""
	if cfg.Htpw {
		htfile = writeHtpasswd(map[string]string{"hugo": "pw1"})
		flags = append(flags, "--htpasswd-file="+htfile, "--display-htpasswd-form=true")
	}
	if cfg.Bearer {
		flags = append(flags, "--skip-jwt-bearer-tokens=true")
	}
	pc := &ProxyCfg{Flags: flags}
	if cfg.Redis {
		pc.Redis = world.NewRedis()
	}
	if cfg.Claim != "" {
		pc.Mutate = func(o *options.Options) {
			hv := []options.HeaderValue{{ClaimSource: &options.ClaimSource{Claim: cfg.Claim}}}
			o.InjectRequestHeaders = append(o.InjectRequestHeaders, options.Header{Name: "X-Verif-Claim", Values: hv})
			o.InjectResponseHeaders = append(o.InjectResponseHeaders, options.Header{Name: "X-Verif-Claim", Values: hv})
		}
	}
	return mustProxy(pc), htfile
}

// c19WhitelistEdges: host[:port] forms on the boundary of each whitelist entry (of a stock wildcard
// entry when the operator configured none).
func c19WhitelistEdges(entries []string) []string {
	if len(entries) == 0 {
		entries = []string{".example.com"}
	}
	seen := map[string]bool{}
	var out []string
	add := func(h string) {
		if h != "" && !seen[h] {
			seen[h] = true
			out = append(out, h)
		}
	}
	for _, w := range entries {
		host, port := w, ""
		if i := strings.LastIndexByte(w, ':'); i >= 0 && !strings.Contains(w[i:], "]") {
			host, port = w[:i], w[i+1:]
		}
		bare := strings.TrimPrefix(strings.TrimPrefix(host, "*"), ".")
		add(host)
		add("." + bare)
		add(bare)
		add(".." + bare)
		add("x." + bare)
		add("*." + bare)
		add(bare + ".")
		add(bare + ":")
		add(bare + ":0")
		add("." + bare + ":8080")
		if port != "" {
			add(bare + ":*")
			add(bare + ":65536")
		}
	}
	return out
}

type c19Alt struct {
	Name string
	// apply edits the request description
	Apply func(r *world.Req)
}

type c19Field struct {
	Name string
	Alts []c19Alt
}

func setHeader(name, val string) func(r *world.Req) {
	return func(r *world.Req) { r.Headers = append(r.Headers, [2]string{name, val}) }
}

func c19Fields(px *Proxy, idp *world.IdP, validCookie string, csrfCookie, goodState string, carried [][2]string) []c19Field {
	name := px.Opts.Cookie.Name
	prefix := px.Opts.ProxyPrefix
	tgt := func(t string) c19Alt {
		return c19Alt{Name: "target=" + clip(t), Apply: func(r *world.Req) { r.Target = t }}
	}
	var targets []c19Alt
	for _, t := range []string{
		"/app/x?a=1", "/", "/pub", "http://app.example.com/app/abs?x=1", "/?" + strings.Repeat("q", 8000), "/a;b?c;d", "//double//slash", "/app/%2e%2e/%2F",
		"/app?" + strings.Repeat("a=1&", 300), "/app/?x=%zz", "/app/%zz",
		prefix + "/start?rd=%2Fapp", prefix + "/start?rd=http://evil.example/", prefix + "/start?rd=" + strings.Repeat("%0A", 50),
		prefix + "/sign_in", prefix + "/sign_in?rd=//evil", prefix + "/sign_out?rd=/x", prefix + "/sign_out?rd=%00",
		prefix + "/auth", prefix + "/auth?allowed_groups=a,,b&allowed_emails=,&allowed_email_domains=*.x,.y,z:*",
		prefix + "/auth?allowed_email_domains=%5B%3A%3A1%5D&allowed_email_domains=a:b:c",
		prefix + "/userinfo", prefix + "/static/css/bulma.min.css", prefix + "/static/../../etc", prefix + "/nosuch", "/robots.txt", "/ping", "/ready",
		prefix + "/callback", prefix + "/callback?error=%25s%25d%25!v", prefix + "/callback?code=c&state=",
		prefix + "/callback?code=c&state=nocolon", prefix + "/callback?code=c&state=:", prefix + "/callback?code=c&state=:/x",
		prefix + "/callback?code=c&state=1234567:/x", prefix + "/callback?code=c&state=12345678:/x", prefix + "/callback?code=c&state=123456789:/x",
		prefix + "/callback?code=c&state=" + url.QueryEscape(goodState), prefix + "/callback?state=" + url.QueryEscape(goodState),
		prefix + "/callback?code=&state=" + url.QueryEscape(goodState), prefix + "/callback?code=c&state=!!!notbase64!!!",
		prefix + "/callback?code=c&state=" + base64.RawURLEncoding.EncodeToString([]byte("nocolonhere")),
		prefix + "/callback?code=c&state=" + base64.RawURLEncoding.EncodeToString([]byte(":")),
		prefix + "/callback?code=c;state=x", prefix + "/callback?%zz=1&state=a:b",
	} {
		targets = append(targets, tgt(t))
	}
	// redirect hosts at the edges of what the operator whitelisted: the entry itself as a host, without
	// and with a further leading dot, with an empty / zero / wildcard port
	edges := c19WhitelistEdges(px.Opts.WhitelistDomains)
	for i, h := range edges {
		targets = append(targets, tgt(prefix+"/sign_out?rd="+url.QueryEscape("http://"+h+"/x")))
		if i%3 == 0 {
			targets = append(targets, tgt(prefix+"/start?rd="+url.QueryEscape("https://"+h+"/")), tgt(prefix+"/sign_in?rd="+url.QueryEscape("//"+h)))
		}
	}
	targets = append(targets, c19Alt{Name: "target=*", Apply: func(r *world.Req) { r.Target = "*"; r.Method = "OPTIONS" }})
	// whole requests that create a session by themselves (the sign-in form posted with good / bad
	// credentials): one choice, so that every pair with a Cookie / Authorization / header choice is enumerated
	for _, f := range [][2]string{{"form-login(good)", "username=hugo&password=pw1&rd=%2Fapp"}, {"form-login(bad)", "username=hugo&password=nope"}} {
		f := f
		targets = append(targets, c19Alt{Name: "target=" + f[0], Apply: func(r *world.Req) {
			r.Target, r.Method, r.Body = prefix+"/sign_in", "POST", f[1]
			r.Headers = append(r.Headers, [2]string{"Content-Type", "application/x-www-form-urlencoded"})
		}})
	}

	var methods []c19Alt
	for _, m := range []string{"GET", "POST", "OPTIONS", "HEAD", "PUT", "get", "PROPFIND", "CONNECT"} {
		m := m
		methods = append(methods, c19Alt{Name: "method=" + m, Apply: func(r *world.Req) {
			if r.Target != "*" {
				r.Method = m
			}
		}})
	}

	ck := func(label, v string) c19Alt { return c19Alt{Name: "cookie=" + label, Apply: setHeader("Cookie", v)} }
	cookies := []c19Alt{{Name: "cookie=absent", Apply: func(r *world.Req) {}}}
	val := strings.TrimPrefix(validCookie, name+"=")
	cookies = append(cookies, ck("valid", validCookie))
	if len(val) > 0 {
		// every mutation class at 16 evenly spread positions
		for i := 0; i < 16; i++ {
			pos := i * (len(val) - 1) / 15
			for _, cl := range mutClasses {
				if m, ok := substituteAt(val, pos, cl); ok {
					cookies = append(cookies, ck(fmt.Sprintf("subst@%d:%s", pos, cl), name+"="+m))
				}
			}
		}
		for _, l := range []int{0, 1, 2, 11, 12, 13, 27, 28, 29, len(val) / 2, len(val) - 1} {
			if l >= 0 && l < len(val) {
				cookies = append(cookies, ck(fmt.Sprintf("trunc@%d", l), name+"="+val[:l]))
			}
		}
		parts := strings.Split(val, "|")
		if len(parts) == 3 {
			cookies = append(cookies,
				ck("ts-nonnumeric", name+"="+parts[0]+"|12ab|"+parts[2]),
				ck("ts-overflow", name+"="+parts[0]+"|99999999999999999999999|"+parts[2]),
				ck("ts-negative", name+"="+parts[0]+"|-1|"+parts[2]),
				ck("ts-empty", name+"="+parts[0]+"||"+parts[2]),
				ck("sig-empty", name+"="+parts[0]+"|"+parts[1]+"|"),
				ck("value-empty", name+"=|"+parts[1]+"|"+parts[2]),
			)
		}
	}
	cookies = append(cookies,
		ck("0-fields", name+"=x"), ck("1-field", name+"=a|b"), ck("3-fields", name+"=a|b|c"), ck("4-fields", name+"=a|b|c|d"),
		ck("empty", name+"="), ck("only-seps", name+"=||"), ck("b64-short", name+"=QQ==|1|QQ=="), ck("b64-1byte", name+"=QQ==|"+fmt.Sprint(world.Now().Unix())+"|QQ=="),
		ck("quoted", name+`="a|b|c"`), ck("dup", validCookie+"; "+validCookie),
		ck("csrf-under-session-name", name+"="+strings.TrimPrefix(csrfCookie, name+"_csrf=")),
		ck("session-under-csrf-name", name+"_csrf="+val),
		ck("csrf-garbage", name+"_csrf=zzz|1|zzz"), ck("csrf-valid", csrfCookie), ck("csrf-empty", name+"_csrf="),
		ck("ticket-v2-garbage", name+"=djIuWC5Z|1|x"),
	)
	// cookies an earlier response of ANOTHER session source (or another user's login) left in the browser
	for _, cv := range carried {
		cookies = append(cookies, ck(cv[0], cv[1]))
	}
	{
		var b []string
		for i := 0; i < 50; i++ {
			b = append(b, fmt.Sprintf("%s_%d=part%d", name, i, i))
		}
		cookies = append(cookies, ck("50-parts", strings.Join(b, "; ")))
		cookies = append(cookies, ck("parts-with-gap", name+"_0=a; "+name+"_2=c; "+name+"_5=f"))
		cookies = append(cookies, ck("parts-of-valid", name+"_0="+val[:len(val)/2]+"; "+name+"_1="+val[len(val)/2:]))
		cookies = append(cookies, ck("part-1-only", name+"_1="+val))
	}

	au := func(label, v string) c19Alt {
		return c19Alt{Name: "authz=" + label, Apply: setHeader("Authorization", v)}
	}
	authz := []c19Alt{{Name: "authz=absent", Apply: func(r *world.Req) {}}}
	jwt := idp.MintIDToken(idp.Users["alice"], nil)
	full := "Bearer " + jwt
	authz = append(authz, au("bearer-valid", full), au("basic-valid", basicAuth("hugo", "pw1")), au("basic-wrong", basicAuth("hugo", "nope")))
	// every prefix/suffix split at separators
	for i := 0; i < len(full); i++ {
		if full[i] == ' ' || full[i] == '.' {
			authz = append(authz, au(fmt.Sprintf("prefix@%d", i), full[:i]), au(fmt.Sprintf("prefix@%d+1", i), full[:i+1]), au(fmt.Sprintf("suffix@%d", i), full[i:]))
		}
	}
	authz = append(authz,
		au("bearer-empty", "Bearer "), au("bearer-only", "Bearer"), au("basic-only", "Basic"), au("basic-badb64", "Basic !!!"),
		au("basic-nocolon", "Basic "+b64Std([]byte("nocolon"))), au("basic-emptyuser", "Basic "+b64Std([]byte(":pw"))),
		au("basic-jwt-user", "Basic "+b64Std([]byte(jwt+":x-oauth-basic"))), au("basic-jwt-pass", "Basic "+b64Std([]byte("x:"+jwt))),
		au("three-words", "Bearer a b"), au("64k", "Bearer "+strings.Repeat("A", 65536)), au("lower", "bearer "+jwt), au("dots", "Bearer ..."),
		au("two-dots-b64", "Bearer e30.e30.e30"), au("hdr-not-json", "Bearer "+base64.RawURLEncoding.EncodeToString([]byte("[1]"))+".e30.x"),
		au("claims-array", "Bearer "+world.SignJWT(map[string]any{"iss": world.Issuer, "aud": []any{1, 2}, "exp": "x"}, "main")),
		au("bearer-expired", "Bearer "+idp.MintIDToken(idp.Users["alice"], &world.TokenSpec{Expiry: "expired"})),
		au("bearer-no-email", "Bearer "+idp.MintIDToken(&world.User{Sub: "s"}, nil)),
		au("bearer-groups-obj", "Bearer "+idp.MintIDToken(&world.User{Sub: "s", Email: "e@x.y", Groups: map[string]any{"a": 1}}, nil)),
	)

	fw := []c19Alt{{Name: "fwd=absent", Apply: func(r *world.Req) {}}}
	for _, h := range []string{"X-Forwarded-For", "X-Real-IP", "X-ProxyUser-IP", "X-Envoy-External-Address", "CF-Connecting-IP"} {
		for _, v := range []string{"garbage", "999.1.1.1", "10.1.2.3", "10.1.2.3, 1.1.1.1", ",", " ", "[::1]:80", "::ffff:10.0.0.1", "10.0.0.1:99999", "fe80::1%eth0"} {
			fw = append(fw, c19Alt{Name: "fwd=" + h + ":" + v, Apply: setHeader(h, v)})
		}
	}
	// protocol-upgrade handshakes (several header lines at once)
	for _, up := range [][][2]string{
		{{"Connection", "Upgrade"}, {"Upgrade", "websocket"}, {"Sec-WebSocket-Version", "13"}, {"Sec-WebSocket-Key", "dGhlIHNhbXBsZSBub25jZQ=="}},
		{{"Connection", "keep-alive, Upgrade"}, {"Upgrade", "WebSocket"}},
		{{"Connection", "upgrade"}, {"Upgrade", "h2c"}, {"HTTP2-Settings", "AAMAAABkAAQCAAAAAAIAAAAA"}},
		{{"Upgrade", "websocket"}},
		{{"Connection", "Upgrade"}},
	} {
		up := up
		fw = append(fw, c19Alt{Name: "fwd=upgrade:" + up[0][1] + "/" + up[len(up)-1][1], Apply: func(r *world.Req) { r.Headers = append(r.Headers, up...) }})
	}
	for _, hv := range [][2]string{
		{"X-Forwarded-Host", "evil.example"}, {"X-Forwarded-Host", "a b"}, {"X-Forwarded-Host", ""}, {"X-Forwarded-Host", strings.Repeat("h", 5000)},
		{"X-Forwarded-Proto", "javascript"}, {"X-Forwarded-Proto", ""}, {"X-Forwarded-Uri", "%zz"}, {"X-Forwarded-Uri", "no-slash"}, {"X-Forwarded-Uri", "/app?x=%zz"},
		{"X-Forwarded-Uri", "://"}, {"X-Auth-Request-Redirect", "//evil"}, {"X-Auth-Request-Redirect", "%zz"}, {"X-Auth-Request-Redirect", "http://[::1"},
		{"Forwarded", "for=1.2.3.4;host=x"}, {"X-Request-Id", strings.Repeat("r", 3000)},
	} {
		fw = append(fw, c19Alt{Name: "fwd=" + hv[0] + ":" + clip(hv[1]), Apply: setHeader(hv[0], hv[1])})
	}
	for i, h := range edges {
		if i%2 == 0 {
			fw = append(fw, c19Alt{Name: "fwd=X-Auth-Request-Redirect:http://" + clip(h), Apply: setHeader("X-Auth-Request-Redirect", "http://"+h+"/")})
		}
	}

	hosts := []c19Alt{}
	for _, h := range []string{"app.example.com", "app.example.com:8080", "[::1]", "[::1]:443", "a..b", "EXAMPLE.com.", strings.Repeat("h", 300) + ".example.com", "xn--n3h.example.com", "1.2.3.4"} {
		h := h
		hosts = append(hosts, c19Alt{Name: "host=" + clip(h), Apply: func(r *world.Req) { r.Host = h }})
	}
	hosts = append(hosts, c19Alt{Name: "host=missing-http10", Apply: func(r *world.Req) {
		r.RawHead = fmt.Sprintf("%s %s HTTP/1.0\r\n", r.Method, r.Target)
		for _, h := range r.Headers {
			r.RawHead += h[0] + ": " + h[1] + "\r\n"
		}
		if r.Body != "" {
			r.RawHead += fmt.Sprintf("Content-Length: %d\r\n", len(r.Body))
		}
		r.RawHead += "\r\n"
	}})

	bodies := []c19Alt{{Name: "body=none", Apply: func(r *world.Req) {}}}
	form := func(label, ctype, body string) c19Alt {
		return c19Alt{Name: "body=" + label, Apply: func(r *world.Req) {
			r.Headers = append(r.Headers, [2]string{"Content-Type", ctype})
			r.Body = body
		}}
	}
	bodies = append(bodies,
		form("login-good", "application/x-www-form-urlencoded", "username=hugo&password=pw1&rd=%2Fapp"),
		form("login-bad", "application/x-www-form-urlencoded", "username=hugo&password=x"),
		form("login-nouser", "application/x-www-form-urlencoded", "password=x&rd=//evil"),
		form("bad-escape", "application/x-www-form-urlencoded", "username=%zz&state=%"),
		form("semicolons", "application/x-www-form-urlencoded", "a=1;b=2;state=x:y"),
		form("state-in-body", "application/x-www-form-urlencoded", "state="+url.QueryEscape(goodState)+"&code=c"),
		form("multipart", "multipart/form-data; boundary=XX", "--XX\r\nContent-Disposition: form-data; name=\"username\"\r\n\r\nhugo\r\n--XX--\r\n"),
		form("multipart-broken", "multipart/form-data; boundary=XX", "--XX\r\nContent-Dispo"),
		form("multipart-nob", "multipart/form-data", "x"),
		form("json", "application/json", `{"username":"hugo"}`),
		form("big", "application/x-www-form-urlencoded", "username="+strings.Repeat("u", 100000)),
		c19Alt{Name: "body=short-content-length", Apply: func(r *world.Req) {
			r.Headers = append(r.Headers, [2]string{"Content-Type", "application/x-www-form-urlencoded"}, [2]string{"Content-Length", "500"})
			r.Body = "username=hugo"
		}},
		c19Alt{Name: "body=chunked-broken", Apply: func(r *world.Req) {
			r.Headers = append(r.Headers, [2]string{"Content-Type", "application/x-www-form-urlencoded"}, [2]string{"Transfer-Encoding", "chunked"})
			r.Body = "5\r\nusern\r\nZZ\r\n"
		}},
	)

	accept := []c19Alt{
		{Name: "accept=html", Apply: setHeader("Accept", "text/html")},
		{Name: "accept=json", Apply: setHeader("Accept", "application/json")},
		{Name: "accept=list", Apply: setHeader("Accept", " , application/json ,,")},
		{Name: "accept=none", Apply: func(r *world.Req) {}},
	}
	return []c19Field{{"target", targets}, {"method", methods}, {"cookie", cookies}, {"authz", authz}, {"fwd", fw}, {"host", hosts}, {"body", bodies}, {"accept", accept}}
}

// c19PartOn: VERIF_C19_PART=peer|carry|grammar restricts a run to one part (development aid; the
// check runs all of them).
func c19PartOn(name string) bool {
	p := os.Getenv("VERIF_C19_PART")
	return p == "" || p == name
}

func clip(s string) string {
	if len(s) > 48 {
		return s[:45] + "..."
	}
	return s
}

type c19Case struct {
	Config string   `json:"config"`
	Alts   []string `json:"non_default_choices"`
	Panic  string   `json:"panic,omitempty"`
	Site   string   `json:"site,omitempty"`
	Status int      `json:"status"`
}

func c19Run(c *Ctx, cfg c19Config, px *Proxy, fields []c19Field, choice []int, up *world.Upstream) {
	r := &world.Req{Method: "GET", Target: "/app/x?a=1", Host: "app.example.com"}
	var names []string
	for fi, f := range fields {
		a := f.Alts[choice[fi]]
		if choice[fi] != 0 {
			names = append(names, a.Name)
		}
	}
	// target and method first, raw-head host rewrite last
	order := []int{0, 1, 2, 3, 4, 6, 7, 5}
	for _, fi := range order {
		fields[fi].Alts[choice[fi]].Apply(r)
	}
	resp := world.Serve(px.H, r)
	c.Inc("evaluations")
	if resp.ParseErr != nil {
		c.Inc("rejected_by_http_parser")
		return
	}
	cs := c19Case{Config: cfg.Name, Alts: names, Status: resp.Status}
	c.Distinct("distinct_nontrivial", fmt.Sprintf("%s|%d|%v", cfg.Name, resp.Status, names))
	c.Distinct("distinct_outcomes", fmt.Sprintf("%s|%d|%v", cfg.Name, resp.Status, resp.Panic != nil))
	if choice[0] > 0 && fields[0].Alts[choice[0]].Name == "target=form-login(good)" && resp.Status == 302 {
		c.Inc("grammar_form_logins_accepted")
		if choice[2] > 0 && strings.HasPrefix(fields[2].Alts[choice[2]].Name, "cookie=carried:") {
			c.Inc("grammar_form_logins_accepted_while_carrying_another_session")
		}
	}
	if resp.Panic != nil {
		site := resp.PanicSite()
		cs.Panic = fmt.Sprint(resp.Panic)
		cs.Site = site
		c.Violate("C19/panic@"+site, fmt.Sprintf("config %s, request %v: panic: %v", cfg.Name, names, resp.Panic), len(names), cs)
		return
	}
	if resp.Status < 200 || resp.Status > 599 {
		c.Violate("C19/no-response", fmt.Sprintf("config %s, request %v: status %d", cfg.Name, names, resp.Status), len(names), cs)
	}
	c.Sample(3, cs)
}

func init() {
	register(&checkDef{
		id:    "C19",
		level: "exploration",
		rule: "three parts. (1) grammar: 8 fields (target incl. callback state/code/error shapes and whole sign-in-form posts, method, Cookie incl. every mutation class at 16 positions and the cookies another session source / another user's login left behind, Authorization incl. every separator split of a valid bearer, forwarding headers, Host, body, Accept); every single choice and every pair of choices (thorough: also triples on the cookie/authz/target fields) per configuration. " +
			"(2) peer: configuration (every option that makes request handling call out: backend logout with/without {id_token}, refresh, profile/validate URLs, extra issuers; every provider implementation pointed at the world) x scenario (session source x endpoint, fresh/stale session) x call position inside the request x answer kind (transport failures, error statuses, 200 body shapes, every place of the well-formed JSON answer x every other JSON type, every ID-/access-token claim x every other JSON type, malformed tokens; store: error before/after, missing, corrupted value): single deviations, the same deviation for every later call, thorough: pairs. " +
			"(3) carry: one browser's request histories up to depth 3 (quick: middle operation from the modifiers; thorough: all, and depth 4) over 17 operations (OAuth login of two users, form login of two users / bad password, page, bearer, basic, auth, userinfo, sign-out, sign-in page, start only, callback again, clock past refresh period / cookie lifetime, store loses everything) x 2 client cookie policies (RFC 6265 jar, never forgets) x 9 configurations (both stores). " +
			"recover() directly around ServeHTTP in all parts; distinct_nontrivial = distinct (config, status, choice-set) that reached the handler + peer cases whose deviation was delivered + histories that created or carried a session",
		assumptions: []string{"requests the net/http parser rejects never reach request handling and are counted separately",
			"peer part: a request that is still calling after 24 calls finds the peer gone (paginated listings whose every page is non-empty); hanging peers are not part of the alphabet (no wall-clock oracle)", "coverage-guided mutation named in the quantifier is a different technique family and is not used"},
		shards: func(tier string) int { return 16 },
		run: func(c *Ctx) {
			up := world.NewUpstream("u")
			defer up.Close()
			// the parts with a failing peer and with cookies carried from one session source to the
			// next build their own worlds; the grammar product below starts from a fresh provider
			if c19PartOn("peer") {
				c19PeerPart(c, up)
			}
			if c19PartOn("carry") {
				c19CarryPart(c, up)
			}
			if !c19PartOn("grammar") {
				return
			}
			world.ResetClock()
			world.SeedRandom(c.Seed, 0)
			idp := world.NewIdP()
			cfgs := c19Configs()
			c.Info["configurations"] = len(cfgs)
			for ci, cfg := range cfgs {
				if c.Expired() {
					return
				}
				px, htfile := c19Build(cfg, up)
				_ = htfile
				b := newBrowser(px, "http", "app.example.com")
				resp, _, err := b.Login(idp, "alice", "/app")
				if err != nil || resp.Status != 302 {
					c.Error("config %s: login failed: %v status %d", cfg.Name, err, resp.Status)
					continue
				}
				valid := b.Jar.Header("http", "app.example.com", "/")
				// an outstanding login for the CSRF cookie and a good state
				b2 := newBrowser(px, "http", "app.example.com")
				_, loginURL, err := b2.Start("/app")
				if err != nil {
					c.Error("config %s: start failed: %v", cfg.Name, err)
					continue
				}
				lu, _ := url.Parse(loginURL)
				goodState := lu.Query().Get("state")
				csrf := b2.Jar.Header("http", "app.example.com", "/")
				var carried [][2]string
				if cfg.Htpw {
					b3 := newBrowser(px, "http", "app.example.com")
					if r := b3.PostForm(px.Opts.ProxyPrefix+"/sign_in", url.Values{"username": {"hugo"}, "password": {"pw1"}}); r.Status == 302 {
						carried = append(carried, [2]string{"carried:form-login-session", b3.Jar.Header("http", "app.example.com", "/")})
					} else if c.Mine(ci) {
						// (a configuration whose group restriction keeps htpasswd users out)
						c.Inc("grammar_configurations_refusing_the_form_login")
					}
				}
				b4 := newBrowser(px, "http", "app.example.com")
				if r, _, err := b4.Login(idp, "bob", "/app"); err == nil && r.Status == 302 {
					carried = append(carried, [2]string{"carried:other-user-session", b4.Jar.Header("http", "app.example.com", "/")})
				}
				carried = append(carried, [2]string{"carried:session+outstanding-login", valid + "; " + csrf})
				fields := c19Fields(px, idp, valid, csrf, goodState, carried)
				if ci == 0 {
					sizes := map[string]int{}
					for _, f := range fields {
						sizes[f.Name] = len(f.Alts)
					}
					c.Info["field_alternatives"] = sizes
				}
				n := 0
				choice := make([]int, len(fields))
				// all singles
				for fi, f := range fields {
					for ai := range f.Alts {
						n++
						if !c.Mine(n) {
							continue
						}
						for k := range choice {
							choice[k] = 0
						}
						choice[fi] = ai
						c19Run(c, cfg, px, fields, choice, up)
					}
				}
				// all pairs
				for fi := 0; fi < len(fields); fi++ {
					for fj := fi + 1; fj < len(fields); fj++ {
						if c.Quick() && ci%4 != (fi+fj)%4 && fields[fi].Name != "target" && fields[fj].Name != "cookie" {
							// quick: every pair of fields is covered in a quarter of the configurations,
							// pairs involving target or cookie in all of them
							continue
						}
						for ai := 1; ai < len(fields[fi].Alts); ai++ {
							for aj := 1; aj < len(fields[fj].Alts); aj++ {
								n++
								if !c.Mine(n) {
									continue
								}
								for k := range choice {
									choice[k] = 0
								}
								choice[fi], choice[fj] = ai, aj
								c19Run(c, cfg, px, fields, choice, up)
							}
						}
					}
					if c.Expired() {
						return
					}
				}
				// thorough: all triples over target x cookie x authz (the three fields that select the
				// session source and the handler)
				if !c.Quick() {
					ft, fc, fa := 0, 2, 3
					for at := 1; at < len(fields[ft].Alts); at++ {
						for ac := 1; ac < len(fields[fc].Alts); ac++ {
							for aa := 1; aa < len(fields[fa].Alts); aa++ {
								n++
								if !c.Mine(n) {
									continue
								}
								for k := range choice {
									choice[k] = 0
								}
								choice[ft], choice[fc], choice[fa] = at, ac, aa
								c19Run(c, cfg, px, fields, choice, up)
							}
						}
						if c.Expired() {
							return
						}
					}
				}
				if px.Redis != nil {
					px.Redis.Close()
				}
				up.Take()
			}
		},
		post: func(c *Ctx) {
			if c19PartOn("peer") {
				c19PeerPost(c)
			}
			if c19PartOn("carry") {
				c19CarryPost(c)
			}
			if c19PartOn("grammar") {
				for _, k := range []string{"grammar_form_logins_accepted", "grammar_form_logins_accepted_while_carrying_another_session"} {
					if c.Counters[k] == 0 {
						c.Error("C19 grammar part: counter %s is 0 (the sign-in form was never posted successfully / never with a carried cookie)", k)
					}
				}
			}
		},
		replay: func(c *Ctx, raw json.RawMessage) string {
			return "replay by re-running the check; the case lists the configuration name and the non-default field choices"
		},
	})
}
