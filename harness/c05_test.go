//go:build verif

package main

// C05 — nonce and PKCE bind the token response to this login's authorization request (SEQ).
//
// Breadth-first search over login histories in ONE browser: operations start(i), authorize(i)
// and callback(i, identity-provider nonce behaviour), up to 2 (thorough: 3) logins in every
// order (sequential and overlapping), for every configuration of code-challenge method x
// skip-nonce x csrf-per-request. Every state is reached by replaying its history on a fresh
// world through the real handlers. The oracle is written from the property statement:
//   * a callback yields a session (without skip-nonce) only if the nonce claim the provider put
//     into the ID token equals the nonce parameter of THAT login's authorization request,
//   * with a code-challenge method every authorization request carries one challenge of that
//     method, derived (RFC 7636) from a syntactically valid verifier that no other login of the
//     history uses, and exactly that verifier reaches the token endpoint with that login's code,
//   * the raw OAuth state nonce, the raw OIDC nonce and (S256) the verifier — read from the
//     decrypted CSRF cookie through an export helper — occur nowhere in the bytes sent to the
//     browser, raw or after base64 / base64url / hex / percent / HTML-entity decoding.

import (
	"bytes"
	"crypto/sha256"
	"encoding/base64"
	"encoding/hex"
	"encoding/json"
	"fmt"
	"html"
	"net/http"
	"net/url"
	"os"
	"regexp"
	"sort"
	"strings"
	"time"

	"github.com/oauth2-proxy/oauth2-proxy/v7/pkg/cookies"
	"github.com/oauth2-proxy/oauth2-proxy/v7/verifx/world"
)

// ---------------------------------------------------------------------------------------------
// configurations, bounds, operations

type c05Cfg struct {
	Method      string `json:"code_challenge_method"` // "", "S256", "plain"
	SkipNonce   bool   `json:"skip_nonce"`
	PerRequest  bool   `json:"csrf_per_request"`
	Entry       string `json:"entry"` // "start": /oauth2/start; "page": protected page with skip-provider-button
	EncodeState bool   `json:"encode_state,omitempty"`
	// Advertise: which code-challenge methods the provider's discovery document lists
	// ("" = S256 and plain, "plain" = plain only, "none" = none). The configured method is the
	// operator's choice; what the provider advertises must not change it.
	Advertise string `json:"provider_advertises,omitempty"`
}

func (k c05Cfg) key() string {
	m := k.Method
	if m == "" {
		m = "none"
	}
	adv := ""
	if k.Advertise != "" {
		adv = " advertised=" + k.Advertise
	}
	return fmt.Sprintf("pkce=%s skipnonce=%v perreq=%v entry=%s enc=%v%s", m, k.SkipNonce, k.PerRequest, k.Entry, k.EncodeState, adv)
}

func (k c05Cfg) flags() []string {
	f := append(baseFlags("static://200"), "--email-domain=*", "--cookie-secure=false",
		fmt.Sprintf("--insecure-oidc-skip-nonce=%v", k.SkipNonce),
		fmt.Sprintf("--cookie-csrf-per-request=%v", k.PerRequest))
	if k.Method != "" {
		f = append(f, "--code-challenge-method="+k.Method)
	}
	if k.Entry == "page" {
		f = append(f, "--skip-provider-button=true")
	}
	if k.EncodeState {
		f = append(f, "--encode-state=true")
	}
	return f
}

// c05Bound limits one history search.
type c05Bound struct {
	Logins    int  `json:"logins"`
	Callbacks int  `json:"callbacks_per_login"`
	Prune     bool `json:"prune"`
	Near      int  `json:"near_miss_level,omitempty"` // provider answers derived from the right nonce (c05NearModes)
}

type c05Op struct {
	K string `json:"op"`            // start | authorize | callback
	L int    `json:"login"`         // 1-based
	M string `json:"idp,omitempty"` // callback: echo | other:<j> | other:foreign | swap:<j> | empty | absent | raw
}

func (o c05Op) String() string {
	if o.K == "callback" {
		return fmt.Sprintf("callback(%d,%s)", o.L, o.M)
	}
	return fmt.Sprintf("%s(%d)", o.K, o.L)
}

func c05HistString(h []c05Op) string {
	parts := make([]string, len(h))
	for i, o := range h {
		parts[i] = o.String()
	}
	return strings.Join(parts, " ")
}

type c05Case struct {
	Cfg   c05Cfg   `json:"config"`
	Hist  []c05Op  `json:"history"`
	Flags []string `json:"flags,omitempty"`
	Seen  string   `json:"observed,omitempty"`
}

func c05ModeClass(m string) string {
	switch {
	case m == "other:foreign":
		return "foreign-login"
	case strings.HasPrefix(m, "other:"):
		return "other-login"
	case strings.HasPrefix(m, "swap:"):
		return "swapped-code"
	case strings.HasPrefix(m, "near:"):
		return "near-miss"
	}
	return m
}

// c05Enabled lists the operations enabled after history h, simplest first. Logins are started
// in index order (they are interchangeable), each is authorized once.
func c05Enabled(h []c05Op, bd c05Bound) []c05Op {
	started, authorized, calls := 0, map[int]bool{}, map[int]int{}
	for _, o := range h {
		switch o.K {
		case "start":
			started++
		case "authorize":
			authorized[o.L] = true
		case "callback":
			calls[o.L]++
		}
	}
	var out []c05Op
	if started < bd.Logins {
		out = append(out, c05Op{K: "start", L: started + 1})
	}
	for i := 1; i <= started; i++ {
		if !authorized[i] {
			out = append(out, c05Op{K: "authorize", L: i})
		}
	}
	for i := 1; i <= started; i++ {
		if !authorized[i] || calls[i] >= bd.Callbacks {
			continue
		}
		out = append(out, c05Op{K: "callback", L: i, M: "echo"})
		others := 0
		for j := 1; j <= started; j++ {
			if j != i {
				others++
				out = append(out, c05Op{K: "callback", L: i, M: fmt.Sprintf("other:%d", j)})
			}
		}
		if others == 0 {
			out = append(out, c05Op{K: "callback", L: i, M: "other:foreign"})
		}
		for j := 1; j <= started; j++ {
			if j != i && authorized[j] {
				out = append(out, c05Op{K: "callback", L: i, M: fmt.Sprintf("swap:%d", j)})
			}
		}
		for _, m := range []string{"empty", "absent", "raw"} {
			out = append(out, c05Op{K: "callback", L: i, M: m})
		}
		// near misses of the right value: "hash-match" is equality, not a prefix, suffix or
		// case-insensitive relation
		for _, m := range c05NearModes(bd.Near) {
			out = append(out, c05Op{K: "callback", L: i, M: m})
		}
	}
	return out
}

// c05NearModes: provider answers whose nonce is derived from the right one. level 1 = the two that
// any prefix-, length- or containment-style comparison lets through; level 2 = all.
func c05NearModes(level int) []string {
	switch {
	case level <= 0:
		return nil
	case level == 1:
		return []string{"near:cut", "near:cat"}
	}
	return []string{"near:cut", "near:cat", "near:first", "near:half", "near:ext", "near:case", "near:pad"}
}

// c05Near derives the near miss m from the right nonce value.
func c05Near(m, right string) string {
	if right == "" {
		return "x"
	}
	switch m {
	case "near:cut":
		return right[:len(right)-1]
	case "near:cat":
		return right + c05ForeignNonce
	case "near:first":
		return right[:1]
	case "near:half":
		return right[:len(right)/2]
	case "near:ext":
		return right + "A"
	case "near:case":
		b := []byte(right)
		for i, ch := range b {
			if ch >= 'a' && ch <= 'z' {
				b[i] = ch - 32
				return string(b)
			}
			if ch >= 'A' && ch <= 'Z' {
				b[i] = ch + 32
				return string(b)
			}
		}
		return right + "a"
	case "near:pad":
		return right + "="
	}
	return right + "?"
}

// ---------------------------------------------------------------------------------------------
// one execution: a fresh world and the replay of one history

type c05Login struct {
	Idx                                int
	User, Email                        string
	LoginURL                           string
	StateParam, StateNonce, NonceParam string
	Challenge                          string
	CookieName, CookieValue            string
	RawState, RawNonce                 []byte
	Verifier                           string
	HashedNonce                        string // base64url(sha256(raw OIDC nonce)): what a proxy that hashes would send
	Auth                               *world.AuthRequest
	CallbackURL                        string
	Phase                              int // 1 started, 2 authorized
	Calls                              int
	Last                               string
}

type c05Finding struct{ Key, Msg string }

type c05Exec struct {
	cfg      c05Cfg
	hist     []c05Op
	idp      *world.IdP
	px       *Proxy
	b        *Browser
	logins   []*c05Login // [0] unused
	sent     [][]byte    // everything sent to the browser, one dump per response
	findings []c05Finding
	errs     []string
	stats    map[string]int64
	outcome  string // outcome signature of the last operation ("" unless it is a callback)
	nontriv  bool   // the last operation is a callback that reached the token endpoint
	identity string
	judge    bool // the step being executed is the last one: evaluate and count
	lastFrom int  // index in sent of the first response of the last operation
	scanAll  bool // scan the whole history even if the last operation is not a start (replay)
	cur      *c05Op
	deliv    struct {
		called, present bool
		value           string
	}
}

func (x *c05Exec) fail(key, format string, a ...any) {
	if !x.judge {
		return
	}
	x.findings = append(x.findings, c05Finding{key, fmt.Sprintf(format, a...) + " | config: " + x.cfg.key() + " | history: " + c05HistString(x.hist)})
}

func (x *c05Exec) err(format string, a ...any) {
	x.errs = append(x.errs, fmt.Sprintf(format, a...)+" | config: "+x.cfg.key()+" | history: "+c05HistString(x.hist))
}

func (x *c05Exec) inc(name string) {
	if x.judge {
		x.stats[name]++
	}
}

func c05Dump(resp *world.Resp) []byte {
	var b bytes.Buffer
	fmt.Fprintf(&b, "HTTP %d\n", resp.Status)
	names := make([]string, 0, len(resp.Header))
	for n := range resp.Header {
		names = append(names, n)
	}
	sort.Strings(names)
	for _, n := range names {
		for _, v := range resp.Header[n] {
			fmt.Fprintf(&b, "%s: %s\n", n, v)
		}
	}
	b.WriteString("\n")
	b.WriteString(resp.Body)
	return b.Bytes()
}

func (x *c05Exec) get(target string) *world.Resp {
	resp := x.b.Get(target)
	if resp.Panic != nil {
		x.fail("C05/panic@"+resp.PanicSite(), "GET %s panicked: %v", target, resp.Panic)
	}
	x.sent = append(x.sent, c05Dump(resp))
	return resp
}

// probe asks the proxy who the browser is now (no state change; part of every step so that a
// history's execution is an exact extension of its prefix's execution).
func (x *c05Exec) probe() string {
	resp := x.get(x.px.Opts.ProxyPrefix + "/userinfo")
	x.identity = ""
	if resp.Status == 200 {
		var u struct {
			Email string `json:"email"`
		}
		if json.Unmarshal([]byte(resp.Body), &u) == nil {
			x.identity = u.Email
		}
	}
	return x.identity
}

func c05B64(b []byte) string { return base64.RawURLEncoding.EncodeToString(b) }

func c05Hash(b []byte) string {
	s := sha256.Sum256(b)
	return c05B64(s[:])
}

var c05VerifierRE = regexp.MustCompile(`^[A-Za-z0-9\-._~]{43,128}$`)

// RFC 7636 §4.2
func c05Challenge(method, verifier string) string {
	if method == "S256" {
		return c05Hash([]byte(verifier))
	}
	return verifier
}

var c05ForeignNonce = c05Hash([]byte("nonce of a login started in some other browser"))

func (x *c05Exec) jarHolds(l *c05Login) bool {
	for _, ck := range x.b.Jar.Cookies {
		if ck.Name == l.CookieName && ck.Value == l.CookieValue {
			return true
		}
	}
	return false
}

func (x *c05Exec) sessionCookieSet(resp *world.Resp) bool {
	name := x.px.Opts.Cookie.Name
	for _, ck := range resp.Cookies() {
		if strings.HasSuffix(ck.Name, "_csrf") {
			continue
		}
		if (ck.Name == name || strings.HasPrefix(ck.Name, name+"_")) && ck.Value != "" && ck.MaxAge >= 0 {
			return true
		}
	}
	return false
}

func c05Users(i int) (string, string) {
	if i%2 == 1 {
		return "alice", "alice@example.com"
	}
	return "bob", "bob@other.org"
}

// c05Run builds a fresh world and replays hist; the oracle judges the last operation (every
// prefix of an explored history is itself an explored history) and scans the whole history
// for leaks.
func c05Run(seed int64, cfg c05Cfg, hist []c05Op) *c05Exec { return c05RunScan(seed, cfg, hist, false) }

func c05RunScan(seed int64, cfg c05Cfg, hist []c05Op, scanAll bool) *c05Exec {
	world.ResetClock()
	world.SeedRandom(seed, 0)
	x := &c05Exec{cfg: cfg, hist: hist, stats: map[string]int64{}, logins: []*c05Login{nil}, scanAll: scanAll}
	x.idp = world.NewIdP()
	switch cfg.Advertise {
	case "plain":
		x.idp.PKCEMethods = []string{"plain"}
	case "none":
		x.idp.PKCEMethods = []string{}
	}
	x.px = mustProxy(&ProxyCfg{Flags: cfg.flags()})
	x.b = newBrowser(x.px, "http", "app.example.com")
	x.idp.IDTokenSpec = x.tokenSpec
	for i, op := range hist {
		x.judge = i == len(hist)-1
		if x.judge {
			x.lastFrom = len(x.sent)
		}
		switch op.K {
		case "start":
			x.start(op)
		case "authorize":
			x.authorize(op)
		case "callback":
			x.callback(op)
		}
		if len(x.errs) > 0 {
			break
		}
	}
	x.judge = true
	x.leakScan()
	return x
}

// tokenSpec is the identity provider's nonce behaviour for the callback being executed.
func (x *c05Exec) tokenSpec(a *world.AuthRequest, _ *world.User, refresh bool) *world.TokenSpec {
	if refresh || a == nil || x.cur == nil {
		return nil
	}
	x.deliv.called = true
	set := func(v string) *world.TokenSpec {
		x.deliv.present, x.deliv.value = true, v
		return &world.TokenSpec{Nonce: &v}
	}
	var l *c05Login
	for _, c := range x.logins[1:] {
		if c.Auth == a {
			l = c
		}
	}
	m := x.cur.M
	switch {
	case m == "echo" || strings.HasPrefix(m, "swap:"):
		if a.Nonce != "" {
			return set(a.Nonce)
		}
		return &world.TokenSpec{DropNonce: true}
	case m == "other:foreign":
		return set(c05ForeignNonce)
	case strings.HasPrefix(m, "other:"):
		var j int
		fmt.Sscanf(m, "other:%d", &j)
		if j >= 1 && j < len(x.logins) {
			// what the other login's authorization request carried (or, with skip-nonce, would have carried)
			o := x.logins[j]
			if o.NonceParam != "" {
				return set(o.NonceParam)
			}
			return set(o.HashedNonce)
		}
		x.err("other-login nonce requested for unknown login %d", j)
	case m == "empty":
		return set("")
	case strings.HasPrefix(m, "near:"):
		right := a.Nonce
		if right == "" && l != nil {
			right = l.HashedNonce
		}
		return set(c05Near(m, right))
	case m == "absent":
		return &world.TokenSpec{DropNonce: true}
	case m == "raw":
		if l != nil && len(l.RawNonce) > 0 {
			return set(c05B64(l.RawNonce))
		}
		x.err("raw nonce of the login is not known")
	}
	return &world.TokenSpec{DropNonce: true}
}

func (x *c05Exec) start(op c05Op) {
	i := op.L
	user, email := c05Users(i)
	l := &c05Login{Idx: i, User: user, Email: email}
	page := fmt.Sprintf("/app/p%d", i)
	target := x.px.Opts.ProxyPrefix + "/start?rd=" + url.QueryEscape(page)
	if x.cfg.Entry == "page" {
		// a browser without a session is sent to the provider when it asks for a protected page;
		// one that already has a session gets there through the sign-in endpoint
		target = page
		if x.identity != "" {
			target = x.px.Opts.ProxyPrefix + "/sign_in?rd=" + url.QueryEscape(page)
		}
	}
	resp := x.get(target)
	x.logins = append(x.logins, l)
	if resp.Status != 302 || !strings.HasPrefix(resp.Location(), world.Issuer+"/authorize?") {
		x.err("start(%d): expected a redirect to the provider, got %d %q", i, resp.Status, resp.Location())
		return
	}
	l.LoginURL = resp.Location()
	u, perr := url.Parse(l.LoginURL)
	if perr != nil {
		x.err("start(%d): unparsable login URL: %v", i, perr)
		return
	}
	q := u.Query()
	l.StateParam = q.Get("state")
	st := l.StateParam
	if x.cfg.EncodeState {
		d, _ := base64.RawURLEncoding.DecodeString(st)
		st = string(d)
	}
	l.StateNonce = strings.SplitN(st, ":", 2)[0]
	// the CSRF cookie of this login and the raw values inside it
	n := 0
	for _, ck := range resp.Cookies() {
		if strings.HasSuffix(ck.Name, "_csrf") && ck.Value != "" && ck.MaxAge >= 0 {
			n++
			l.CookieName, l.CookieValue = ck.Name, ck.Value
		}
	}
	if n != 1 {
		x.err("start(%d): %d CSRF cookies set, expected 1", i, n)
		return
	}
	req, _ := http.NewRequest("GET", "http://app.example.com/", nil)
	req.Header.Set("Cookie", l.CookieName+"="+l.CookieValue)
	var err error
	l.RawState, l.RawNonce, l.Verifier, err = cookies.VerifCSRFSecrets(req, l.CookieName, x.px.P.CookieOptions)
	if err != nil {
		x.err("start(%d): cannot open the CSRF cookie: %v", i, err)
		return
	}
	if len(l.RawState) < 16 || len(l.RawNonce) < 16 {
		x.err("start(%d): CSRF cookie holds a %d-byte state nonce and a %d-byte OIDC nonce", i, len(l.RawState), len(l.RawNonce))
		return
	}
	l.HashedNonce = c05Hash(l.RawNonce)
	// control (asserted per configuration, not per case): the state parameter is the hash of the
	// state nonce in the cookie that was opened
	if l.StateNonce == c05Hash(l.RawState) {
		x.inc("state_param_is_hash_of_cookie_state")
	}
	l.Phase = 1
	x.inc("starts")

	// --- nonce in the authorization request
	nv := q["nonce"]
	if len(nv) > 0 {
		l.NonceParam = nv[0]
	}
	if !x.cfg.SkipNonce {
		if len(nv) != 1 || nv[0] == "" {
			x.fail("C05/authorization-request-without-nonce", "start(%d): nonce checking is on but the authorization request carries %d nonce parameters (%q)", i, len(nv), nv)
		} else if nv[0] == l.HashedNonce {
			x.inc("nonce_param_is_hash_of_cookie_nonce")
		} else {
			x.inc("nonce_param_other_derivation")
		}
	} else if len(nv) > 0 {
		x.inc("nonce_param_sent_although_skipped")
	} else {
		x.inc("no_nonce_param_with_skip_nonce")
	}
	for _, o := range x.logins[1:i] {
		if bytes.Equal(o.RawNonce, l.RawNonce) || (l.NonceParam != "" && o.NonceParam == l.NonceParam) {
			x.fail("C05/nonce-reused-across-logins", "start(%d) uses the same OIDC nonce as login %d: a token replayed from that login would match", i, o.Idx)
		} else {
			x.inc("nonce_freshness_comparisons")
		}
	}

	// --- PKCE in the authorization request
	ch, cm := q["code_challenge"], q["code_challenge_method"]
	if len(ch) > 0 {
		l.Challenge = ch[0]
	}
	if x.cfg.Method == "" {
		if len(ch) > 0 {
			x.inc("challenge_sent_without_method")
		}
		return
	}
	switch {
	case len(ch) != 1 || ch[0] == "":
		x.fail("C05/pkce-no-challenge-in-authorization-request", "start(%d): method %s configured but the authorization request carries %d code_challenge parameters", i, x.cfg.Method, len(ch))
		return
	case len(cm) != 1 || cm[0] != x.cfg.Method:
		x.fail("C05/pkce-wrong-challenge-method", "start(%d): method %s configured but code_challenge_method=%q", i, x.cfg.Method, cm)
	}
	if !c05VerifierRE.MatchString(l.Verifier) {
		x.fail("C05/pkce-verifier-syntax", "start(%d): stored verifier is not 43-128 unreserved characters (length %d)", i, len(l.Verifier))
	} else {
		x.inc("verifier_syntax_ok")
	}
	if c05Challenge(x.cfg.Method, l.Verifier) != l.Challenge {
		x.fail("C05/pkce-challenge-not-derived-from-stored-verifier", "start(%d): code_challenge is not %s(verifier stored in this login's CSRF cookie)", i, x.cfg.Method)
	} else {
		x.inc("challenge_derived_from_stored_verifier")
	}
	for _, o := range x.logins[1:i] {
		if o.Verifier == l.Verifier || o.Challenge == l.Challenge {
			x.fail("C05/pkce-verifier-reused-across-logins", "start(%d) carries the same verifier/challenge as login %d", i, o.Idx)
		} else {
			x.inc("verifier_freshness_comparisons")
		}
	}
}

func (x *c05Exec) authorize(op c05Op) {
	l := x.logins[op.L]
	cb, a, err := x.idp.Authorize(l.LoginURL, l.User)
	if err != nil {
		x.err("authorize(%d): %v", op.L, err)
		return
	}
	l.Auth, l.CallbackURL, l.Phase = a, cb, 2
	x.inc("authorizations")
}

func (x *c05Exec) callback(op c05Op) {
	l := x.logins[op.L]
	holds := x.jarHolds(l)
	// swap:<j> = this login's callback (its state, its cookie) carrying the code the provider
	// issued for login j of the same browser; the provider answers truthfully for that code
	codeOf := l
	swap := strings.HasPrefix(op.M, "swap:")
	if swap {
		var j int
		fmt.Sscanf(op.M, "swap:%d", &j)
		if j < 1 || j >= len(x.logins) || x.logins[j].Auth == nil {
			x.err("callback(%d): no code of login %d to swap in", op.L, j)
			return
		}
		codeOf = x.logins[j]
	}
	usedBefore := codeOf.Auth.Used
	callsBefore, probsBefore := len(x.idp.Calls), len(x.idp.Problems)
	overlapping := false
	for _, o := range x.logins[1:] {
		if o != l && o.Calls == 0 {
			overlapping = true // another login of this browser is outstanding
		}
	}
	cu, _ := url.Parse(l.CallbackURL)
	if swap {
		q := cu.Query()
		q.Set("code", codeOf.Auth.Code)
		cu.RawQuery = q.Encode()
	}
	o := op
	x.cur = &o
	x.deliv.called, x.deliv.present, x.deliv.value = false, false, ""
	resp := x.get(cu.RequestURI())
	x.cur = nil
	session := x.sessionCookieSet(resp)
	ident := x.probe()
	l.Calls++
	l.Last = "rejected"
	if session {
		l.Last = "session"
	}
	class := c05ModeClass(op.M)

	// --- what reached the token endpoint
	var notes []string
	reached := false
	verified := false
	for _, tc := range x.idp.Calls[callsBefore:] {
		if tc.Endpoint != "token" || tc.Grant != "authorization_code" {
			continue
		}
		reached = true
		notes = append(notes, tc.Note)
		if tc.Form.Get("code") != codeOf.Auth.Code {
			x.err("callback(%d): token request for code %q, expected %q", op.L, tc.Form.Get("code"), codeOf.Auth.Code)
			continue
		}
		vs := tc.Form["code_verifier"]
		v := tc.Form.Get("code_verifier")
		if x.cfg.Method == "" {
			if v != "" {
				x.inc("verifier_sent_without_method")
			}
			continue
		}
		switch {
		case len(vs) == 1 && v == l.Verifier:
			x.inc("redeemed_with_this_logins_verifier")
			if tc.Note == "code-ok" && !swap {
				verified = true
				x.inc("provider_verified_pkce")
			}
		case holds:
			x.fail("C05/pkce-verifier-at-redemption-not-this-logins", "callback(%d): the browser holds this login's CSRF cookie but the token request carries %d code_verifier values, not the login's verifier", op.L, len(vs))
		default:
			// the single-name CSRF cookie of this login was replaced by a later start: the proxy
			// redeems with the verifier of the cookie it finds (redemption precedes the state
			// check) and the provider refuses. The statement does not say what must be presented
			// for a login whose browser state is gone: counted, not alarmed.
			x.inc("ambiguous")
			x.inc("ambiguous_redeemed_with_replacing_logins_verifier")
		}
	}
	for _, p := range x.idp.Problems[probsBefore:] {
		switch {
		case strings.Contains(p, "lacks code_verifier"):
			x.fail("C05/pkce-verifier-missing-at-redemption", "callback(%d): provider: %s", op.L, p)
		case strings.Contains(p, "violates RFC 7636 syntax"):
			x.fail("C05/pkce-verifier-syntax", "callback(%d): provider: %s", op.L, p)
		case strings.Contains(p, "does not match the challenge"):
			if swap {
				// this login's verifier against the other login's challenge: the refusal PKCE exists for
				x.inc("provider_refused_swapped_code")
			} else if holds {
				x.fail("C05/pkce-verifier-does-not-match-challenge", "callback(%d): the browser holds this login's CSRF cookie; provider: %s", op.L, p)
			} else {
				x.inc("provider_refused_replacing_logins_verifier")
			}
		case strings.Contains(p, "repeated across logins"):
			// the provider's crude detector also fires when one verifier is presented with two
			// codes; freshness per authorization request is checked at start instead
			x.inc("provider_saw_verifier_twice")
		default:
			x.fail("C05/provider-reported-problem", "callback(%d): provider: %s", op.L, p)
		}
	}
	x.nontriv = reached

	// --- only-if: a session needs the token's nonce to be this login's
	bound := x.deliv.called && x.deliv.present && l.NonceParam != "" && x.deliv.value == l.NonceParam
	// "an unhashed one never yields a session": the accepted claim must not be the raw nonce in
	// any of the usual encodings, whatever the authorization request carried
	unhashed := false
	if x.deliv.present && x.deliv.value != "" {
		for _, enc := range []string{c05B64(l.RawNonce), base64.StdEncoding.EncodeToString(l.RawNonce), base64.URLEncoding.EncodeToString(l.RawNonce),
			base64.RawStdEncoding.EncodeToString(l.RawNonce), hex.EncodeToString(l.RawNonce), string(l.RawNonce)} {
			if x.deliv.value == enc {
				unhashed = true
			}
		}
	}
	if session {
		x.inc("sessions")
		if !x.cfg.SkipNonce && unhashed {
			x.fail("C05/session-despite-nonce:raw", "callback(%d): a session was established on an ID token whose nonce claim is this login's RAW nonce", op.L)
		} else if !x.cfg.SkipNonce && !bound {
			what := class
			if !x.deliv.called {
				what = "no-token-issued"
			}
			x.fail("C05/session-despite-nonce:"+what, "callback(%d): a session was established although the ID token's nonce (present=%v %q) is not the nonce of this login's authorization request (%q)", op.L, x.deliv.present, x.deliv.value, l.NonceParam)
		}
		if x.cfg.SkipNonce && !bound {
			x.inc("accepted_unbound_nonce_with_skip_nonce:" + class)
		}
		if swap && x.cfg.SkipNonce && x.cfg.Method == "" {
			// neither binding is configured: nothing in the statement forbids this session
			x.inc("accepted_swapped_code_without_nonce_or_pkce")
		} else if ident != l.Email {
			x.fail("C05/session-identity-not-this-logins", "callback(%d): session established but the browser is now %q, the login was %q", op.L, ident, l.Email)
		}
		if x.cfg.Method != "" && !verified {
			x.fail("C05/session-without-verified-redemption", "callback(%d): session established but no token request with this login's verifier was accepted by the provider (notes %v)", op.L, notes)
		}
	} else {
		x.inc("no_session")
		if swap && reached && holds && !usedBefore && x.cfg.Method != "" {
			x.inc("rejected_by_pkce:swapped-code")
		} else if reached && holds && !usedBefore && !x.cfg.SkipNonce && !bound {
			x.inc("rejected_by_nonce:" + class)
			if strings.HasPrefix(op.M, "other:") && op.M != "other:foreign" {
				var j int
				fmt.Sscanf(op.M, "other:%d", &j)
				if x.logins[j].Last == "session" {
					x.inc("rejected_replayed_nonce_of_completed_login")
				} else {
					x.inc("rejected_nonce_of_outstanding_login")
				}
			}
		}
	}
	// --- converse, jar-realisable: the healthy provider answer for a login whose cookie the
	// browser still holds and whose code is unused completes the login
	if op.M == "echo" && holds && !usedBefore {
		if !session || ident != l.Email {
			x.fail("C05/healthy-login-rejected", "callback(%d): correct nonce echoed, CSRF cookie held, code unused, but status %d session=%v identity=%q provider notes %v", op.L, resp.Status, session, ident, notes)
		} else {
			x.inc("healthy_logins_completed")
			if overlapping {
				x.inc("healthy_logins_completed_while_another_outstanding")
			}
		}
	}
	if op.M == "raw" && x.deliv.called && x.deliv.value != "" {
		x.inc("raw_nonce_delivered")
	}
	x.outcome = fmt.Sprintf("%s | idp=%s holds=%v code-used=%v -> class=%s session=%v provider=%v", x.cfg.key(), class, holds, usedBefore, c05StatusClass(resp), session, notes)
}

func c05StatusClass(resp *world.Resp) string {
	switch {
	case resp.Status == 302:
		return "redirect"
	case resp.Status >= 400:
		return "error-page"
	}
	return fmt.Sprintf("%d", resp.Status)
}

// canon is the canonical state: semantic contents only (which login a cookie belongs to, who
// the session is), never ciphertext bytes or random values.
func (x *c05Exec) canon() string {
	var b strings.Builder
	for _, l := range x.logins[1:] {
		fmt.Fprintf(&b, "L%d[phase=%d calls=%d holds=%v used=%v last=%s]", l.Idx, l.Phase, l.Calls, x.jarHolds(l), l.Auth != nil && l.Auth.Used, l.Last)
	}
	var kinds []string
	name := x.px.Opts.Cookie.Name
	for _, ck := range x.b.Jar.Cookies {
		switch {
		case strings.HasSuffix(ck.Name, "_csrf"):
			owner := "?"
			for _, l := range x.logins[1:] {
				if l.CookieName == ck.Name && l.CookieValue == ck.Value {
					owner = fmt.Sprint(l.Idx)
				}
			}
			kinds = append(kinds, "csrf:"+owner)
		case ck.Name == name || strings.HasPrefix(ck.Name, name+"_"):
			kinds = append(kinds, "session")
		default:
			kinds = append(kinds, "other:"+ck.Name)
		}
	}
	sort.Strings(kinds)
	fmt.Fprintf(&b, " jar=%v identity=%q clock=%v grants=%d", kinds, x.identity, world.Offset(), x.idp.CodeGrants)
	return b.String()
}

// transcript is everything observable of an execution (determinism check).
func (x *c05Exec) transcript() string {
	h := sha256.New()
	// the session cookie's ciphertext is excluded: the session's expiry is computed by
	// golang.org/x/oauth2 on the real clock and differs from run to run
	re := regexp.MustCompile(`(?m)^Set-Cookie: ` + regexp.QuoteMeta(x.px.Opts.Cookie.Name) + `(_\d+)?=[^;\n]*`)
	for _, s := range x.sent {
		h.Write(re.ReplaceAll(s, []byte("Set-Cookie: <session>")))
		h.Write([]byte{0})
	}
	for _, c := range x.idp.Calls {
		fmt.Fprintf(h, "%s|%s|%d|%s|%v\n", c.Endpoint, c.Grant, c.Status, c.Note, c.Form)
	}
	return hex.EncodeToString(h.Sum(nil)) + " " + x.canon()
}

// ---------------------------------------------------------------------------------------------
// leak scan

type c05Needle struct {
	What string
	Raw  []byte
}

func c05IsB64(c byte) bool {
	return c >= 'A' && c <= 'Z' || c >= 'a' && c <= 'z' || c >= '0' && c <= '9' || c == '+' || c == '/' || c == '-' || c == '_'
}

func c05IsHex(c byte) bool {
	return c >= '0' && c <= '9' || c >= 'a' && c <= 'f' || c >= 'A' && c <= 'F'
}

// maximal runs of characters satisfying ok, at least min long
func c05Tokens(v []byte, ok func(byte) bool, min int) [][]byte {
	var out [][]byte
	for i := 0; i < len(v); {
		if !ok(v[i]) {
			i++
			continue
		}
		j := i
		for j < len(v) && ok(v[j]) {
			j++
		}
		if j-i >= min {
			out = append(out, v[i:j])
		}
		i = j
	}
	return out
}

// lenient base64 decoding of both alphabets, no padding, leftover bits dropped
func c05B64Decode(t []byte) []byte {
	out := make([]byte, 0, len(t)*3/4)
	var acc uint32
	bits := 0
	for _, c := range t {
		var v uint32
		switch {
		case c >= 'A' && c <= 'Z':
			v = uint32(c - 'A')
		case c >= 'a' && c <= 'z':
			v = uint32(c-'a') + 26
		case c >= '0' && c <= '9':
			v = uint32(c-'0') + 52
		case c == '+' || c == '-':
			v = 62
		default:
			v = 63
		}
		acc = acc<<6 | v
		bits += 6
		if bits >= 8 {
			bits -= 8
			out = append(out, byte(acc>>uint(bits)))
			acc &= 1<<uint(bits) - 1
		}
	}
	return out
}

func c05PercentDecode(v []byte) []byte {
	out := make([]byte, 0, len(v))
	for i := 0; i < len(v); i++ {
		if v[i] == '%' && i+2 < len(v) && c05IsHex(v[i+1]) && c05IsHex(v[i+2]) {
			var b [1]byte
			hex.Decode(b[:], v[i+1:i+3])
			out = append(out, b[0])
			i += 2
			continue
		}
		if v[i] == '+' {
			out = append(out, ' ')
			continue
		}
		out = append(out, v[i])
	}
	return out
}

// c05Scan searches blob and its decodings (percent, HTML entities, base64/base64url tokens at
// every alignment, hex tokens), recursively to the given depth, for the needles.
func c05Scan(blob []byte, needles []c05Needle, depth int) (hits []string, views int) {
	found := map[string]bool{}
	var walk func(v []byte, d int, path string)
	walk = func(v []byte, d int, path string) {
		views++
		for _, n := range needles {
			if len(n.Raw) > 0 && bytes.Contains(v, n.Raw) && !found[n.What] {
				found[n.What] = true
				hits = append(hits, n.What+" via "+path)
			}
		}
		if d == 0 {
			return
		}
		if bytes.IndexByte(v, '%') >= 0 {
			walk(c05PercentDecode(v), d-1, path+">percent")
		}
		if bytes.IndexByte(v, '&') >= 0 {
			walk([]byte(html.UnescapeString(string(v))), d-1, path+">html")
		}
		for _, t := range c05Tokens(v, c05IsB64, 16) {
			for off := 0; off < 4 && len(t)-off >= 16; off++ {
				walk(c05B64Decode(t[off:]), d-1, path+">base64")
			}
		}
		for _, t := range c05Tokens(v, c05IsHex, 32) {
			for off := 0; off < 2; off++ {
				s := t[off:]
				s = s[:len(s)&^1]
				dec := make([]byte, len(s)/2)
				hex.Decode(dec, s)
				walk(dec, d-1, path+">hex")
			}
		}
	}
	walk(blob, depth, "raw")
	return hits, views
}

func c05ScanSelfTest(c *Ctx) {
	secret := sha256.Sum256([]byte("c05 scanner self-test secret"))
	s := secret[:]
	n := []c05Needle{{"secret", s}}
	pct := ""
	for _, b := range s {
		pct += fmt.Sprintf("%%%02X", b)
	}
	pos := map[string]string{
		"raw bytes":              "Location: /x?y=" + string(s) + "&z",
		"base64 std padded":      `Set-Cookie: a="` + base64.StdEncoding.EncodeToString(s) + `"; Path=/`,
		"base64url":              "Location: https://idp.example/authorize?nonce=" + c05B64(s) + "&state=q",
		"base64url misaligned":   "X: " + c05B64(append([]byte("hello"), s...)) + "|17|sig",
		"base64 glued to prefix": "X: abc" + c05B64(s),
		"hex lower":              "<p>" + hex.EncodeToString(s) + "</p>",
		"hex upper":              "v=" + strings.ToUpper(hex.EncodeToString(s)),
		"percent":                "Location: /cb?n=" + pct,
		"base64 inside base64":   "state=" + c05B64([]byte(c05B64(s)+":/app/p1")),
		"percent of base64":      "n=" + strings.ReplaceAll(base64.StdEncoding.EncodeToString(s), "=", "%3D"),
		"html entity":            `<a href="/x?a=1&amp;n=` + c05B64(s) + `">`,
	}
	for name, text := range pos {
		if hits, _ := c05Scan([]byte(text), n, 2); len(hits) == 0 {
			c.Error("leak scanner self-test: secret not found in form %q", name)
		}
	}
	neg := []string{"nonce=" + c05Hash(s), "nothing here", hex.EncodeToString(s[:20]), c05B64(s[:24])}
	for _, text := range neg {
		if hits, _ := c05Scan([]byte(text), n, 2); len(hits) != 0 {
			c.Error("leak scanner self-test: false hit in %q: %v", text, hits)
		}
	}
}

func (x *c05Exec) leakScan() {
	var needles, controls []c05Needle
	for _, l := range x.logins[1:] {
		if l.Phase == 0 {
			continue
		}
		needles = append(needles,
			c05Needle{fmt.Sprintf("raw-state-nonce(login %d)", l.Idx), l.RawState},
			c05Needle{fmt.Sprintf("raw-oidc-nonce(login %d)", l.Idx), l.RawNonce})
		if x.cfg.Method == "S256" {
			needles = append(needles, c05Needle{fmt.Sprintf("code-verifier(login %d)", l.Idx), []byte(l.Verifier)})
		}
		// positive controls: values that ARE sent must be found by the same scanner
		if l.StateNonce == c05Hash(l.RawState) {
			controls = append(controls, c05Needle{"hashed-state", []byte(l.StateNonce)})
		}
		if x.cfg.Method == "plain" {
			controls = append(controls, c05Needle{"plain-verifier", []byte(l.Verifier)})
		}
		if !x.cfg.SkipNonce && l.NonceParam == l.HashedNonce {
			controls = append(controls, c05Needle{"hashed-nonce", []byte(l.HashedNonce)})
		}
	}
	if len(needles) == 0 {
		return
	}
	// Every prefix of an explored history is explored and scanned itself, so the responses of
	// the earlier operations have already been scanned for every secret that existed then; a
	// start creates new secrets, so there the whole history is scanned again (and the positive
	// controls, which live in the start responses, are evaluated).
	whole := x.scanAll || len(x.hist) == 0 || x.hist[len(x.hist)-1].K == "start"
	part := x.sent
	if !whole {
		part = x.sent[x.lastFrom:]
		controls = nil
	}
	all := bytes.Join(part, []byte("\n\x00\n"))
	hits, views := c05Scan(all, needles, 2)
	x.stats["leak_scan_bytes"] += int64(len(all))
	_ = views
	x.stats["leak_scan_secrets"] += int64(len(needles))
	for _, h := range hits {
		what := h[:strings.Index(h, "(")]
		x.fail("C05/leak:"+what, "%s occurs in clear in what was sent to the browser (%d bytes scanned)", h, len(all))
	}
	for _, ctl := range controls {
		if got, _ := c05Scan(all, []c05Needle{ctl}, 2); len(got) == 0 {
			x.err("leak scan control: %s, which is part of the login URL, was not found in the recorded output", ctl.What)
		} else {
			x.stats["leak_scan_controls_found"]++
		}
	}
}

// ---------------------------------------------------------------------------------------------
// the search

type c05Search struct {
	c         *Ctx
	cfg       c05Cfg
	bd        c05Bound
	confirmed map[string]bool
	local     map[string]int64 // per-search counters for the non-vacuity assertions
	states    map[string]bool
	outcomes  map[string]bool
}

func (s *c05Search) record(x *c05Exec, count bool) {
	c := s.c
	for _, e := range x.errs {
		c.Error("%s", e)
	}
	if count {
		c.Inc("evaluations")
		c.Inc("traces_validated_against_impl")
		for k, v := range x.stats {
			c.Add(k, v)
			s.local[k] += v
		}
		if x.nontriv {
			c.Distinct("distinct_nontrivial", s.cfg.key()+"|"+c05HistString(x.hist))
		}
		if x.outcome != "" {
			c.Distinct("distinct_outcomes", x.outcome)
			s.outcomes[x.outcome] = true
		}
		c.SetMax("max_depth", int64(len(x.hist)))
	}
	for _, f := range x.findings {
		cs := c05Case{Cfg: s.cfg, Hist: x.hist, Flags: s.cfg.flags(), Seen: f.Msg}
		if s.confirmed[f.Key] {
			c.Violate(f.Key, f.Msg, len(x.hist), cs)
			continue
		}
		s.confirmed[f.Key] = true
		key := f.Key
		c.confirm(f.Key, f.Msg, len(x.hist), cs, func() (string, bool) {
			y := c05Run(c.Seed, s.cfg, x.hist)
			for _, g := range y.findings {
				if g.Key == key {
					return key, true
				}
			}
			return "", false
		})
	}
}

// bfs explores all histories within the bound; returns false if the deadline ended it.
func (s *c05Search) bfs() bool {
	c := s.c
	s.states, s.outcomes = map[string]bool{}, map[string]bool{}
	root := c05Run(c.Seed, s.cfg, nil)
	s.record(root, true)
	s.states[root.canon()] = true
	frontier := [][]c05Op{nil}
	for len(frontier) > 0 {
		var next [][]c05Op
		for _, h := range frontier {
			for _, op := range c05Enabled(h, s.bd) {
				if c.Expired() {
					return false
				}
				h2 := append(append([]c05Op(nil), h...), op)
				x := c05Run(c.Seed, s.cfg, h2)
				s.record(x, true)
				if len(x.errs) > 0 {
					continue
				}
				c.Inc("transitions")
				k := x.canon()
				fresh := !s.states[k]
				s.states[k] = true
				if fresh || !s.bd.Prune {
					next = append(next, h2)
				} else {
					c.Inc("pruned_duplicate_states")
				}
				if x.outcome != "" && len(h2) >= 5 {
					c.Sample(3, map[string]any{"config": s.cfg.key(), "history": c05HistString(h2), "outcome": x.outcome, "state": k})
				}
			}
		}
		frontier = next
	}
	c.Add("states", int64(len(s.states)))
	return true
}

// nonVacuity asserts, per configuration, the outcomes without which the search means nothing.
func (s *c05Search) nonVacuity() {
	c, l := s.c, s.local
	need := func(name string) {
		if l[name] == 0 {
			c.Error("vacuous: %q never observed for configuration %s (bound %+v)", name, s.cfg.key(), s.bd)
		}
	}
	need("healthy_logins_completed")
	need("leak_scan_secrets")
	need("leak_scan_controls_found")
	need("state_param_is_hash_of_cookie_state")
	if s.bd.Logins >= 2 {
		need("nonce_freshness_comparisons")
		if s.cfg.PerRequest {
			need("healthy_logins_completed_while_another_outstanding")
		}
	}
	if !s.cfg.SkipNonce {
		need("nonce_param_is_hash_of_cookie_nonce")
		need("raw_nonce_delivered")
		for _, m := range []string{"foreign-login", "empty", "absent", "raw"} {
			need("rejected_by_nonce:" + m)
		}
		if s.bd.Logins >= 2 {
			if s.cfg.Method == "" {
				need("rejected_by_nonce:swapped-code")
			}
			need("rejected_by_nonce:other-login")
			need("rejected_replayed_nonce_of_completed_login")
			need("rejected_nonce_of_outstanding_login")
		}
	}
	if s.cfg.Method != "" {
		need("verifier_syntax_ok")
		need("challenge_derived_from_stored_verifier")
		need("provider_verified_pkce")
		if s.bd.Logins >= 2 {
			need("provider_refused_swapped_code")
			need("rejected_by_pkce:swapped-code")
			need("verifier_freshness_comparisons")
		}
	}
}

type c05Job struct {
	Cfg   c05Cfg
	Bd    c05Bound
	Cross bool // also run without pruning and compare states and outcomes
}

func c05Jobs(quick bool) []c05Job {
	var base []c05Cfg
	for _, m := range []string{"", "S256", "plain"} {
		for _, skip := range []bool{false, true} {
			for _, per := range []bool{false, true} {
				base = append(base, c05Cfg{Method: m, SkipNonce: skip, PerRequest: per, Entry: "start"})
			}
		}
	}
	var jobs []c05Job
	variants := []struct {
		entry string
		enc   bool
	}{{"start", false}, {"page", false}, {"start", true}}
	add := func(k c05Cfg, logins, callbacks int, cross bool) {
		jobs = append(jobs, c05Job{Cfg: k, Bd: c05Bound{Logins: logins, Callbacks: callbacks, Prune: true}, Cross: cross})
	}
	// every tier: ALL histories of <= 2 logins without any pruning (and again with pruning: the
	// two must reach the same states and outcomes), three logins and repeated callbacks with pruning
	// S256 configured while the provider's discovery document lists plain only / nothing
	for _, adv := range []string{"plain", "none"} {
		for _, per := range []bool{false, true} {
			add(c05Cfg{Method: "S256", SkipNonce: false, PerRequest: per, Entry: "start", Advertise: adv}, 2, 1, false)
		}
	}
	// near misses of the right nonce (cut by one character, continued with another nonce, ...): two
	// logins, every configuration that checks the nonce
	nearLevel := 2
	if quick {
		nearLevel = 1
	}
	for _, k := range base {
		if !k.SkipNonce {
			jobs = append(jobs, c05Job{Cfg: k, Bd: c05Bound{Logins: 2, Callbacks: 1, Prune: true, Near: nearLevel}})
		}
	}
	if quick {
		for _, k := range base {
			add(k, 3, 1, false)
		}
		for _, k := range base {
			add(k, 2, 2, false)
		}
		for _, k := range base {
			add(k, 2, 1, true)
		}
		return jobs
	}
	// thorough adds, heaviest first: four logins; three logins with repeated callbacks; two
	// logins with repeated callbacks for every entry / state-encoding variant
	for _, k := range base {
		if !k.SkipNonce {
			add(k, 4, 1, false)
		}
	}
	for _, k := range base {
		add(k, 3, 2, false)
	}
	for _, k := range base {
		add(k, 3, 1, false)
	}
	for _, k := range base {
		for _, v := range variants {
			k2 := k
			k2.Entry, k2.EncodeState = v.entry, v.enc
			add(k2, 2, 2, false)
		}
	}
	for _, k := range base {
		add(k, 2, 1, true)
	}
	return jobs
}

func c05Main(c *Ctx) {
	if c.Shard == 0 {
		c05ScanSelfTest(c)
	}
	jobs := c05Jobs(c.Quick())
	c.Info["alphabet"] = map[string]any{
		"operations":            []string{"start(i)", "authorize(i)", "callback(i, provider nonce behaviour)"},
		"provider_nonce":        []string{"echo", "other login's (outstanding or completed = replayed; a foreign one when alone)", "empty", "absent", "raw (unhashed, base64url)", "truthful answer for another login's code swapped into this callback", "near misses of the right value: last character cut, continued with a foreign nonce (quick); first character, first half, one character appended, case of one letter changed, '=' appended (thorough)"},
		"code_challenge_method": []string{"none", "S256", "plain"},
		"skip_nonce":            2, "csrf_per_request": 2,
		"searches": len(jobs),
	}
	if c.Quick() {
		c.Info["bound"] = "12 configurations x {ALL histories of <= 2 logins in one browser unpruned (every interleaving of start/authorize/callback, 5 provider nonce behaviours + swapped code per callback); <= 3 logins with state pruning; <= 2 logins with each callback URL visited up to twice}"
	} else {
		c.Info["bound"] = "12 configurations x {ALL histories of <= 2 logins unpruned; <= 3 logins; <= 3 logins with each callback URL visited up to twice}; the 6 nonce-checking configurations x <= 4 logins; 36 configurations (entry: /oauth2/start | protected page or sign-in endpoint with skip-provider-button; encode-state) x <= 2 logins with each callback URL visited up to twice"
	}
	for ji, job := range jobs {
		if !c.Mine(ji) {
			continue
		}
		if c.Expired() {
			return
		}
		c.Inc("searches_run")
		// determinism: the same complete history twice, identical observations
		ref := []c05Op{{K: "start", L: 1}, {K: "authorize", L: 1}, {K: "start", L: 2}, {K: "callback", L: 1, M: "echo"}}
		a, b := c05Run(c.Seed, job.Cfg, ref), c05Run(c.Seed, job.Cfg, ref)
		if a.transcript() != b.transcript() {
			where := "provider call log or state"
			for i := range a.sent {
				if i >= len(b.sent) || !bytes.Equal(a.sent[i], b.sent[i]) {
					where = fmt.Sprintf("response %d", i)
					if i < len(b.sent) {
						for j := 0; j < len(a.sent[i]) && j < len(b.sent[i]); j++ {
							if a.sent[i][j] != b.sent[i][j] {
								lo := j - 60
								if lo < 0 {
									lo = 0
								}
								where += fmt.Sprintf(" at byte %d: …%q", j, a.sent[i][lo:j])
								break
							}
						}
					}
					break
				}
			}
			// not a harness error: the explored world is rebuilt from the same seed, so the difference
			// comes from state of the implementation that outlives a proxy instance
			c.Unstable("two executions of %s under %s differ in %s", c05HistString(ref), job.Cfg.key(), where)
		}
		s := &c05Search{c: c, cfg: job.Cfg, bd: job.Bd, confirmed: map[string]bool{}, local: map[string]int64{}}
		t0, tr0 := time.Now(), c.Counters["transitions"]
		if !s.bfs() {
			return
		}
		if os.Getenv("VERIF_C05_TIMING") != "" {
			c.Note("%s %+v: %d states %d transitions %.1fs", job.Cfg.key(), job.Bd, len(s.states), c.Counters["transitions"]-tr0, time.Since(t0).Seconds())
		}
		s.nonVacuity()
		if job.Cross {
			// abstraction check: the same bound without pruning must reach the same states and outcomes
			full := &c05Search{c: c, cfg: job.Cfg, bd: job.Bd, confirmed: s.confirmed, local: map[string]int64{}}
			full.bd.Prune = false
			before := c.Counters["states"]
			if !full.bfs() {
				return
			}
			c.Counters["states"] = before // the unpruned run reaches the same states; do not count them twice
			if len(full.states) != len(s.states) || len(full.outcomes) != len(s.outcomes) {
				c.Error("pruning changed the result for %s: %d states / %d outcomes with, %d / %d without", job.Cfg.key(), len(s.states), len(s.outcomes), len(full.states), len(full.outcomes))
			} else {
				c.Inc("pruning_crosschecks_passed")
			}
		}
	}
}

func init() {
	register(&checkDef{
		id:    "C05",
		level: "model_checking",
		rule: "breadth-first search over login histories (start / authorize / callback with one of 5 provider nonce behaviours or with another login's code swapped in) of up to 2 (thorough 3) logins in one browser, every interleaving, per configuration of code-challenge method x skip-nonce x csrf-per-request; every history replayed on a fresh world through the real handlers against a provider that verifies PKCE; states de-duplicated on semantic contents (login phases, which login each CSRF cookie belongs to, session identity, codes used); " +
			"distinct_nontrivial = distinct (configuration, history) whose last callback reached the token endpoint",
		assumptions: []string{
			"skip-nonce on/off are both set explicitly; the flag's documented default is on (nonce not checked)",
			"a callback for a login whose single-name CSRF cookie was replaced by a later start is redeemed with the replacing login's verifier before the state check rejects it; the provider refuses it; counted as ambiguous (the statement does not cover logins whose browser state is gone), never a session",
			"'raw instead of hashed' = base64url of the raw nonce bytes read from the decrypted CSRF cookie",
			"equal canonical states have equal futures (cross-checked in every run: for the 2-login bound the unpruned search over ALL histories must reach the same states and outcomes as the pruned one)",
			"the converse (a correct echo completes the login) is asserted only while the jar still holds that login's CSRF cookie and the code is unused",
		},
		shards: func(tier string) int {
			if tier == "thorough" {
				return 16
			}
			return 12
		},
		run: func(c *Ctx) {
			c03ConcurrentFor(c, "C05", c05ConcScenarios(), c05ConcEvery)
			c05Main(c)
		},
		replay: func(c *Ctx, raw json.RawMessage) string {
			var cr0 c03ConcReplay
			if json.Unmarshal(raw, &cr0) == nil && cr0.Kind == "concurrent-callbacks" {
				return c03ConcReplayFor(c, "C05", cr0, c05ConcEvery)
			}
			var cs c05Case
			if err := json.Unmarshal(raw, &cs); err != nil {
				c.Error("bad replay case: %v", err)
				return err.Error()
			}
			var obs []string
			// every prefix is judged at its last operation, as in the search
			for n := 1; n <= len(cs.Hist); n++ {
				x := c05RunScan(c.Seed, cs.Cfg, cs.Hist[:n], true)
				for _, e := range x.errs {
					c.Error("%s", e)
				}
				for _, f := range x.findings {
					c.Violate(f.Key, f.Msg, n, c05Case{Cfg: cs.Cfg, Hist: cs.Hist[:n]})
				}
				if n == len(cs.Hist) {
					obs = append(obs, "outcome: "+x.outcome, "state: "+x.canon(), fmt.Sprintf("findings: %d", len(x.findings)))
				}
			}
			return strings.Join(obs, " ; ")
		},
	})
}
